"""C03 — view lookup: correspondence of lean/PyramidModel/ViewLookup.lean with the real registration and lookup
code (add_view/register_view/MultiView/_find_views/_call_view/predicates, reached through Router.__call__), and
the property itself evaluated on the implementation by an oracle written from the statement.

A *case* is a self-contained JSON description of one application (class tree, resource tree, routes, view
registrations in registration order) and one request.  `build_app` turns it into a real Configurator/Router;
`abstract` computes, from the real objects, the data the Lean model takes as input (resolution orders, parsed
parameters, regex match table, accept q-values, lineage); `impl` sends the request through `Router.__call__`.
"""
import hashlib, itertools, json, re

from zope.interface import (Interface, implementer, providedBy, implementedBy, alsoProvides, noLongerProvides,
                            directlyProvides, directlyProvidedBy)
from zope.interface.interface import InterfaceClass

from pyramid.config import Configurator, not_
from pyramid.interfaces import IRequest, IRouteRequest, IAcceptOrder
from pyramid.request import Request
from pyramid.response import Response
from pyramid.security import Allowed, Denied
from pyramid.events import ContextFound, NewRequest, BeforeTraversal
from pyramid.registry import predvalseq
from webob.acceptparse import Accept

import vfutil

RULE = ('one case = one application (2-5 context classes with single/multiple inheritance, 2 interfaces, a '
        '1-3 level resource tree, 0-2 routes with/without use_global_views, 2-8 (thorough: up to 14) view '
        'registrations in shuffled order over {no context, class, interface} x names {"", "x"} x {global, '
        'route-bound} x subsets of the built-in predicates (incl. not_(), accept=, custom) x protected or '
        'not) and one request sent through Router.__call__; a case is non-trivial when at least two '
        'registered views are candidates for the request (same name, slot on the resolution orders) and '
        'either at least two of them have all predicates true (ordering decides) or the winning view is not '
        'the first candidate (a predicate mismatch was skipped) or nothing qualifies although candidates '
        'exist; distinct = distinct canonical case JSON')

I1 = InterfaceClass('I1', (Interface,), __doc__='harness interface 1')
I2 = InterfaceClass('I2', (I1,), __doc__='harness interface 2 (extends I1)')
I3 = InterfaceClass('I3', (Interface,), __doc__='harness marker interface 3 (independent of I1/I2; mostly applied at run time)')
IFACES = {1: I1, 2: I2, 3: I3}
# points of a request at which a marker interface may be put on / taken off a resource INSTANCE (case['marks']):
MARK_POINTS = ('new_request', 'root_factory', 'before_traversal', 'traversal', 'context_found')
IFACE_ID_OTHER = 90          # resolution-order members no registration can name (implementedBy(object), …)

OFFER_BASES = ['text/html', 'application/json', 'text/plain', 'application/x-foo', 'image/x-bar']
OFFER_PARAMS = [';charset=utf8', ';level=1', ';v=1']
# every media type also as parametrised twins: a bare range in the Accept header matches the twins too, and
# sort_accept_offers ranks a parametrised offer ahead of its bare type
OFFERS = OFFER_BASES + [b + p for b in OFFER_BASES for p in OFFER_PARAMS]
ACCEPT_HEADERS = [None, None, '*/*', 'text/html', 'application/json', 'application/json, text/html;q=0.5',
                  'text/*;q=0.3, application/json;q=0.7', 'text/html;q=0, */*;q=0.1', 'text/html;level=1',
                  'text/html;level=1;q=0.4, text/html;q=0.9', 'application/x-foo, text/plain;q=0.2',
                  'image/*', 'bogus;;;', 'text/plain;q=0.5, text/html;q=0.5',
                  # exactly one bare type / one type with parameters / wildcards / lists mixing them
                  'text/plain', 'application/x-foo', 'image/x-bar', 'text/html;charset=utf8', 'application/json;charset=utf8',
                  'text/plain;level=1', 'image/x-bar;v=1', 'TEXT/HTML', 'text/html;charset=UTF8', 'text/*', 'application/*',
                  'text/html;charset=utf8, text/html;q=0.5', 'text/html, text/html;charset=utf8;q=0.2',
                  'application/json;charset=utf8;q=0.1, application/json;q=0.9, */*;q=0.01', 'text/html;q=0.5, text/html;level=1;q=0',
                  'image/x-bar;v=1;q=0.3, image/*;q=0.8', 'text/html;level=2']
METHODS = ['GET', 'HEAD', 'POST', 'PUT', 'DELETE']
PARAM_SPECS = ['a', 'b', 'a=1', 'a=2', 'b=1', ' a = 1 ', '=a', '=a=1', 'a=', 'a=1=2', 'é=ü', 'a= ', 'c']
PARAM_KEYS = ['a', 'b', '=a', 'é', 'c', ' a ']
PARAM_VALS = ['1', '2', '', '1=2', 'ü', ' 1 ', ' ']
HEADER_SPECS = ['X-A', 'X-B', 'x-a', 'X_A', 'X-A:1', 'X-A:\\d+', 'X-B:ab', 'X-A: 1', 'X-A:', 'Content-Type', 'Content_Type',
                'Content-Type:text/.*', 'X-A:.*z$', 'X-C']
HEADER_NAMES = ['X-A', 'X-B', 'x-a', 'X-a', 'X-C']
HEADER_VALS = ['1', '12', 'ab', 'abz', ' 1', '', 'x1', 'z']
PATH_PATTERNS = ['/', '/k1', '/k1$', '.*x', '/r1/', '/k1/k2', '^/$', 'k1', '/r[12]/f', '']
MATCH_SPECS = ['mp=foo', 'mp=bar', ' mp = foo ', 'zz=1', 'mp=', 'mp=foo=1']
PHYS = ['/', '/k1', '/k1/k2', 'k1', '/k1/', ['', 'k1'], ['', 'k1', 'k2'], [''], ['k1'], '//k1']


# ------------------------------------------------------------------------------------------------------
# the application described by a case

class _Policy:
    def identity(self, request):
        return None

    def authenticated_userid(self, request):
        return 'u' if request.environ.get('verif.auth') else None

    def permits(self, request, context, permission):
        return Allowed('ok') if request.environ.get('verif.permitted') else Denied('no')

    def remember(self, request, userid, **kw):
        return []

    def forget(self, request, **kw):
        return []


def _mk_custom(i):
    def cp(context, request):
        return i in request.environ.get('verif.custom', ())
    cp.__name__ = 'cp%d' % i
    return cp


CUSTOMS = [_mk_custom(i) for i in range(4)]

# STATEFUL custom predicates (reg['opts']['stateful'] = kind): one function object per registration; every evaluation is
# recorded in request.environ['verif.evals'] and the value depends on how many times THIS predicate was asked before in
# the request:  count = always true;  once = true only the first time it is asked (a one-shot ticket);  alt = false, true,
# false, ...  The lookup asks every candidate's predicates once, in candidate order, and stops at the first candidate
# that holds (Props.C03.lookup_asks_candidate_prefix), so what counts is the value at the FIRST ask.
STATEFUL_KINDS = ('count', 'once', 'alt')
STATEFUL_FIRST = {'count': True, 'once': True, 'alt': False}


def stateful_id(tag):
    return 100 + tag


def mk_stateful(tag, kind):
    def sp(context, request):
        ev = request.environ.setdefault('verif.evals', [])
        n = sum(1 for t in ev if t == tag)
        ev.append(tag)
        return {'count': True, 'once': n == 0, 'alt': n % 2 == 1}[kind]
    sp.__name__ = 'sp_%s_%d' % (kind, tag)
    sp.__text__ = 'stateful %s %d' % (kind, tag)
    return sp


class Node(dict):
    """a resource: traversable (dict of children); `__getitem__` may mark the child it hands out (case['marks'])"""

    def __getitem__(self, key):
        child = dict.__getitem__(self, key)
        hook = self.__dict__.get('_c03_hook')
        if hook is not None:
            hook(child)
        return child


def make_classes(spec):
    """spec: [{'bases': [i…], 'impl': [iface id…]}…] -> list of classes (a class may only name earlier ones)"""
    out = []
    for k, c in enumerate(spec):
        bases = tuple(out[b] for b in c['bases']) or (Node,)
        cls = type('K%d' % k, bases, {})
        for i in c.get('impl', []):
            cls = implementer(IFACES[i])(cls)
        out.append(cls)
    return out


def ctx_spec(classes, ref):
    """a registration's context argument: None | ['c', k] | ['i', n]"""
    if ref is None:
        return None
    return classes[ref[1]] if ref[0] == 'c' else IFACES[ref[1]]


def ctx_id(ref):
    if ref is None:
        return 0
    return 10 + ref[1] if ref[0] == 'c' else ref[1]


class World:
    pass


def pred_kwargs(classes, reg):
    """the keyword arguments add_view gets for this registration's predicates"""
    o = reg['opts']
    notted = set(reg.get('not', []))
    kw = {}

    def put(name, val):
        kw[name] = not_(val) if name in notted else val
    for name in ('xhr', 'path_info', 'is_authenticated'):
        if name in o:
            put(name, o[name])
    for name in ('request_method', 'request_param', 'header', 'match_param'):
        if name in o:
            v = o[name]
            put(name, tuple(v) if isinstance(v, list) else v)
    if 'containment' in o:
        put('containment', ctx_spec(classes, o['containment']))
    if 'physical_path' in o:
        v = o['physical_path']
        put('physical_path', tuple(v) if isinstance(v, list) else v)
    if 'custom' in o:
        kw['custom_predicates'] = tuple(CUSTOMS[i] for i in o['custom'])
    if reg.get('accept') is not None:
        kw['accept'] = reg['accept']
    return kw


def build_app(case):
    w = World()
    w.classes = make_classes(case['classes'])
    # resource chain root -> k1 -> k2
    nodes = []
    parent = None
    named = True
    for depth, nd in enumerate(case['tree']):
        n = w.classes[nd['cls']]()
        named = named and nd.get('named', True)
        if named:
            n.__name__ = None if depth == 0 else 'k%d' % depth
            n.__parent__ = parent
        for i in nd.get('provides', []):
            alsoProvides(n, IFACES[i])
        if parent is not None:
            dict.__setitem__(parent, 'k%d' % depth, n)
        nodes.append(n)
        parent = n
    w.nodes = nodes
    root = nodes[0]
    # what every node provides directly when a request starts (marks made during a request are undone by run_request)
    w.initial_marks = [directlyProvidedBy(n) for n in nodes]
    marks = case.get('marks') or []

    def apply_marks(point, target=None):
        """marks of this point; a mark names the node by depth, or 'ctx' (= the context, at context_found only)"""
        for m in marks:
            if m['at'] != point:
                continue
            if m['node'] == 'ctx':
                node = target
            else:
                node = nodes[m['node']] if m['node'] < len(nodes) else None
                if point == 'traversal' and node is not target:
                    continue
            if node is None:
                continue
            iface = IFACES[m['iface']]
            if m['op'] == 'also':
                alsoProvides(node, iface)
            elif m['op'] == 'nolonger':
                if iface in directlyProvidedBy(node):
                    noLongerProvides(node, iface)
            else:
                directlyProvides(node, iface)
    for n in nodes:
        if any(m['at'] == 'traversal' for m in marks):
            n.__dict__['_c03_hook'] = lambda child: apply_marks('traversal', child)

    def root_factory(request):
        apply_marks('root_factory')
        return root
    auto = case.get('commit', 'auto') == 'auto'
    config = Configurator(root_factory=root_factory, autocommit=auto)
    if marks:
        config.add_subscriber(lambda ev: apply_marks('new_request'), NewRequest)
        config.add_subscriber(lambda ev: apply_marks('before_traversal'), BeforeTraversal)
        config.add_subscriber(lambda ev: apply_marks('context_found', ev.request.context), ContextFound)
    config.set_security_policy(_Policy())
    if not auto:
        config.commit()
    for r in case['routes']:
        config.add_route(r['name'], r['pattern'], use_global_views=r.get('ugv', False))
    if not auto:
        config.commit()
    w.views = {}
    w.stateful = {}
    captured = {}
    for reg in case['regs']:
        tag = reg['tag']

        def view(context, request, tag=tag):
            # the classification of the context re-read at the moment the view body runs (must equal the snapshot
            # taken by the last ContextFound subscriber: nothing the harness registers marks after that)
            captured['csro_at_view'] = [spec_id(w, s_) for s_ in providedBy(context).__sro__]
            resp = Response('V%d' % tag)
            resp.headers['X-Tag'] = 'V%d' % tag
            return resp
        view.__name__ = 'v%d' % tag
        kw = pred_kwargs(w.classes, reg)
        if reg['opts'].get('stateful'):
            fn = w.stateful[tag] = mk_stateful(tag, reg['opts']['stateful'])
            kw['custom_predicates'] = tuple(kw.get('custom_predicates', ())) + (fn,)      # asked last
        config.add_view(view, context=ctx_spec(w.classes, reg['ctx']), name=reg['name'], route_name=reg.get('route'),
                        permission=('p' if reg.get('perm') else None), **kw)
        if not auto:
            config.commit()

    def notfound(request):
        resp = Response('NF')
        resp.headers['X-Tag'] = 'NF:' + type(request.exception).__name__
        return resp

    def forbidden(request):
        resp = Response('FB')
        m = re.search(r'Unauthorized: v(\d+) failed', request.exception.message or '')
        resp.headers['X-Tag'] = 'FB:' + (m.group(1) if m else '?')
        return resp
    if case.get('nf', True):
        config.add_notfound_view(notfound)
    config.add_forbidden_view(forbidden)
    def on_context(event):
        # LAST ContextFound subscriber: the classification the statement's "context type ... following the context's
        # class and interface resolution order" refers to is the one in force when the lookup starts, i.e. after every
        # ContextFound subscriber ran.  Computed here by the harness (zope.interface only), not read from the router.
        ctx = event.request.context
        captured['request'] = event.request
        captured['context'] = ctx
        captured['csro'] = [spec_id(w, s_) for s_ in providedBy(ctx).__sro__]
        captured['lineage'] = lineage_ids(w, ctx)
    config.add_subscriber(on_context, ContextFound)
    if not auto:
        config.commit()
    w.config = config
    w.app = config.make_wsgi_app()
    w.captured = captured
    return w


_APP_CACHE = {}


def get_world(case):
    key = json.dumps({k: case[k] for k in ('classes', 'tree', 'routes', 'regs', 'commit', 'nf', 'marks') if k in case}, sort_keys=True)
    w = _APP_CACHE.get(key)
    if w is None:
        if len(_APP_CACHE) > 64:
            _APP_CACHE.clear()
        w = _APP_CACHE[key] = build_app(case)
    return w


def make_environ(rq):
    from urllib.parse import quote
    body = rq.get('body')
    kw = {}
    if body is not None:
        kw['POST'] = body.encode('utf-8')
    r = Request.blank(rq['path'] + (('?' + rq['qs']) if rq.get('qs') else ''), **kw)
    env = r.environ
    env['REQUEST_METHOD'] = rq['method']
    if body is not None and rq.get('ctype'):
        env['CONTENT_TYPE'] = rq['ctype']
    for k, v in rq.get('headers', []):
        Request(env).headers[k] = v
    if rq.get('accept') is not None:
        env['HTTP_ACCEPT'] = rq['accept']
    if rq.get('xhr') is not None:
        env['HTTP_X_REQUESTED_WITH'] = rq['xhr']
    env['verif.auth'] = bool(rq.get('auth'))
    env['verif.permitted'] = bool(rq.get('permitted', True))
    env['verif.custom'] = tuple(rq.get('custom', []))
    return env


def run_request(w, case):
    """send the request through Router.__call__; returns the canonical outcome"""
    env = make_environ(case['req'])
    w.last_env = env
    w.captured.clear()
    for n, init in zip(w.nodes, w.initial_marks):        # undo what an earlier request's marks left on the instances
        directlyProvides(n, init)
    status_headers = {}

    def start_response(status, headers, exc_info=None):
        status_headers['status'] = status
        status_headers['headers'] = headers
    try:
        body = b''.join(w.app(env, start_response))
    except Exception as e:     # nothing in the C03 generator should end here
        return ['raised', type(e).__name__], env
    tag = dict(status_headers['headers']).get('X-Tag')
    if tag is None:
        return ['status', status_headers['status'][:3]], env
    if tag.startswith('V'):
        return ['response', int(tag[1:])], env
    if tag == 'NF:PredicateMismatch':
        return ['mismatch'], env
    if tag == 'NF:HTTPNotFound':
        return ['none'], env
    if tag.startswith('FB:') and tag[3:].isdigit():
        return ['forbidden', int(tag[3:])], env
    return ['other', tag], env


# ------------------------------------------------------------------------------------------------------
# the model's input, computed from the real objects

def spec_id(w, spec):
    if spec is Interface:
        return 0
    for i, iface in IFACES.items():
        if spec is iface:
            return i
    for k, cls in enumerate(w.classes):
        if spec is implementedBy(cls):
            return 10 + k
    return IFACE_ID_OTHER


def req_iface_id(w, case, iface):
    if iface is IRequest:
        return 0
    if iface is Interface:
        return 50
    q = w.config.registry.queryUtility
    for i, r in enumerate(case['routes']):
        ri = q(IRouteRequest, name=r['name'])
        if iface is ri:
            return 1 + i
        if iface is getattr(ri, 'combined', None):
            return 20 + i
    return 60


def offer_data(w, offer_text, ids):
    order = [v for _, v in w.config.registry.queryUtility(IAcceptOrder).sorted()]
    norm = str(Accept.parse_offer(offer_text))
    parsed = Accept.parse_offer(norm)
    ts = parsed.type + '/' + parsed.subtype
    return {'id': ids.setdefault(norm, len(ids)), 't': order.index(ts) if ts in order else None,
            'p': order.index(norm) if norm in order else None, 'hp': bool(parsed.params), 'text': norm}


def model_regs(w, case, ids):
    """registrations as the model takes them (+ the real (order, phash) of each, from PredicateList.make)"""
    out, real = [], []
    predlist = w.config.get_predlist('view')
    for reg in case['regs']:
        o = reg['opts']
        notted = set(reg.get('not', []))
        preds = []

        def add(name, v):
            preds.append({'n': name, 'not': name in notted, 'v': dict(v, k=v.get('k', name))})
        if 'xhr' in o:
            add('xhr', {'b': bool(o['xhr'])})
        for name in ('request_method', 'request_param', 'header', 'match_param'):
            if name in o:
                v = o[name]
                add(name, {'l': list(v) if isinstance(v, list) else [v]})
        if 'path_info' in o:
            add('path_info', {'s': o['path_info']})
        if 'containment' in o:
            cls = ctx_spec(w.classes, o['containment'])
            add('containment', {'i': ctx_id(o['containment']), 'r': str(cls)})
        if 'physical_path' in o:
            v = o['physical_path']
            from pyramid.predicates import PhysicalPathPredicate
            rep = PhysicalPathPredicate(tuple(v) if isinstance(v, list) else v, None).text()[len('physical_path = '):]
            add('physical_path', {'k': 'pp_seq', 'l': v, 'r': rep} if isinstance(v, list) else {'k': 'pp_str', 's': v, 'r': rep})
        if 'is_authenticated' in o:
            add('is_authenticated', {'b': bool(o['is_authenticated'])})
        for i in o.get('custom', []):
            from pyramid.predicates import CustomPredicate
            preds.append({'n': 'custom', 'not': False, 'v': {'k': 'custom', 'i': i, 'r': CustomPredicate(CUSTOMS[i], None).phash()}})
        if o.get('stateful'):
            from pyramid.predicates import CustomPredicate
            preds.append({'n': 'custom', 'not': False, 'v': {'k': 'custom', 'i': stateful_id(reg['tag']),
                                                            'r': CustomPredicate(w.stateful[reg['tag']], None).phash()}})
        route = reg.get('route')
        rq = 0 if route is None else 1 + [r['name'] for r in case['routes']].index(route)
        out.append({'cls': 0, 'req': rq, 'ctx': ctx_id(reg['ctx']), 'name': reg['name'], 'preds': preds,
                    'accept': offer_data(w, reg['accept'], ids) if reg.get('accept') is not None else None,
                    'sec': bool(reg.get('perm')), 'tag': reg['tag']})
        kw = pred_kwargs(w.classes, reg)
        if o.get('stateful'):
            kw['custom_predicates'] = tuple(kw.get('custom_predicates', ())) + (w.stateful[reg['tag']],)
        if 'custom_predicates' in kw:
            kw['custom'] = predvalseq(kw.pop('custom_predicates'))
        if 'accept' in kw:
            kw['accept'] = str(Accept.parse_offer(kw['accept']))
        order, ps, phash = predlist.make(w.config, **kw)
        real.append([order, phash, len(ps)])
    return out, real


def lineage_ids(w, ctx):
    out = []
    loc = ctx
    while loc is not None:
        ids = set()
        for k, cls in enumerate(w.classes):
            if isinstance(loc, cls):
                ids.add(10 + k)
        for i, iface in IFACES.items():
            if iface.providedBy(loc):
                ids.add(i)
        out.append(sorted(ids))
        loc = getattr(loc, '__parent__', None)
    return out


def phys_path(ctx):
    if not hasattr(ctx, '__name__'):
        return None
    out = []
    loc = ctx
    while loc is not None:
        out.append(loc.__name__ or '')
        loc = getattr(loc, '__parent__', None)
    return list(reversed(out))


def abstract_request(w, case, env, ids, request=None, ctx=None, view_name=None, rsro=None, csro=None):
    """the request record of the model; `request` is the object the router handled (captured at ContextFound)"""
    rq = case['req']
    wr = Request(dict(env))        # WebOb's parse of the same environ (trusted)
    patterns = set()
    hdr_specs = set()
    for reg in case['regs']:
        o = reg['opts']
        if 'path_info' in o:
            patterns.add(('p', o['path_info']))
        if 'header' in o:
            for h in (o['header'] if isinstance(o['header'], list) else [o['header']]):
                if ':' in h:
                    name, rx = h.split(':', 1)
                    hdr_specs.add((name, rx))
    table = []
    for _, p in sorted(patterns):
        table.append([p, wr.upath_info, re.compile(p).match(wr.upath_info) is not None])
    for name, rx in sorted(hdr_specs):
        val = wr.headers.get(name)
        if val is not None:
            table.append([rx, val, re.compile(rx).match(val) is not None])
    accq = []
    for text, oid in sorted(ids.items(), key=lambda kv: kv[1]):
        got = wr.accept.acceptable_offers([text])
        accq.append([oid, int(round(got[0][1] * 1000)) if got else 0])
    envl = sorted([k, v] for k, v in env.items() if isinstance(v, str) and (k.startswith('HTTP_') or k in ('CONTENT_TYPE', 'CONTENT_LENGTH')))
    md = getattr(request, 'matchdict', None) if request is not None else None
    if md is not None:
        md = [[k, v if isinstance(v, str) else '<%s>' % type(v).__name__] for k, v in md.items()]
    return {'method': wr.method, 'get': [[k, v] for k, v in wr.GET.items()], 'post': [[k, v] for k, v in wr.POST.items()],
            'env': envl, 'path': wr.upath_info, 'md': md, 'auth': bool(rq.get('auth')),
            'custom': list(rq.get('custom', [])) + [stateful_id(r_['tag']) for r_ in case['regs'] if STATEFUL_FIRST.get(r_['opts'].get('stateful'))],
            're': table, 'accq': accq, 'lineage': lineage_ids(w, ctx), 'phys': phys_path(ctx),
            'permitted': bool(rq.get('permitted', True)), 'rsro': rsro, 'csro': csro, 'vn': view_name}


def evaluate(case):
    """impl outcome + the model's input for this case (None when the request never reached view lookup)"""
    w = get_world(case)
    out, env = run_request(w, case)
    request = w.captured.get('request')
    if request is None:
        return w, out, None, None
    ids = {}
    regs, real = model_regs(w, case, ids)
    ctx = w.captured.get('context')      # Router.finish_request pops request.context; captured at ContextFound
    rsro = [req_iface_id(w, case, i) for i in request.request_iface.__sro__]
    csro = w.captured['csro']                          # snapshot of the last ContextFound subscriber
    at_view = w.captured.get('csro_at_view')
    if at_view is not None and at_view != csro:
        raise AssertionError('harness: context classification changed between the last ContextFound subscriber and the view body')
    areq = abstract_request(w, case, env, ids, request, ctx, request.view_name, rsro, csro)
    areq['lineage'] = w.captured['lineage']            # containment is evaluated against the lineage of that moment too
    return w, out, {'regs': regs, 'req': areq, 'cls': 0}, real


# ------------------------------------------------------------------------------------------------------
# the property, stated directly (independent of the Lean model and of its driver)

def _strip(s):
    return s.strip()


def doc_pred(name, val, notted, ctxinfo):
    """documented truth condition of one built-in predicate on the real request/context"""
    wr, ctx, md, case = ctxinfo
    if name == 'xhr':
        r = (wr.headers.get('X-Requested-With') == 'XMLHttpRequest') == bool(val)
    elif name == 'request_method':
        vals = set(val if isinstance(val, list) else [val])
        r = wr.method in vals or (wr.method == 'HEAD' and 'GET' in vals)
    elif name == 'path_info':
        r = re.match(val, wr.upath_info) is not None
    elif name == 'request_param':
        r = True
        for p in (val if isinstance(val, list) else [val]):
            body = p[1:] if p.startswith('=') else p
            if '=' in body:
                k, v = body.split('=', 1)
                k = ('=' + k if p.startswith('=') else k).strip()
                if wr.params.get(k) != v.strip() or k not in wr.params:
                    r = False
            elif p not in wr.params:
                r = False
    elif name == 'header':
        r = True
        for h in (val if isinstance(val, list) else [val]):
            if ':' in h:
                n, rx = h.split(':', 1)
                if n not in wr.headers or re.match(rx, wr.headers[n]) is None:
                    r = False
            elif h not in wr.headers:
                r = False
    elif name == 'match_param':
        r = bool(md)
        for p in (val if isinstance(val, list) else [val]):
            k, v = p.split('=', 1)
            if not md or md.get(k.strip()) != v.strip():
                r = False
    elif name == 'containment':
        r = False
        loc = ctx
        target = val
        while loc is not None:
            if (target.providedBy(loc) if isinstance(target, InterfaceClass) else isinstance(loc, target)):
                r = True
            loc = getattr(loc, '__parent__', None)
    elif name == 'physical_path':
        want = tuple(val) if isinstance(val, list) else ('',) + tuple(s for s in val.split('/') if s)
        pp = phys_path(ctx)
        r = pp is not None and tuple(pp) == want
    elif name == 'is_authenticated':
        r = bool(case['req'].get('auth')) == bool(val)
    elif name == 'accept':
        r = bool(wr.accept.acceptable_offers([val]))
    else:
        raise ValueError(name)
    return (not r) if notted else r


def reg_holds(w, reg, ctxinfo):
    o = reg['opts']
    notted = set(reg.get('not', []))
    case = ctxinfo[3]
    for name, val in o.items():
        if name == 'custom':
            if not all(i in case['req'].get('custom', []) for i in val):
                return False
        elif name == 'stateful':
            # the lookup asks a candidate's predicates once: the value at the first ask decides
            if not STATEFUL_FIRST[val]:
                return False
        elif name == 'containment':
            if not doc_pred(name, ctx_spec(w.classes, val), name in notted, ctxinfo):
                return False
        elif not doc_pred(name, val, name in notted, ctxinfo):
            return False
    if reg.get('accept') is not None and not doc_pred('accept', reg['accept'], False, ctxinfo):
        return False
    return True


def npreds(reg):
    o = reg['opts']
    return sum(1 for k in o if k != 'custom') + len(o.get('custom', [])) + (1 if reg.get('accept') is not None else 0)


def oracle(w, case, out, minfo, real):
    """returns (violation dict | None, stats).  The property (statement of C03):
    the view that runs is a registered view in force (same slot and same predicates: the later replaces the
    earlier) whose name is the view name, whose slot lies on the request/context resolution orders, whose
    predicates all hold, and no other such view is strictly earlier in the order (request-interface rank,
    context rank, within one slot more predicates first); if none qualifies, the Not Found view runs."""
    areq = minfo['req']
    env = make_environ(case['req'])
    wr = Request(env)
    request = w.captured.get('request')
    ctx = w.captured.get('context')
    ctxinfo = (wr, ctx, getattr(request, 'matchdict', None), case)
    rsro, csro = areq['rsro'], areq['csro']
    routes = [r['name'] for r in case['routes']]
    # registrations in force: last of each (slot, real phash)
    last = {}
    for i, reg in enumerate(case['regs']):
        rq = 0 if reg.get('route') is None else 1 + routes.index(reg['route'])
        slot = (rq, ctx_id(reg['ctx']), reg['name'])
        last[(slot, real[i][1])] = i
    cands = []
    for (slot, _), i in last.items():
        reg = case['regs'][i]
        if slot[2] != areq['vn'] or slot[0] not in rsro or slot[1] not in csro:
            continue
        cands.append({'i': i, 'tag': reg['tag'], 'slot': slot, 'rank': (rsro.index(slot[0]), csro.index(slot[1])),
                      'np': npreds(reg), 'holds': reg_holds(w, reg, ctxinfo), 'perm': bool(reg.get('perm')),
                      'accept': reg.get('accept')})
    qual = [c for c in cands if c['holds']]

    def before(a, b):
        return a['rank'] < b['rank'] or (a['slot'] == b['slot'] and a['np'] > b['np'])
    minimal = [c for c in qual if not any(before(d, c) for d in qual)]
    stats = {'cands': len(cands), 'qual': len(qual), 'minimal': len(minimal)}
    exp = {'allowed_winners': sorted(c['tag'] for c in minimal), 'qualifying': sorted(c['tag'] for c in qual)}
    viol = None
    if out[0] in ('response', 'forbidden'):
        win = [c for c in cands if c['tag'] == out[1]]
        permitted = bool(case['req'].get('permitted', True))
        if not win:
            # the view that ran is not in force / not a candidate at all
            viol = {'detail': 'a view ran that is not a candidate in force for this request'}
            old = [r for r in case['regs'] if r['tag'] == out[1]]
            if old:
                routes_ = 0 if old[0].get('route') is None else 1 + routes.index(old[0]['route'])
                slot = (routes_, ctx_id(old[0]['ctx']), old[0]['name'])
                i0 = case['regs'].index(old[0])
                later = [j for j, r in enumerate(case['regs']) if j > i0 and real[j][1] == real[i0][1]
                         and (0 if r.get('route') is None else 1 + routes.index(r['route']), ctx_id(r['ctx']), r['name']) == slot]
                if later and any(bool(case['regs'][j].get('perm')) != bool(old[0].get('perm')) for j in later + [i0]):
                    # Not a C03 violation: the statement orders registrations, it does not define overriding.  Two
                    # registrations of one slot with the same predicates that differ in protectedness are kept side by
                    # side by register_view (IView beside ISecuredView); the statement ranks them equal, so either may
                    # answer as long as its predicates hold.  (Was recorded as F-C03b; withdrawn as a false alarm of
                    # the oracle, see DESIGN.md §8.)  The model reproduces the code here (correspondence still compared).
                    viol = None
                    stats['override_tie'] = 1
                    if not reg_holds(w, old[0], ctxinfo):
                        viol = {'detail': 'a view ran although one of its predicates is false'}
        elif not win[0]['holds']:
            viol = {'detail': 'a view ran although one of its predicates is false'}
        elif win[0] not in minimal:
            viol = {'detail': 'a qualifying view that the statement orders earlier was passed over'}
            better = [d for d in qual if before(d, win[0])]
            if win[0]['accept'] is not None and all(d['slot'] == win[0]['slot'] and d['rank'] == win[0]['rank'] for d in better):
                viol['finding'] = 'F-C03a'
                viol['detail'] = ('accept negotiation outranks predicate count: a view with accept= ran before a view of the '
                                  'same slot with more predicates')
        elif (out[0] == 'forbidden') != (win[0]['perm'] and not permitted):
            viol = {'detail': 'refusal does not match the protectedness of the view and the policy verdict'}
    elif out[0] in ('mismatch', 'none'):
        if qual:
            viol = {'detail': 'Not Found although a registered view qualifies'}
        elif case.get('nf', True) is False:
            pass
        if not viol and (out[0] == 'none') != (len([1 for (slot, _) in last if slot[2] == areq['vn'] and slot[0] in rsro and slot[1] in csro]) == 0):
            viol = {'detail': 'HTTPNotFound vs PredicateMismatch does not reflect whether anything was registered'}
    else:
        viol = {'detail': 'unexpected outcome %r' % (out,)}
    if viol:
        viol.update({'case': case, 'impl': out, 'expected': exp})
    return viol, stats


# ------------------------------------------------------------------------------------------------------
# generator

def gen_classes(rng):
    n = rng.choice([2, 3, 3, 4, 4, 5])
    spec = []
    for k in range(n):
        for _ in range(8):
            nb = 0 if k == 0 else rng.choice([0, 1, 1, 1, 2] if k >= 2 else [0, 1, 1])
            bases = rng.sample(range(k), min(nb, k)) if nb else []
            impl = [i for i in (1, 2) if rng.random() < 0.25]
            cand = spec + [{'bases': bases, 'impl': impl}]
            try:
                make_classes(cand)
            except TypeError:
                continue
            spec = cand
            break
        else:
            spec.append({'bases': [], 'impl': []})
    return spec


def gen_ctx_ref(rng, nclasses, p_none=0.3, rel=None, ifaces=(1, 2), p_iface=0.15):
    r = rng.random()
    if r < p_none:
        return None
    if r < p_none + p_iface:
        return ['i', rng.choice(list(ifaces))]
    if rel and rng.random() < 0.8:
        return ['c', rng.choice(rel)]
    return ['c', rng.randrange(nclasses)]


def related_classes(classes, tree):
    """indices of the classes of the tree's nodes and of their ancestors (the ones a lookup can reach)"""
    out, todo = set(), [nd['cls'] for nd in tree]
    while todo:
        k = todo.pop()
        if k not in out:
            out.add(k)
            todo.extend(classes[k]['bases'])
    return sorted(out)


def gen_opts(rng, nclasses, routes, offers, rich, rel=None, p_accept=0.3):
    o, notted = {}, []
    k = rng.choice([0, 0, 1, 1, 1, 2, 2, 3] + ([4, 5] if rich else []))
    names = rng.sample(['xhr', 'request_method', 'path_info', 'request_param', 'header', 'containment', 'match_param',
                        'physical_path', 'is_authenticated', 'custom'], k)
    for name in names:
        if name == 'xhr':
            o[name] = rng.random() < 0.6
        elif name == 'request_method':
            r = rng.random()
            o[name] = rng.choice(METHODS) if r < 0.5 else rng.sample(METHODS, rng.choice([1, 2, 2, 3]))
        elif name == 'path_info':
            o[name] = rng.choice(PATH_PATTERNS)
        elif name == 'request_param':
            o[name] = rng.choice(PARAM_SPECS) if rng.random() < 0.6 else rng.sample(PARAM_SPECS, 2)
        elif name == 'header':
            o[name] = rng.choice(HEADER_SPECS) if rng.random() < 0.65 else rng.sample(HEADER_SPECS, 2)
        elif name == 'containment':
            o[name] = gen_ctx_ref(rng, nclasses, 0.0, rel)
        elif name == 'match_param':
            o[name] = rng.choice(MATCH_SPECS) if rng.random() < 0.7 else rng.sample(MATCH_SPECS, 2)
        elif name == 'physical_path':
            o[name] = rng.choice(PHYS)
        elif name == 'is_authenticated':
            o[name] = rng.random() < 0.5
        elif name == 'custom':
            o[name] = rng.sample(range(4), rng.choice([1, 1, 2]))
        if name != 'custom' and rng.random() < 0.15:
            notted.append(name)
    accept = rng.choice(offers) if offers and rng.random() < p_accept else None
    return o, notted, accept


# index of the media types of OFFER_BASES in the default accept-order list (add_default_accept_view_order:
# text/html, application/xhtml+xml, application/xml, text/xml, text/plain, application/json); the others are not in it
ORDERED_TYPES = {'text/html': 0, 'text/plain': 4, 'application/json': 5}


def offer_sort_key(offer, n):
    """`sort_accept_offers`' key of a pool offer when the slot holds n distinct offers (max_weight = n): a type that is
    not in the order list weighs n, a parametrised offer (never in the list) n, a bare one n + 1"""
    base = offer.split(';')[0]
    return (ORDERED_TYPES.get(base, n), n if ';' in offer else n + 1)


def distinct_offer_keys(offers):
    """keep the offers whose `sort_accept_offers` key cannot collide with one already kept, WHATEVER the number n of
    distinct offers a slot ends up with (1..len).  Two offers with the SAME key are ordered by the iteration order of a
    Python set of strings, i.e. by PYTHONHASHSEED: not a function of the registrations, so neither the model nor the
    statement says which bucket comes first (see notes/C03.md, "equal offer keys").  Collisions: two parametrised twins
    of one type; two types that are both missing from the order list; and a LISTED type whose index equals n together
    with an unlisted type (text/plain, index 4, in a slot of 4 offers; application/json, index 5, in a slot of 5)."""
    out = []
    for o in offers:
        cand = out + [o]
        if all(len({offer_sort_key(x, n) for x in cand}) == len(cand) for n in range(1, len(offers) + 1)):
            out.append(o)
    return out


def gen_app(rng, big=False):
    classes = gen_classes(rng)
    n = len(classes)
    depth = rng.choice([1, 2, 2, 3, 3])
    unnamed_from = rng.choice([9, 9, 9, 9, 0, 1, 2])
    tree = [{'cls': rng.randrange(n), 'named': d < unnamed_from, 'provides': [i for i in (1, 2) if rng.random() < 0.12]}
            for d in range(depth)]
    routes = []
    nr = rng.choice([0, 0, 1, 1, 2])
    if nr >= 1:
        routes.append({'name': 'r1', 'pattern': '/r1/{mp}*traverse', 'ugv': rng.random() < 0.5})
    if nr >= 2:
        routes.append({'name': 'r2', 'pattern': '/r2/{mp}', 'ugv': rng.random() < 0.5})
    offers = distinct_offer_keys(rng.sample(OFFERS, rng.choice([0, 1, 2, 3, 4])))
    p_accept = 0.3
    if rng.random() < 0.35:
        # a media-type FAMILY: a bare type with one of its parametrised twins (+ sometimes another type and its twin),
        # and many accept views, so that several accept views share a slot
        base = rng.choice(OFFER_BASES)
        offers = [base, base + rng.choice(OFFER_PARAMS)]
        if rng.random() < 0.5:
            other = rng.choice([b for b in OFFER_BASES if b != base])
            offers += [other] + ([other + rng.choice(OFFER_PARAMS)] if rng.random() < 0.5 else [])
        rng.shuffle(offers)
        offers = distinct_offer_keys(offers)
        p_accept = 0.65
    nregs = rng.choice([2, 3, 4, 5, 6, 8] if not big else [6, 8, 10, 12, 14])
    regs = []
    # run-time marking (30 % of the apps): marker interfaces put on / taken off resource instances by the root factory, by
    # __getitem__ during traversal, by NewRequest / BeforeTraversal / ContextFound subscribers; the views then compete on
    # the marker interfaces as well
    marks = []
    ifaces, p_iface = (1, 2), 0.15
    if rng.random() < 0.3:
        for _ in range(rng.choice([1, 1, 2, 3])):
            at = rng.choice(MARK_POINTS + ('context_found', 'context_found'))
            marks.append({'at': at, 'node': 'ctx' if at == 'context_found' and rng.random() < 0.7 else rng.randrange(depth),
                          'op': rng.choice(['also', 'also', 'also', 'nolonger', 'directly']), 'iface': rng.choice([1, 2, 3, 3])})
        ifaces, p_iface = (1, 2, 3, 3), 0.4
    # a few "focus" slots so that views really compete
    rel = related_classes(classes, tree)
    focus = [(gen_ctx_ref(rng, n, 0.25, rel, ifaces, p_iface), rng.choice(['', '', 'x']), rng.choice([None, None] + [r['name'] for r in routes]))
             for _ in range(rng.choice([1, 2, 2, 3]))]
    rich = rng.random() < 0.3
    stateful_app = rng.random() < 0.25        # views with stateful custom predicates (one-shot / counting / alternating)
    for t in range(nregs):
        if rng.random() < 0.7:
            ctx, name, route = rng.choice(focus)
        else:
            ctx, name, route = gen_ctx_ref(rng, n, 0.3, rel, ifaces, p_iface), rng.choice(['', '', 'x']), rng.choice([None, None] + [r['name'] for r in routes])
        if regs and rng.random() < 0.12:
            # deliberate re-registration with the same predicates (override)
            src = rng.choice(regs)
            reg = json.loads(json.dumps(src))
            reg['tag'] = t + 1
            if rng.random() < 0.25:
                reg['perm'] = not reg.get('perm', False)
            regs.append(reg)
            continue
        o, notted, accept = gen_opts(rng, n, routes, offers, rich, rel, p_accept)
        if stateful_app and rng.random() < 0.5:
            o['stateful'] = rng.choice(['once', 'once', 'count', 'alt'])
        regs.append({'ctx': ctx, 'name': name, 'route': route, 'opts': o, 'not': notted, 'accept': accept,
                     'perm': rng.random() < 0.15, 'tag': t + 1})
    app = {'classes': classes, 'tree': tree, 'routes': routes, 'regs': regs,
           'commit': rng.choice(['auto', 'auto', 'each']), 'nf': True}
    if marks:
        app['marks'] = marks
    return app


def gen_request(rng, app):
    depth = len(app['tree'])
    segs = ['k%d' % d for d in range(1, depth)]
    upto = rng.randrange(depth)
    path = '/' + '/'.join(segs[:upto])
    r = rng.random()
    if r < 0.35:
        path = path.rstrip('/') + '/x'
    elif r < 0.42:
        path = path.rstrip('/') + '/nosuch'
    if app['routes'] and rng.random() < 0.5:
        rt = rng.choice(app['routes'])
        mp = rng.choice(['foo', 'bar', 'foo=1', ''][:3])
        path = ('/r1/%s' % mp + (path if path != '/' else '')) if rt['name'] == 'r1' else '/r2/%s' % mp
    qs = '&'.join('%s=%s' % (_q(rng.choice(PARAM_KEYS)), _q(rng.choice(PARAM_VALS))) for _ in range(rng.choice([0, 0, 1, 1, 2, 3])))
    method = rng.choice(['GET', 'GET', 'HEAD', 'POST', 'POST', 'PUT', 'DELETE'])
    body = ctype = None
    if rng.random() < 0.3:
        body = '&'.join('%s=%s' % (_q(rng.choice(PARAM_KEYS)), _q(rng.choice(PARAM_VALS))) for _ in range(rng.choice([1, 2])))
        ctype = rng.choice(['application/x-www-form-urlencoded'] * 3 + ['text/plain'])
    headers = []
    for _ in range(rng.choice([0, 0, 1, 1, 2])):
        headers.append([rng.choice(HEADER_NAMES), rng.choice(HEADER_VALS)])
    if rng.random() < 0.1:
        headers.append(['Content-Type', rng.choice(['text/plain', 'application/json'])])
    return {'path': path, 'method': method, 'qs': qs, 'body': body, 'ctype': ctype, 'headers': headers,
            'accept': rng.choice(ACCEPT_HEADERS), 'xhr': rng.choice([None, None, 'XMLHttpRequest', 'XMLHttpRequest', 'xmlhttprequest']),
            'auth': rng.random() < 0.5, 'permitted': rng.random() < 0.8, 'custom': [i for i in range(4) if rng.random() < 0.5]}


def _q(s):
    from urllib.parse import quote
    return quote(s, safe='')


def targeted_request(rng, app):
    """a request built to satisfy the predicates of one registration (so that deep predicate sets are reached)"""
    rq = gen_request(rng, app)
    reg = rng.choice(app['regs'])
    o = reg['opts']
    notted = set(reg.get('not', []))
    depth = len(app['tree'])
    if 'request_method' in o and 'request_method' not in notted:
        v = o['request_method']
        rq['method'] = rng.choice(v if isinstance(v, list) else [v])
    if 'xhr' in o:
        rq['xhr'] = 'XMLHttpRequest' if (o['xhr'] != ('xhr' in notted)) else None
    if 'request_param' in o and 'request_param' not in notted:
        parts = []
        for p in (o['request_param'] if isinstance(o['request_param'], list) else [o['request_param']]):
            b = p[1:] if p.startswith('=') else p
            if '=' in b:
                k, v = b.split('=', 1)
                k = ('=' + k) if p.startswith('=') else k
                parts.append('%s=%s' % (_q(k.strip()), _q(v.strip())))
            else:
                parts.append('%s=%s' % (_q(p), _q(rng.choice(PARAM_VALS))))
        rq['qs'] = '&'.join(parts + ([rq['qs']] if rq['qs'] and rng.random() < 0.3 else []))
    if 'header' in o and 'header' not in notted:
        for h in (o['header'] if isinstance(o['header'], list) else [o['header']]):
            n = h.split(':', 1)[0]
            rq['headers'].append([n, rng.choice(HEADER_VALS)])
    if 'is_authenticated' in o:
        rq['auth'] = bool(o['is_authenticated']) != ('is_authenticated' in notted)
    if 'custom' in o:
        rq['custom'] = sorted(set(rq['custom']) | set(o['custom']))
    if reg.get('accept'):
        rq['accept'] = rng.choice([reg['accept'], '*/*', None, reg['accept'] + ';q=0.5, */*;q=0.1'])
    if 'physical_path' in o and rng.random() < 0.7:
        v = o['physical_path']
        segs = [s for s in (v if isinstance(v, list) else v.split('/')) if s]
        if all(s in ['k%d' % d for d in range(1, depth)] for s in segs):
            rq['path'] = '/' + '/'.join(segs) + rng.choice(['', '', '/x'])
    if reg['ctx'] is not None and reg['ctx'][0] == 'c' and not rq['path'].startswith('/r') and rng.random() < 0.7:
        # walk to a node whose class is (a subclass of) the registration's context
        def anc(k):
            out, todo = set(), [k]
            while todo:
                j = todo.pop()
                if j not in out:
                    out.add(j); todo.extend(app['classes'][j]['bases'])
            return out
        ds = [d for d, nd in enumerate(app['tree']) if reg['ctx'][1] in anc(nd['cls'])]
        if ds:
            d = rng.choice(ds)
            rq['path'] = '/' + '/'.join('k%d' % i for i in range(1, d + 1))
    if reg['name'] == '' and rq['path'].endswith('/x') and rng.random() < 0.8:
        rq['path'] = rq['path'][:-2] or '/'
    if reg.get('route') and rng.random() < 0.8:
        rest = rq['path'] if not rq['path'].startswith('/r') else ''
        rq['path'] = ('/r1/foo' + (rest if rest != '/' else '')) if reg['route'] == 'r1' else '/r2/foo'
    elif reg['name'] == 'x' and not rq['path'].endswith('/x') and not rq['path'].startswith('/r2'):
        rq['path'] = rq['path'].rstrip('/') + '/x'
    return rq


# ------------------------------------------------------------------------------------------------------
# "count race": two views in ONE slot whose predicates all hold for one fixed request, one with k predicates (often
# from the heavy end of the default predicate order, e.g. custom), the other with k+1 (often from the light end).
# The statement demands the one with more predicates; this family exercises the order arithmetic of
# PredicateList.make (weights, score, division) far from the values the random populations reach.
RACE_VALUES = [('xhr', False), ('request_method', 'GET'), ('path_info', '^/$'), ('request_param', 'a=1'),
               ('header', 'X-A:1'), ('physical_path', '/'), ('is_authenticated', True), ('custom', [0])]
RACE_REQ = {'path': '/', 'method': 'GET', 'qs': 'a=1', 'body': None, 'ctype': None, 'headers': [['X-A', '1']], 'accept': None,
            'xhr': None, 'auth': True, 'permitted': True, 'custom': [0, 1, 2, 3]}
RACE_CLASSES = [{'bases': [], 'impl': []}]
RACE_TREE = [{'cls': 0, 'named': True, 'provides': []}]


def race_case(names_a, names_b, swap=False, extra_custom=0):
    d = dict(RACE_VALUES)

    def mk(names, tag):
        o = {k: (list(d[k]) if isinstance(d[k], list) else d[k]) for k in names}
        if 'custom' in o and extra_custom and tag == 1:
            o['custom'] = list(range(1 + extra_custom))
        return {'ctx': None, 'name': '', 'route': None, 'opts': o, 'not': [], 'accept': None, 'perm': False, 'tag': tag}
    regs = [mk(names_a, 1), mk(names_b, 2)]
    if swap:
        regs.reverse()
    return {'classes': RACE_CLASSES, 'tree': RACE_TREE, 'routes': [], 'regs': regs, 'commit': 'auto', 'nf': True,
            'req': json.loads(json.dumps(RACE_REQ))}


def race_pairs(max_k):
    names = [k for k, _ in RACE_VALUES]
    for k in range(1, max_k + 1):
        for a in itertools.combinations(names, k):
            for b in itertools.combinations(names, k + 1):
                yield a, b


def gen_race_cases(rng, n):
    names = [k for k, _ in RACE_VALUES]
    for _ in range(n):
        k = rng.choice([1, 1, 2, 2, 2, 3, 3, 4])
        # heavy-biased small set against light-biased larger set (half of the time), uniform otherwise
        if rng.random() < 0.5:
            a = sorted(rng.sample(names[-(k + 2):], k), key=names.index)
            b = sorted(rng.sample(names[:k + 3], k + 1), key=names.index)
        else:
            a = sorted(rng.sample(names, k), key=names.index)
            b = sorted(rng.sample(names, k + 1), key=names.index)
        yield race_case(a, b, swap=rng.random() < 0.5, extra_custom=rng.choice([0, 0, 1, 2]))


# ------------------------------------------------------------------------------------------------------
# "accept family": ONE slot holding 2-3 views with accept= over {text/html, text/html;charset=utf8, application/json},
# each with no further predicate, one that holds (xhr) or one that fails (request_method=POST) for the fixed request,
# in every registration order, against 8 Accept headers (exactly the bare type, the parametrised type, another type,
# wildcards, lists with q-values, none).  Which bucket MultiView.get_views tries first, and that no acceptable bucket is
# dropped, shows in the outcome: a failing bare view must fall through to the holding parametrised one, etc.
FAMILY_OFFERS = ['text/html', 'text/html;charset=utf8', 'application/json']
FAMILY_OPTS = [{}, {'xhr': True}, {'request_method': 'POST'}]
FAMILY_ACCEPTS = ['text/html', 'text/html;charset=utf8', 'application/json', '*/*', 'text/*;q=0.5, application/json',
                  'text/html;q=0.2, text/html;charset=utf8;q=0.9', 'application/json;q=0, text/html', None]


def family_case(views, accept, plain=None):
    regs = [{'ctx': None, 'name': '', 'route': None, 'opts': dict(o), 'not': [], 'accept': a, 'perm': False, 'tag': t + 1}
            for t, (a, o) in enumerate(views)]
    if plain is not None:
        regs.append({'ctx': None, 'name': '', 'route': None, 'opts': dict(plain), 'not': [], 'accept': None, 'perm': False,
                     'tag': len(regs) + 1})
    return {'classes': RACE_CLASSES, 'tree': RACE_TREE, 'routes': [], 'regs': regs, 'commit': 'auto', 'nf': True,
            'req': {'path': '/', 'method': 'GET', 'qs': '', 'body': None, 'ctype': None, 'headers': [], 'accept': accept,
                    'xhr': 'XMLHttpRequest', 'auth': False, 'permitted': True, 'custom': []}}


def family_cases(nviews):
    kinds = [(a, o) for a in FAMILY_OFFERS for o in FAMILY_OPTS]
    for views in itertools.permutations(kinds, nviews):          # every registration order
        if len({a for a, _ in views}) < 2:
            continue                                             # at least two different offers in the slot
        for acc in FAMILY_ACCEPTS:
            yield family_case(views, acc)


# ------------------------------------------------------------------------------------------------------
# "marking family": a class view, a marker-interface view, or both (either registration order) for one context, and the
# point at which the context instance gets the marker: never / class-level @implementer / on the instance when the tree is
# built / root factory / __getitem__ during traversal / NewRequest / BeforeTraversal / ContextFound subscriber; context = the
# root or its child.  The interface view is more specific for a marked instance (an instance's directly provided
# interfaces come first in its resolution order), so it must win whenever the marker is there when the lookup starts.
MARKING_POINTS = ('never', 'class', 'instance') + MARK_POINTS


def marking_case(views, point, child, extra_pred=False):
    depth = 1 if child else 0
    classes = [{'bases': [], 'impl': []}, {'bases': [], 'impl': [3] if point == 'class' else []}]
    tree = [{'cls': 0, 'named': True, 'provides': []}, {'cls': 1, 'named': True, 'provides': []}]
    if not child:
        tree = [{'cls': 1, 'named': True, 'provides': []}]
    if point == 'instance':
        tree[depth]['provides'] = [3]
    regs = []
    for t, v in enumerate(views):
        ctx = ['c', 1] if v == 'class' else ['i', 3]
        regs.append({'ctx': ctx, 'name': '', 'route': None, 'opts': ({'request_method': 'GET'} if extra_pred and v == 'class' else {}),
                     'not': [], 'accept': None, 'perm': False, 'tag': t + 1})
    case = {'classes': classes, 'tree': tree, 'routes': [], 'regs': regs, 'commit': 'auto', 'nf': True,
            'req': {'path': '/k1' if child else '/', 'method': 'GET', 'qs': '', 'body': None, 'ctype': None, 'headers': [],
                    'accept': None, 'xhr': None, 'auth': False, 'permitted': True, 'custom': []}}
    if point in MARK_POINTS:
        node = 'ctx' if point == 'context_found' else depth
        if point == 'traversal' and not child:
            node = 0            # the root is never handed out by a __getitem__: the mark does not happen (like "never")
        case['marks'] = [{'at': point, 'node': node, 'op': 'also', 'iface': 3}]
    return case


def marking_cases():
    for views in (['class'], ['iface'], ['class', 'iface'], ['iface', 'class']):
        for point in MARKING_POINTS:
            for child in (False, True):
                for extra in ((False, True) if 'class' in views else (False,)):
                    yield marking_case(views, point, child, extra)


# ------------------------------------------------------------------------------------------------------
# "stateful family": ONE slot (so a MultiView) with 2-3 views out of: one-shot ticket; one-shot ticket + a holding
# predicate; one-shot ticket + a failing predicate; counting; alternating (false at the first ask); no predicate - in every
# registration order; and the same with the views spread over a subclass slot and its base-class slot.
STATEFUL_VIEWS = [{'stateful': 'once'}, {'stateful': 'once', 'xhr': True}, {'stateful': 'once', 'request_method': 'POST'},
                  {'stateful': 'count'}, {'stateful': 'alt'}, {}]


def stateful_case(views, spread=False):
    classes = [{'bases': [], 'impl': []}, {'bases': [0], 'impl': []}]
    regs = [{'ctx': (['c', 1 - (t % 2)] if spread else ['c', 1]), 'name': '', 'route': None, 'opts': dict(o), 'not': [],
             'accept': None, 'perm': False, 'tag': t + 1} for t, o in enumerate(views)]
    return {'classes': classes, 'tree': [{'cls': 1, 'named': True, 'provides': []}], 'routes': [], 'regs': regs,
            'commit': 'auto', 'nf': True,
            'req': {'path': '/', 'method': 'GET', 'qs': '', 'body': None, 'ctype': None, 'headers': [], 'accept': None,
                    'xhr': 'XMLHttpRequest', 'auth': False, 'permitted': True, 'custom': []}}


def stateful_cases():
    for nv in (2, 3):
        for views in itertools.permutations(STATEFUL_VIEWS, nv):
            if not any(v.get('stateful') for v in views):
                continue
            yield stateful_case(views)
            if nv == 2:
                yield stateful_case(views, spread=True)


def gen_cases(rng, napps, nreq, big=False):
    for _ in range(napps):
        app = gen_app(rng, big=big)
        for j in range(nreq):
            rq = targeted_request(rng, app) if j % 2 else gen_request(rng, app)
            yield dict(app, req=rq)


# ------------------------------------------------------------------------------------------------------
# checking one case

def canon_model_out(mo):
    return mo.get('out') if isinstance(mo, dict) else None


def check_case(ctx, case, want_model=True):
    """-> dict(out, minfo, real, viol, stats); model comparison is done in batch by the caller"""
    w, out, minfo, real = evaluate(case)
    if minfo is None:
        return {'out': out, 'minfo': None, 'real': None, 'viol': {'case': case, 'impl': out, 'expected': 'request reaches view lookup',
                                                                    'detail': 'request did not reach ContextFound'}, 'stats': {}}
    viol, stats = oracle(w, case, out, minfo, real)
    return {'out': out, 'minfo': minfo, 'real': real, 'viol': viol, 'stats': stats,
            'evals': list(w.last_env.get('verif.evals', []))}


def compare_model(case, res, mo):
    """correspondence: impl outcome == model outcome; real (order, phash, #preds) == model's; model == its spec when coherent"""
    if mo is None or res['minfo'] is None:
        return None
    problems = []
    if 'error' in mo:
        return {'case': case, 'impl': res['out'], 'model': mo}
    if mo.get('out') != res['out']:
        problems.append('outcome')
    for i, (d, r) in enumerate(zip(mo.get('derived', []), res['real'])):
        try:
            ph = hashlib.sha256(d[1].encode('latin-1')).hexdigest()
        except UnicodeEncodeError:
            ph = None
        if d[0] != r[0] or ph != r[1] or d[2] != r[2]:
            problems.append('derived[%d] model=(%s,%s…,%s) real=(%s,%s…,%s)' % (i, d[0], (ph or '?')[:8], d[2], r[0], r[1][:8], r[2]))
    # evaluation trace of the stateful predicates: every view asked at most once, in the order in which the model's
    # lookup asks the candidates, nothing after the view that ran, and the view that ran asked exactly once
    ev = res.get('evals') or []
    if ev or any(r_['opts'].get('stateful') for r_ in case['regs']):
        asked = mo.get('asked', [])
        it = iter(asked)
        if len(set(ev)) != len(ev):
            problems.append('trace: the predicates of a view were evaluated more than once: %s (model asks %s)' % (ev, asked))
        elif not all(any(t == a for a in it) for t in ev):
            problems.append('trace: views evaluated %s is not a subsequence of the candidates the model asks %s' % (ev, asked))
        elif res['out'][0] in ('response', 'forbidden'):
            wreg = [r_ for r_ in case['regs'] if r_['tag'] == res['out'][1]]
            if wreg and wreg[0]['opts'].get('stateful') and (not ev or ev[-1] != res['out'][1]):
                problems.append('trace: the view that ran is not the last one whose stateful predicate was evaluated: %s' % (ev,))
    if mo.get('coherent') and mo.get('spec') != mo.get('out'):
        problems.append('model!=spec on a coherent registration list (contradicts lookup_eq_spec)')
    if problems:
        return {'case': case, 'impl': {'out': res['out'], 'real': res['real']}, 'model': mo, 'problems': problems}
    return None


def shrink_case(case, pred):
    """drop registrations / simplify the request while `pred(case)` stays true"""
    cur = case

    def ok(c):
        try:
            return pred(c)
        except Exception:
            return False
    changed = True
    while changed:
        changed = False
        for i in range(len(cur['regs'])):
            c = dict(cur, regs=cur['regs'][:i] + cur['regs'][i + 1:])
            if ok(c):
                cur = c; changed = True
                break
    for key, val in (('qs', ''), ('body', None), ('headers', []), ('accept', None), ('xhr', None), ('custom', []),
                     ('auth', False), ('permitted', True), ('method', 'GET')):
        if cur['req'].get(key) != val:
            c = dict(cur, req=dict(cur['req'], **{key: val}))
            if ok(c):
                cur = c
    for i, reg in enumerate(cur['regs']):
        for name in list(reg['opts']):
            o2 = {k: v for k, v in reg['opts'].items() if k != name}
            c = dict(cur, regs=cur['regs'][:i] + [dict(reg, opts=o2, **{'not': [x for x in reg.get('not', []) if x != name]})] + cur['regs'][i + 1:])
            if ok(c):
                cur = c
                reg = cur['regs'][i]
    if cur.get('commit') != 'auto':
        c = dict(cur, commit='auto')
        if ok(c):
            cur = c
    changed = True
    while changed and cur.get('marks'):
        changed = False
        for i in range(len(cur['marks'])):
            ms = cur['marks'][:i] + cur['marks'][i + 1:]
            c = dict(cur, marks=ms) if ms else {k: v for k, v in cur.items() if k != 'marks'}
            if ok(c):
                cur = c; changed = True
                break
    return cur


def violates(case, finding=None):
    res = check_case(None, case)
    v = res['viol']
    return bool(v) and v.get('finding') == finding


# witnesses of the recorded findings / excluded points (also in corpus/C03)
W_ACCEPT = {'classes': [{'bases': [], 'impl': []}], 'tree': [{'cls': 0, 'named': True, 'provides': []}], 'routes': [],
            'regs': [{'ctx': None, 'name': '', 'route': None, 'opts': {}, 'not': [], 'accept': 'text/html', 'perm': False, 'tag': 1},
                     {'ctx': None, 'name': '', 'route': None, 'opts': {'request_method': 'GET', 'xhr': True}, 'not': [], 'accept': None,
                      'perm': False, 'tag': 2}],
            'commit': 'auto', 'nf': True,
            'req': {'path': '/', 'method': 'GET', 'qs': '', 'body': None, 'ctype': None, 'headers': [], 'accept': 'text/html',
                    'xhr': 'XMLHttpRequest', 'auth': False, 'permitted': True, 'custom': []}}
W_OVERRIDE = {'classes': [{'bases': [], 'impl': []}], 'tree': [{'cls': 0, 'named': True, 'provides': []}], 'routes': [],
              'regs': [{'ctx': None, 'name': '', 'route': None, 'opts': {}, 'not': [], 'accept': None, 'perm': False, 'tag': 1},
                       {'ctx': None, 'name': '', 'route': None, 'opts': {}, 'not': [], 'accept': None, 'perm': True, 'tag': 2}],
              'commit': 'auto', 'nf': True,
              'req': {'path': '/', 'method': 'GET', 'qs': '', 'body': None, 'ctype': None, 'headers': [], 'accept': None,
                      'xhr': None, 'auth': False, 'permitted': False, 'custom': []}}
W_TIE = {'classes': [{'bases': [], 'impl': []}], 'tree': [{'cls': 0, 'named': True, 'provides': []}], 'routes': [],
         'regs': [{'ctx': None, 'name': '', 'route': None, 'opts': {'header': 'X-A'}, 'not': [], 'accept': None, 'perm': False, 'tag': 1},
                  {'ctx': None, 'name': '', 'route': None, 'opts': {'header': 'X-B'}, 'not': [], 'accept': None, 'perm': False, 'tag': 2}],
         'commit': 'auto', 'nf': True,
         'req': {'path': '/', 'method': 'GET', 'qs': '', 'body': None, 'ctype': None, 'headers': [['X-A', '1'], ['X-B', '1']], 'accept': None,
                 'xhr': None, 'auth': False, 'permitted': True, 'custom': []}}


def run(ctx):
    rng = ctx.rng
    napps = ctx.n(1000, 6000)
    nreq = ctx.n(8, 10)
    cases = [c for _, c in ctx.corpus()]
    ncorpus = len(cases)
    cases += list(gen_cases(rng, napps, nreq))
    cases += list(gen_cases(rng, ctx.n(30, 600), nreq, big=True))
    cases += list(gen_race_cases(rng, ctx.n(400, 3000)))
    cases += list(marking_cases())
    cases += list(stateful_cases())
    fam2 = list(family_cases(2))
    fam3 = list(family_cases(3))
    cases += fam2 + (rng.sample(fam3, 500) if ctx.tier == 'quick' else fam3)
    results = []
    for case in cases:
        if ctx.time_left() < 60:
            break
        try:
            results.append(check_case(ctx, case))
        except Exception as e:
            results.append({'out': ['harness-error', '%s: %s' % (type(e).__name__, e)], 'minfo': None, 'real': None,
                            'viol': {'case': case, 'impl': 'harness error %s: %s' % (type(e).__name__, e), 'expected': 'no error',
                                     'detail': 'the harness could not run this case'}, 'stats': {}})
    cases = cases[:len(results)]
    idx = [i for i, r in enumerate(results) if r['minfo'] is not None]
    model = [None] * len(results)
    if ctx.driver_path and idx:
        outs = ctx.run_model([results[i]['minfo'] for i in idx])
        for i, mo in zip(idx, outs):
            model[i] = mo
    mism, viol, agree = [], [], 0
    seen, nontriv = set(), set()
    dist = {'outcome': {}, 'regs': {}, 'candidates': {}, 'qualifying': {}, 'npreds_of_winner': {}, 'pred_names_used': {},
            'route_requests': 0, 'route_requests_ugv': 0, 'multi_inheritance_ctx': 0, 'incoherent_cases': 0,
            'winner_not_first_candidate': 0, 'override_pairs': 0, 'accept_views': 0, 'protected_views': 0, 'notted': 0,
            'commit_mode': {}, 'csro_len': {}, 'finding_hits': {}}
    for case, res, mo in zip(cases, results, model):
        m = compare_model(case, res, mo)
        if m:
            mism.append(m)
        elif mo is not None:
            agree += 1
        if res['viol']:
            viol.append(res['viol'])
            f = res['viol'].get('finding')
            if f:
                vfutil.bump(dist['finding_hits'], f)
        vfutil.bump(dist['outcome'], res['out'][0])
        vfutil.bump(dist['regs'], len(case['regs']))
        st = res['stats']
        if st:
            vfutil.bump(dist['candidates'], min(st['cands'], 6))
            vfutil.bump(dist['qualifying'], min(st['qual'], 4))
        vfutil.bump(dist['commit_mode'], case.get('commit', 'auto'))
        if any(r_['opts'].get('stateful') for r_ in case['regs']):
            dist['stateful_cases'] = dist.get('stateful_cases', 0) + 1
            vfutil.bump(dist.setdefault('stateful_evaluations_per_request', {}), min(len(res.get('evals') or []), 4))
            wr_ = [r_ for r_ in case['regs'] if res['out'][0] in ('response', 'forbidden') and r_['tag'] == res['out'][1]]
            if wr_ and wr_[0]['opts'].get('stateful'):
                vfutil.bump(dist.setdefault('winner_has_stateful', {}), wr_[0]['opts']['stateful'])
        if case.get('marks'):
            dist.setdefault('runtime_marked_cases', 0)
            dist['runtime_marked_cases'] += 1
            for m_ in case['marks']:
                vfutil.bump(dist.setdefault('mark_points', {}), m_['at'] + ':' + m_['op'])
            if res['minfo'] and 3 in res['minfo']['req']['csro']:
                dist['context_provides_runtime_marker'] = dist.get('context_provides_runtime_marker', 0) + 1
        if res['minfo']:
            a = res['minfo']['req']
            vfutil.bump(dist['csro_len'], len(a['csro']))
            if a['rsro'][0] != 0:
                dist['route_requests'] += 1
                if 0 in a['rsro']:
                    dist['route_requests_ugv'] += 1
        if mo and not mo.get('coherent', True):
            dist['incoherent_cases'] += 1
        if res['real']:
            slots = {}
            for reg, rl in zip(case['regs'], res['real']):
                k = (reg.get('route'), json.dumps(reg['ctx']), reg['name'], rl[1])
                slots[k] = slots.get(k, 0) + 1
            dist['override_pairs'] += sum(1 for v in slots.values() if v >= 2)
        if any(len(case['classes'][k]['bases']) >= 2 for k in related_classes(case['classes'], case['tree'])):
            dist['multi_inheritance_ctx'] += 1
        key = vfutil.canon(case)
        if key not in seen:
            seen.add(key)
            for reg in case['regs']:
                for name in reg['opts']:
                    vfutil.bump(dist['pred_names_used'], name)
                if reg.get('accept'):
                    dist['accept_views'] += 1
                if reg.get('perm'):
                    dist['protected_views'] += 1
                dist['notted'] += len(reg.get('not', []))
            if st and mo:
                cands = mo.get('cands', [])
                first_not_winner = res['out'][0] == 'response' and cands and cands[0] != res['out'][1]
                if first_not_winner:
                    dist['winner_not_first_candidate'] += 1
                if res['out'][0] == 'response':
                    reg = [r for r in case['regs'] if r['tag'] == res['out'][1]]
                    if reg:
                        vfutil.bump(dist['npreds_of_winner'], npreds(reg[0]))
                if st['cands'] >= 2 and (st['qual'] >= 2 or first_not_winner or (st['qual'] == 0)):
                    nontriv.add(key)
    # shrink what is reported
    out_viol = []
    unknown = [v for v in viol if not v.get('finding')]
    for v in unknown[:3]:
        small = shrink_case(v['case'], lambda c: violates(c, None))
        r2 = check_case(ctx, small)
        out_viol.append(r2['viol'] or v)
    known_seen = {}
    for v in viol:
        if v.get('finding') and v['finding'] not in known_seen:
            known_seen[v['finding']] = v
    out_viol += list(known_seen.values())
    out_viol += unknown[3:8]
    notes = []
    # recorded witnesses replayed on the real code
    for name, wcase, fid in (('accept-outranks-count', W_ACCEPT, 'F-C03a'), ('override-protectedness (tie, not a violation)', W_OVERRIDE, None)):
        r = check_case(ctx, wcase)
        if fid is None:
            notes.append('witness %s: impl=%s violation=%s' % (name, r['out'], bool(r['viol'])))
            continue
        notes.append('witness %s: impl=%s finding=%s' % (name, r['out'], (r['viol'] or {}).get('finding')))
        if r['viol'] and r['viol'].get('finding') == fid and fid not in known_seen:
            out_viol.append(r['viol'])
        elif not r['viol']:
            notes.append('witness %s no longer violates the statement on this tree' % name)
    r = check_case(ctx, W_TIE)
    notes.append('equal-order tie (F-C08a, not a C03 violation): header=X-A vs header=X-B, both hold: impl=%s violation=%s' % (r['out'], bool(r['viol'])))
    return {'evaluations': len(cases), 'distinct_nontrivial': len(nontriv), 'rule': RULE, 'agreeing': agree,
            'samples': cases[ncorpus:ncorpus + 2] + cases[-1:], 'mismatches': mism[:20], 'violations': out_viol,
            'distribution': dist, 'notes': notes,
            'assumptions': ['zope.interface resolution orders (__sro__), WebOb request parsing and Accept negotiation, Python re are inputs of the model',
                            'sha256 over the predicate texts is treated as injective',
                            'view bodies, the security policy and the plain custom predicates are harness-controlled and pure; the STATEFUL custom predicates depend only on how often they were asked in the request'],
            'trusted_base': ['extract/c03.py (probes the tree under test by running it: default predicate order, PredicateList.make order table, _find_views enumeration on a scratch registry, register_view probe order)',
                             'zope.interface adapter registry `registered`/`registerAdapter`/`unregister` (exact-slot storage)']}


def search(ctx):
    """small-scope exhaustive search for an input on which the implementation violates the statement:
    all populations of <= 3 views over 2 context classes x {none, 3 predicates} x both names, in every registration
    order, against the cross product of the predicates' boundary requests; the accept family (2-3 accept views of one
    slot over {text/html, text/html;charset=utf8, application/json} x {no / holding / failing extra predicate} in every
    order x 8 Accept headers); the count races; then a random deep stream."""
    classes = [{'bases': [], 'impl': []}, {'bases': [0], 'impl': []}]
    tree = [{'cls': 1, 'named': True, 'provides': []}]
    optsets = [({}, [], None), ({'request_method': 'GET'}, [], None), ({'request_param': 'a=1'}, [], None),
               ({'header': 'X-A:1'}, [], None), ({'request_method': 'GET', 'request_param': 'a=1'}, [], None),
               ({'request_method': 'GET'}, ['request_method'], None), ({'request_param': ['a=1', 'b']}, [], None)]
    ctxs = [None, ['c', 0], ['c', 1]]
    protos = [(c, o) for c in ctxs for o in optsets]
    reqs = []
    for method in ('GET', 'HEAD', 'POST'):
        for qs in ('', 'a=1', 'a=2', 'a=1&b=', 'a=1&a=2'):
            for hdr in ([], [['X-A', '1']], [['X-A', '21']]):
                reqs.append({'path': '/', 'method': method, 'qs': qs, 'body': None, 'ctype': None, 'headers': hdr, 'accept': None,
                             'xhr': None, 'auth': False, 'permitted': True, 'custom': []})
    viol, n = [], 0
    exhaustive = True
    rng = ctx.rng

    def try_case(case):
        nonlocal n
        n += 1
        res = check_case(ctx, case)
        if res['viol'] and not res['viol'].get('finding'):
            small = shrink_case(case, lambda c: violates(c, None))
            r2 = check_case(ctx, small)
            viol.append(r2['viol'] or res['viol'])
            return True
        return False

    def mkreg(p, tag):
        c, (o, notted, acc) = p
        return {'ctx': c, 'name': '', 'route': None, 'opts': dict(o), 'not': list(notted), 'accept': acc, 'perm': False, 'tag': tag}
    # corpus first
    for _, c in ctx.corpus():
        try_case(c)
    for size in (1, 2, 3):
        combos = list(itertools.product(protos, repeat=size))
        if size == 3:
            rng.shuffle(combos)
            combos = combos[:ctx.n(600, 4000)]
            exhaustive = False
        for combo in combos:
            regs = [mkreg(p, i + 1) for i, p in enumerate(combo)]
            for rq in (reqs if size < 3 else rng.sample(reqs, 6)):
                if try_case({'classes': classes, 'tree': tree, 'routes': [], 'regs': regs, 'commit': 'auto', 'nf': True, 'req': rq}):
                    if len(viol) >= 3:
                        return {'violations': viol, 'searched': n, 'exhaustive': False}
            if ctx.time_left() < 120:
                return {'violations': viol, 'searched': n, 'exhaustive': False}
        if viol:
            return {'violations': viol, 'searched': n, 'exhaustive': False}
    # stateful family: one-shot / counting / alternating custom predicates in one slot, every order
    for case in stateful_cases():
        if try_case(case) and len(viol) >= 3:
            return {'violations': viol, 'searched': n, 'exhaustive': False}
    if viol:
        return {'violations': viol, 'searched': n, 'exhaustive': False}
    # marking family: class view / marker-interface view / both x the point at which the context instance is marked
    for case in marking_cases():
        if try_case(case) and len(viol) >= 3:
            return {'violations': viol, 'searched': n, 'exhaustive': False}
    if viol:
        return {'violations': viol, 'searched': n, 'exhaustive': False}
    # accept family: every 2-view and 3-view population over FAMILY_OFFERS x FAMILY_OPTS in every order x 8 Accept headers
    for nv in (2, 3):
        for case in family_cases(nv):
            if try_case(case) and len(viol) >= 3:
                return {'violations': viol, 'searched': n, 'exhaustive': False}
            if ctx.time_left() < 100:
                exhaustive = False
                break
        if viol:
            return {'violations': viol, 'searched': n, 'exhaustive': False}
    for a, b in race_pairs(ctx.n(2, 3)):
        if try_case(race_case(a, b)) and len(viol) >= 3:
            return {'violations': viol, 'searched': n, 'exhaustive': False}
        if ctx.time_left() < 90:
            break
    if viol:
        return {'violations': viol, 'searched': n, 'exhaustive': False}
    for case in gen_cases(rng, ctx.n(150, 1500), 8):
        if try_case(case) and len(viol) >= 3:
            break
        if ctx.time_left() < 60:
            break
    return {'violations': viol, 'searched': n, 'exhaustive': exhaustive and not viol}


def replay(ctx, rep):
    case = rep.get('case')
    if case is None:
        return {'violates': False, 'note': 'replay names broken obligations only', 'broken': rep.get('broken_obligations')}
    res = check_case(ctx, case)
    mo = None
    if ctx.driver_path and res['minfo'] is not None:
        mo = ctx.run_model([res['minfo']])[0]
    v = res['viol']
    return {'case': case, 'impl': res['out'], 'model': mo, 'spec': (v or {}).get('expected'),
            'mismatch': compare_model(case, res, mo), 'detail': (v or {}).get('detail'), 'finding': (v or {}).get('finding'),
            'violates': bool(v)}
