"""X04 — asset specifications and asset overrides: correspondence of lean/PyramidModel/Assets.lean with
pyramid.config.assets / pyramid.asset / pyramid.path, and the property itself evaluated on the implementation.

One "serve" case = a scratch world (three synthetic packages pa, pb, pc and two plain directories fs1, fs2 with resource
files, created under tempfile.mkdtemp() — outside /repo and /verif, removed afterwards) + a list of override declarations
+ resource queries.  mode "app": the declarations go through a real `Configurator.override_asset` (one or several
commits); mode "po": `PackageOverrides.insert` directly with hand-built sources (also ill-matched ones that validation
would refuse).  Queries: the six `pkg_resources` provider APIs with the registry pushed as the current one, the six
`PackageOverrides` methods, `AssetResolver().resolve(spec)` descriptors, and (app mode) a real static view through the
router.  In the case JSON `/T` stands for the scratch directory and pa/pb/pc for the uniquely named real packages.
One "spec" case = `resolve_asset_spec`, `abspath_from_asset_spec`, `asset_spec_from_abspath`, `AssetResolver.resolve`.
"""
import importlib, itertools, json, os, shutil, sys, tempfile, urllib.parse, warnings

import vfutil

warnings.filterwarnings('ignore')

PKGS = ['pa', 'pb', 'pc']
FSROOTS = ['fs1', 'fs2']
NOPKG = 'nopkg'
VOCAB = ['a.pt', 'b.pt', 'f.txt', 'templates/a.pt', 'templates/b.pt', 'templates/sub/c.pt', 'templates/sub/', 'templates2/a.pt',
         'templates2/x.pt', 'tpl/a.pt', 'tpl/b.pt', 'tpl/x.pt', 'tpl/sub/c.pt', 'tpl2/a.pt', 'static/x.css', 'static/img/y.png', 'static/',
         'static2/x.css', 'd/', 'd/e/f.txt', 'templates/é.pt', 'tpl/é.pt', 'templates', 'tpl/sub/']
OV_PATHS = ['', '', 'templates/', 'templates/', 'templates/', 'templates2/', 'static/', 'static/', 'templates/sub/', 'd/', 'tpl/',
            'templates/a.pt', 'templates/a.pt', 'a.pt', 'static/x.css', 'templates/b.pt', 'f.txt', 'templates', 'tpl']
SRC_DIRS = ['', 'tpl/', 'tpl/', 'tpl2/', 'templates/', 'templates2/', 'static/', 'static2/', 'd/', 'tpl/sub/', 'templates/sub/']
SRC_FILES = ['a.pt', 'b.pt', 'f.txt', 'tpl/a.pt', 'tpl/b.pt', 'tpl/x.pt', 'templates/a.pt', 'static/x.css', 'static2/x.css', 'tpl2/a.pt']

RULE = ('serve cases: world of 3 packages + 2 directories over a 24-path vocabulary; 0..6 override declarations (directory, file '
        'and whole-package overrides; package and absolute-path sources; 1..3 commits) or 0..6 raw inserts; 4..9 queries, each '
        'through 6 provider APIs + 6 PackageOverrides methods + descriptor (+ static view).  A case is non-trivial when for '
        'some query at least two declarations match the name (order decides) or a matching declaration lacks the resource '
        '(fall-through); distinct = distinct canonical case JSON.  spec cases: 4 functions per spec.')


# ------------------------------------------------------------------------------------------------
# worlds

def tree_nodes(tree):
    """{abs symbolic path: isdir} for a tree {root: [entries]} (entries: relative file paths; trailing / = directory)"""
    nodes = {'/T': True}
    for root, entries in tree.items():
        base = '/T/' + root
        nodes[base] = True
        ents = list(entries) + (['__init__.py'] if root in PKGS else [])
        for e in ents:
            parts = [p for p in e.split('/') if p]
            if not parts:
                continue
            for i in range(1, len(parts)):
                nodes[base + '/' + '/'.join(parts[:i])] = True
            full = base + '/' + '/'.join(parts)
            if e.endswith('/'):
                nodes[full] = True
            else:
                nodes.setdefault(full, False)
    return nodes


def clean_tree(tree):
    """drop entries that would make one path both a file and a directory"""
    out = {}
    for root, entries in tree.items():
        dirs = set()
        for e in entries:
            parts = [p for p in e.split('/') if p]
            for i in range(1, len(parts) + (1 if e.endswith('/') else 0)):
                dirs.add('/'.join(parts[:i]))
        out[root] = [e for e in entries if e.endswith('/') or e.strip('/') not in dirs]
    return out


class Realm:
    """the scratch directory of one run: realises trees, maps symbolic <-> real names"""
    _n = itertools.count()

    def __init__(self):
        self.tmp = os.path.realpath(tempfile.mkdtemp(prefix='x04_'))
        sys.path.insert(0, self.tmp)
        self.worlds = {}
        self.made = []
        self.old_dwb = sys.dont_write_bytecode
        sys.dont_write_bytecode = True

    def close(self):
        for m in self.made:
            sys.modules.pop(m, None)
        if self.tmp in sys.path:
            sys.path.remove(self.tmp)
        sys.dont_write_bytecode = self.old_dwb
        shutil.rmtree(self.tmp, ignore_errors=True)
        importlib.invalidate_caches()

    def world(self, tree):
        key = json.dumps(tree, sort_keys=True)
        w = self.worlds.get(key)
        if w is None:
            w = self.worlds[key] = World(self, tree, next(Realm._n))
        return w


class World:
    def __init__(self, realm, tree, k):
        self.realm, self.tree = realm, tree
        self.dir = os.path.join(realm.tmp, 'w%d' % k)
        self.real = {r: ('x04_%d_%d_%s' % (os.getpid(), k, r) if r in PKGS else r) for r in list(tree)}
        self.real[NOPKG] = 'x04_%d_%d_%s' % (os.getpid(), k, NOPKG)
        self.nodes = tree_nodes(tree)
        os.makedirs(self.dir)
        for path, isdir in sorted(self.nodes.items()):
            if path == '/T':
                continue
            rp = self.realpath(path)
            if isdir:
                os.makedirs(rp, exist_ok=True)
            else:
                os.makedirs(os.path.dirname(rp), exist_ok=True)
                with open(rp, 'w', encoding='utf-8') as f:
                    f.write(('#' if path.endswith('/__init__.py') else '') + path)
        if self.dir not in sys.path:
            sys.path.insert(0, self.dir)
        importlib.invalidate_caches()
        self.mods = {}
        for r in tree:
            if r in PKGS:
                self.mods[r] = importlib.import_module(self.real[r])
                realm.made.append(self.real[r])

    def drop(self):
        if self.dir in sys.path:
            sys.path.remove(self.dir)

    # symbolic -> real
    def realpath(self, p):
        if p == '/T':
            return self.dir
        if p.startswith('/T/'):
            rest = p[3:]
            root, sep, tail = rest.partition('/')
            return self.dir + '/' + self.real.get(root, root) + sep + tail
        return p

    def realname(self, name):
        """a resource name may embed an absolute symbolic path after `//` (the F-X04a regression stream), or be
        `@abs:/T/…` = that absolute path without its leading slash (what a request path can spell)"""
        if name.startswith('@abs:/T/'):
            return self.realpath(name[5:]).lstrip('/')
        i = name.find('//T/')
        if i >= 0:
            return name[:i + 1] + self.realpath(name[i + 1:])
        return name

    def realspec(self, s):
        if s.startswith('/T'):
            return self.realpath(s)
        head, sep, tail = s.partition(':')
        return self.real.get(head, head) + sep + tail

    # real -> symbolic
    def sym(self, s):
        if not isinstance(s, str):
            return s
        s = s.replace(self.dir, '/T')
        for r, real in self.real.items():
            s = s.replace(real, r)
        return s


# ------------------------------------------------------------------------------------------------
# running the implementation

def _err(e):
    if isinstance(e, IsADirectoryError):
        return ['err', 'isdir']
    if isinstance(e, (FileNotFoundError, NotADirectoryError)):
        return ['err', 'no']
    return ['exc', type(e).__name__]


def _read(opener):
    try:
        s = opener()
    except Exception as e:
        return _err(e)
    try:
        if hasattr(s, 'read'):
            try:
                data = s.read()
            except Exception as e:
                return _err(e)
            finally:
                s.close()
        else:
            data = s
    except Exception as e:
        return _err(e)
    return ['ok', data.decode('utf-8').lstrip('#')]


def _ls(f, W):
    try:
        return ['ok', sorted(x for x in f() if x != '__pycache__')]
    except Exception as e:
        return _err(e)


def canon_model(x):
    """the model distinguishes notdir/notfound; the OS reports either for a path through a regular file — collapse"""
    if isinstance(x, list) and len(x) == 2 and x[0] == 'err' and x[1] in ('notdir', 'notfound'):
        return ['err', 'no']
    if isinstance(x, list) and len(x) == 2 and x[0] == 'ok' and isinstance(x[1], list):
        return ['ok', sorted(x[1])]
    return x


def canon_q(q):
    if q is None:
        return None
    return {k: canon_model(v) for k, v in q.items()}


def query_impl(W, registry, pkg, name, static_names=None):
    """all observations for one (package, resource name) with `registry` current"""
    import pkg_resources
    from pyramid.interfaces import IPackageOverrides
    from pyramid.path import AssetResolver
    real, rname = W.real.get(pkg, pkg), W.realname(name)
    out = {}
    p = {}

    def symf(s):
        # `@abs:` names are realised as scratch paths: put the symbolic name back before mapping the roots
        return W.sym(s.replace(rname, name) if name.startswith('@abs:') and isinstance(s, str) else s)
    try:
        p['fn'] = ['ok', symf(pkg_resources.resource_filename(real, rname))]
    except Exception as e:
        p['fn'] = _err(e)
    p['st'] = _read(lambda: pkg_resources.resource_stream(real, rname))
    p['sg'] = _read(lambda: pkg_resources.resource_string(real, rname))
    def guard(f):
        try:
            return ['ok', f()]
        except Exception as e:
            return _err(e)
    p['has'] = guard(lambda: bool(pkg_resources.resource_exists(real, rname)))
    p['isd'] = guard(lambda: bool(pkg_resources.resource_isdir(real, rname)))
    p['ls'] = _ls(lambda: pkg_resources.resource_listdir(real, rname), W)
    out['p'] = p
    po = registry.queryUtility(IPackageOverrides, name=real)
    if po is None:
        out['o'] = None
    else:
        o = {}
        def opt(f, conv):
            try:
                r = f()
            except Exception as e:
                return _err(e)
            return None if r is None else conv(r)
        o['fn'] = opt(lambda: po.get_filename(rname), lambda r: ['ok', symf(r)])
        o['st'] = opt(lambda: po.get_stream(rname), lambda s: _read(lambda: s))
        o['sg'] = opt(lambda: po.get_string(rname), lambda s: ['ok', s.decode('utf-8').lstrip('#')])
        o['has'] = opt(lambda: po.has_resource(rname), lambda b: ['ok', bool(b)])
        o['isd'] = opt(lambda: po.isdir(rname), lambda b: ['ok', bool(b)])
        o['ls'] = opt(lambda: po.listdir(rname), lambda l: ['ok', sorted(x for x in l if x != '__pycache__')])
        out['o'] = o
    # the descriptor of path.py must describe the same place
    d = AssetResolver(None).resolve(real + ':' + rname)
    dd = {'fn': guard(lambda: symf(d.abspath())), 'st': _read(d.stream), 'has': guard(lambda: bool(d.exists())),
          'isd': guard(lambda: bool(d.isdir())), 'ls': _ls(d.listdir, W)}
    want = dict(p, fn=['ok', W.sym(os.path.abspath(W.realpath(p['fn'][1])))] if p['fn'][0] == 'ok' else p['fn'])
    bad = [k for k in dd if dd[k] != want[k]]
    if bad or d.absspec() != real + ':' + rname:
        out['descriptor_disagrees'] = {'fields': bad, 'descriptor': dd}
    return out


def static_probe(W, config, queries, root=False):
    """serve pa:static/ through a real router; {name: [status, body]} for the queries below static/ that a URL can spell"""
    from pyramid.request import Request
    out = {}
    if root:
        # a static view on the package-root spec `pa:`: every URL-spellable query name of pa, as a request path
        names = [n for p, n in queries if p == 'pa' and n and all(seg not in ('', '.', '..') for seg in W.realname(n).split('/'))
                 and not any(c in n for c in '\\\x00%?#')]
        if not names:
            return out
        config.add_static_view('svr', W.real['pa'] + ':')
        app = config.make_wsgi_app()
        for n in names:
            req = Request.blank('/svr/' + urllib.parse.quote(W.realname(n)))
            try:
                resp = req.get_response(app)
                out[n] = [resp.status_int, resp.body.decode('utf-8', 'replace').lstrip('#') if resp.status_int == 200 else '']
            except Exception as e:
                out[n] = [500, 'exception ' + type(e).__name__]
        return out
    names = [n for p, n in queries if p == 'pa' and n.startswith('static/') and n[7:] and
             all(seg not in ('', '.', '..') for seg in n[7:].split('/')) and '\\' not in n and '\x00' not in n and '%' not in n and '?' not in n and '#' not in n]
    if not names:
        return out
    config.add_static_view('sv', W.real['pa'] + ':static/')
    app = config.make_wsgi_app()
    for n in names:
        req = Request.blank('/sv/' + urllib.parse.quote(n[7:]))
        try:
            resp = req.get_response(app)
            out[n] = [resp.status_int, resp.body.decode('utf-8', 'replace') if resp.status_int == 200 else '']
        except Exception as e:
            out[n] = [500, 'exception ' + type(e).__name__]
    return out


def cfg_err_kind(e):
    m = str(e).lower()
    for s, k in (('cannot override an asset with itself', 'itself'), ('absolute path that does not exist', 'absmissing'),
                 ('directory cannot be overridden with a file', 'dirwithfile'), ('file cannot be overridden with a directory', 'filewithdir')):
        if s in m:
            return k
    return 'other:' + m[:60]


def impl_serve(case, realm):
    from pyramid.config import Configurator
    from pyramid.exceptions import ConfigurationError, ConfigurationExecutionError
    from pyramid.interfaces import IPackageOverrides
    from pyramid.registry import Registry
    from pyramid.threadlocal import manager
    import pyramid.config.assets as A
    W = realm.world(case['tree'])
    extra = {}
    if case['mode'] == 'app':
        config = Configurator()
        reg = config.registry

        def count():
            return sum(len(u.overrides) for _, u in reg.getUtilitiesFor(IPackageOverrides))
        idx = 0
        for batch in case['batches']:
            start = idx
            for to, wi in batch:
                try:
                    config.override_asset(W.realspec(to), W.realspec(wi))
                except ConfigurationError as e:
                    return {'fail': ['declare', idx, cfg_err_kind(e)]}
                except ImportError:
                    return {'fail': ['declare', idx, 'import']}
                idx += 1
            before = count()
            try:
                config.commit()
            except ConfigurationExecutionError as e:
                kind = 'import' if isinstance(e.evalue, ImportError) else 'other:' + type(e.evalue).__name__
                return {'fail': ['commit', start + count() - before, kind]}
        if case.get('static'):
            extra['static'] = static_probe(W, config, case['queries'], root=bool(case.get('static_root')))
    else:
        reg = Registry('x04')
        mod = W.mods[case['pkg']]
        po = A.PackageOverrides(mod)
        for path, src in case['inserts']:
            if src[0] == 'pkg':
                # the source's package: a module object or its name (both are accepted by PackageAssetSource)
                target = W.mods.get(src[1])
                s = A.PackageAssetSource(target if (target is not None and len(path) % 2) else W.real.get(src[1], src[1]), src[2])
            else:
                s = A.FSAssetSource(W.realpath(src[1]))
            po.insert(path, s)
        reg.registerUtility(po, IPackageOverrides, name=W.real[case['pkg']])
    manager.push({'registry': reg, 'request': None})
    try:
        qs = [query_impl(W, reg, p, n) for p, n in case['queries']]
    finally:
        manager.pop()
    out = {'q': qs}
    out.update(extra)
    return out


def impl_spec(case, realm):
    from pyramid.asset import resolve_asset_spec, abspath_from_asset_spec, asset_spec_from_abspath
    from pyramid.path import AssetResolver, PkgResourcesAssetDescriptor, FSAssetDescriptor
    W = realm.world(case['tree'])
    spec, pname = W.realspec(case['spec']), case['pname']
    rp = None if pname is None else W.real.get(pname, pname)
    # a package OBJECT as pname must behave like its name
    r1 = resolve_asset_spec(spec, rp)
    if pname in W.mods:
        r1m = resolve_asset_spec(spec, W.mods[pname])
        if r1m != r1:
            return {'error': 'resolve_asset_spec differs for a package object: %r vs %r' % (r1m, r1)}
    try:
        ab = W.sym(abspath_from_asset_spec(spec, rp))
    except ImportError:
        ab = '!import'
    desc = None
    if pname is None or pname in W.mods:
        try:
            d = AssetResolver(None if pname is None else W.mods[pname]).resolve(spec)
        except ValueError:
            desc = ['valueError']
        else:
            if isinstance(d, FSAssetDescriptor):
                desc = ['fs', W.sym(d.path)] if d.path == os.path.abspath(spec) else ['fs-not-abspath', W.sym(d.path)]
            elif isinstance(d, PkgResourcesAssetDescriptor):
                desc = ['pkg', W.sym(d.pkg_name), d.path]
            else:
                desc = ['other']
    pk = case['pkg']
    fa = W.sym(asset_spec_from_abspath(W.realpath(case['abspath']), W.mods[pk]))
    return {'resolve': [None if r1[0] is None else W.sym(r1[0]), W.sym(r1[1])], 'abspath': ab, 'desc': desc, 'fromabs': fa}


# ------------------------------------------------------------------------------------------------
# model encoding

def model_case(case):
    if case['op'] == 'spec':
        return {'op': 'spec', 'pkgs': [[p, '/T/' + p] for p in PKGS if p in case['tree']], 'spec': case['spec'], 'pname': case['pname'],
                'abspath': case['abspath'], 'pkg': case['pkg']}
    nodes = tree_nodes(case['tree'])
    m = {'op': 'serve', 'pkgs': [[p, '/T/' + p] for p in PKGS if p in case['tree']],
         'nodes': [[k, v] for k, v in sorted(nodes.items())], 'queries': case['queries'], 'mode': case['mode']}
    if case['mode'] == 'app':
        m['batches'] = case['batches']
    else:
        m['pkg'], m['inserts'] = case['pkg'], case['inserts']
    return m


# ------------------------------------------------------------------------------------------------
# the property oracle (Python, independent of the Lean build): states the reading on the case's own tree

def norm_key(raw):
    return '/' + '/'.join(s for s in raw.split('/') if s)


def os_node(nodes, raw):
    """None | 'f' | 'd' for a raw OS path string"""
    k = norm_key(raw)
    if k not in nodes:
        return None
    if nodes[k]:
        return 'd'
    return None if raw.endswith('/') else 'f'


def listing(nodes, raw):
    k = norm_key(raw)
    pre = k + '/'
    return sorted(p[len(pre):] for p in nodes if p.startswith(pre) and '/' not in p[len(pre):])


def split_spec(s):
    if ':' in s:
        a, b = s.split(':', 1)
        return a, b
    return s, ''


def oracle_validate(case_nodes, pkgs, to, wi):
    """the decision table of override_asset as documented; returns ('err', kind) | ('ok', package, path, source)"""
    if to == wi:
        return ('err', 'itself')
    package, path = split_spec(to)
    to_dir = path == '' or path.endswith('/')
    if wi.startswith('/'):
        n = os_node(case_nodes, wi)
        if n is None:
            return ('err', 'absmissing')
        with_dir = n == 'd'
        src = ['fs', wi]
    else:
        op, opfx = split_spec(wi)
        if op not in pkgs:
            return ('err', 'import')
        with_dir = opfx == '' or opfx.endswith('/')
        src = ['pkg', op, opfx]
    if to_dir and not with_dir:
        return ('err', 'dirwithfile')
    if with_dir and not to_dir:
        return ('err', 'filewithdir')
    return ('ok', package, path, src)


def under_source(src, rest):
    """the property: the remainder is looked up UNDER the source's prefix"""
    if src[0] == 'pkg':
        return '/T/' + src[1] + '/' + src[2] + rest
    return src[1] if rest == '' else src[1] + '/' + rest


def oracle_serve(case):
    """expected outcome per the reading: {'fail':…} | [{'p': observations of the served place, 'hits': n, 'fell': bool}]"""
    nodes = tree_nodes(case['tree'])
    pkgs = [p for p in PKGS if p in case['tree']]
    decls = {}        # package -> [(path, src)] in declaration order
    if case['mode'] == 'app':
        idx = 0
        for batch in case['batches']:
            acc = []
            for to, wi in batch:
                v = oracle_validate(nodes, pkgs, to, wi)
                if v[0] == 'err':
                    return {'fail': ['declare', idx, v[1]]}
                acc.append(v)
                idx += 1
            idx -= len(batch)
            for v in acc:
                if v[1] not in pkgs:
                    return {'fail': ['commit', idx, 'import']}
                decls.setdefault(v[1], []).append((v[2], v[3]))
                idx += 1
    else:
        decls[case['pkg']] = [(p, s) for p, s in case['inserts']]
    out = []
    for pkg, name in case['queries']:
        served, hits, fell, escape = '/T/' + pkg + '/' + name, 0, False, False
        found = False
        for path, src in reversed(decls.get(pkg, [])):
            if path == '' or path.endswith('/'):
                if not name.startswith(path):
                    continue
                rest = name[len(path):]
            else:
                if name != path:
                    continue
                rest = ''
            hits += 1
            if src[0] == 'fs' and rest.startswith('/'):
                escape = True
            loc = under_source(src, rest)
            if found:
                continue
            if os_node(nodes, loc) is not None:
                served, found = loc, True
            else:
                fell = True
        n = os_node(nodes, served)
        key = norm_key(served)
        p = {'key': key, 'st': ['ok', key] if n == 'f' else ['err', 'isdir' if n == 'd' else 'no'], 'has': ['ok', n is not None],
             'isd': ['ok', n == 'd'], 'ls': ['ok', listing(nodes, served)] if n == 'd' else ['err', 'no']}
        p['sg'] = p['st']
        out.append({'p': p, 'hits': hits, 'fell': fell, 'fs_escape': escape})
    return out


def well_formed(case):
    """po mode: the oracle speaks only about declarations validation would have let through"""
    if case['mode'] != 'po':
        return True
    nodes = tree_nodes(case['tree'])
    for path, src in case['inserts']:
        isdir = path == '' or path.endswith('/')
        if src[0] == 'pkg':
            if src[1] not in case['tree'] or isdir != (src[2] == '' or src[2].endswith('/')):
                return False
        else:
            n = os_node(nodes, src[1])
            if n is None or isdir != (n == 'd'):
                return False
    return True


def check_serve(case, got, mo):
    """(mismatch|None, violation|None, info)"""
    mism = viol = None
    exp = oracle_serve(case)
    info = {'hits': 0, 'fell': False}
    if 'error' in got:
        return None, {'case': case, 'impl': got, 'expected': 'no crash', 'detail': got['error']}, info
    # ---- property
    if isinstance(exp, dict) or 'fail' in got:
        if case['mode'] == 'app' and (not isinstance(exp, dict) or got.get('fail') != exp['fail']):
            viol = {'case': case, 'impl': got.get('fail', 'accepted'), 'expected': exp['fail'] if isinstance(exp, dict) else 'accepted',
                    'detail': 'override_asset validation decides differently from the documented table'}
    elif well_formed(case):
        for (pkg, name), g, e in zip(case['queries'], got['q'], exp):
            info['hits'] = max(info['hits'], e['hits']); info['fell'] = info['fell'] or e['fell']
            p = g['p']
            bad = [k for k in ('st', 'sg', 'has', 'isd', 'ls') if p[k] != e['p'][k]]
            if p['fn'][0] != 'ok' or norm_key(p['fn'][1]) != e['p']['key']:
                bad.append('fn')
            if 'descriptor_disagrees' in g:
                bad.append('descriptor:' + ','.join(g['descriptor_disagrees']['fields']))
            if bad:
                viol = {'case': case, 'impl': {'query': [pkg, name], 'provider': p, 'fields': bad}, 'expected': e['p'],
                        'detail': 'the resource served for %s:%s is not that of the latest matching declaration that has it '
                                  '(else the package\'s own), or the provider methods disagree about the place' % (pkg, name)}
                break
        if viol is None and 'static' in got:
            for (pkg, name), e in zip(case['queries'], exp):
                if pkg == 'pa' and name in got['static']:
                    st, body = got['static'][name]
                    n = e['p']
                    want = (200, n['key']) if n['st'][0] == 'ok' else None
                    if want and (st, body) != want or (not want and n['has'] == ['ok', False] and st != 404):
                        viol = {'case': case, 'impl': {'static': [name, st, body]}, 'expected': n,
                                'detail': 'the static view serves something else than the overridden asset for ' + name}
                        break
    # ---- correspondence
    if mo is not None:
        if 'error' in mo:
            mism = {'case': case, 'impl': got, 'model': mo}
        elif 'fail' in mo or 'fail' in got:
            if mo.get('fail') != got.get('fail'):
                mism = {'case': case, 'impl': got.get('fail', 'accepted'), 'model': mo.get('fail', 'accepted')}
        else:
            for (pkg, name), g, m in zip(case['queries'], got['q'], mo['q']):
                mp, mo_, ms = canon_q(m['p']), canon_q(m['o']), canon_q(m['s'])
                if g['p'] != mp or g['o'] != mo_:
                    mism = {'case': case, 'impl': {'query': [pkg, name], 'p': g['p'], 'o': g['o']}, 'model': {'p': mp, 'o': mo_}}
                    break
                if mp != ms:
                    mism = {'case': case, 'impl': {'query': [pkg, name], 'note': 'model vs its own reading'}, 'model': {'p': mp, 's': ms}}
                    break
    return mism, viol, info


def check_spec(case, got, mo):
    mism = viol = None
    if 'error' in got:
        return None, {'case': case, 'impl': got, 'expected': 'a package object behaves like its name', 'detail': got['error']}
    spec, pname = case['spec'], case['pname']
    # the property, stated directly
    if spec.startswith('/'):
        exp_res = [None, spec]
    elif ':' in spec:
        exp_res = list(spec.split(':', 1))
    else:
        exp_res = [pname, spec]
    if got['resolve'] != exp_res:
        viol = {'case': case, 'impl': got, 'expected': {'resolve': exp_res}, 'detail': 'resolve_asset_spec splits differently'}
    if got['desc'] is not None:
        exp_desc = ['fs', spec] if exp_res[0] is None and spec.startswith('/') else (['valueError'] if exp_res[0] is None else ['pkg'] + exp_res)
        gd = got['desc']
        if gd[0] == 'fs':
            gd = ['fs', spec] if norm_key(gd[1]) == norm_key(os.path.normpath(spec)) else gd
        if gd != exp_desc and viol is None:
            viol = {'case': case, 'impl': got, 'expected': {'desc': exp_desc}, 'detail': 'AssetResolver.resolve decides differently'}
    # round trip for clean package-relative specs
    if viol is None and ':' in spec and not spec.startswith('/'):
        p, f = spec.split(':', 1)
        segs = f.split('/')
        if p in PKGS and f and all(s and s not in ('.', '..') for s in segs) and pname is not None:
            if got['abspath'] != '/T/' + p + '/' + f:
                viol = {'case': case, 'impl': got, 'expected': '/T/%s/%s' % (p, f), 'detail': 'abspath_from_asset_spec of a clean spec'}
    ab = case['abspath']
    root = '/T/' + case['pkg']
    exp_fa = case['pkg'] + ':' + ab[len(root) + 1:] if ab.startswith(root + '/') else ab
    if viol is None and got['fromabs'] != exp_fa:
        viol = {'case': case, 'impl': got, 'expected': {'fromabs': exp_fa}, 'detail': 'asset_spec_from_abspath: wrong package boundary'}
    if mo is not None:
        keys = ['resolve', 'abspath', 'fromabs'] + (['desc'] if got['desc'] is not None else [])
        md = dict(mo)
        if got['desc'] and got['desc'][0] == 'fs' and md.get('desc', [None])[0] == 'fs':
            md['desc'] = ['fs', got['desc'][1]] if norm_key(os.path.normpath(md['desc'][1])) == norm_key(got['desc'][1]) else md['desc']
        if 'error' in mo or any(got[k] != md.get(k) for k in keys):
            mism = {'case': case, 'impl': got, 'model': mo}
    return mism, viol


# ------------------------------------------------------------------------------------------------
# generators

def gen_tree(rng):
    tree = {}
    for r in PKGS + FSROOTS:
        dens = rng.choice([0.25, 0.45, 0.45, 0.7])
        tree[r] = [e for e in VOCAB if rng.random() < dens]
    return clean_tree(tree)


def gen_decl(rng, tree, overridden, sources, wellformed=0.9, static=False):
    pkg = rng.choice(overridden)
    path = rng.choice(OV_PATHS)
    if static and rng.random() < 0.5:
        pkg, path = 'pa', rng.choice(['static/', 'static/', 'static/x.css', '', 'static/img/'])
    to = pkg if (path == '' and rng.random() < 0.5) else pkg + ':' + path
    isdir = path == '' or path.endswith('/')
    want_dir = isdir if rng.random() < wellformed else not isdir
    r = rng.random()
    if r < 0.62 and sources:
        sp = rng.choice(sources)
        pfx = rng.choice(SRC_DIRS) if want_dir else rng.choice(SRC_FILES)
        wi = sp if (pfx == '' and rng.random() < 0.5) else sp + ':' + pfx
    elif r < 0.95:
        root = rng.choice(FSROOTS)
        nodes = tree_nodes({root: tree.get(root, [])})
        cands = [p for p, d in nodes.items() if d == want_dir and p != '/T']
        wi = rng.choice(cands) if cands and rng.random() < 0.96 else '/T/%s/missing' % root
        if want_dir and rng.random() < 0.3:
            wi += '/'
    elif r < 0.98:
        wi = NOPKG + (':tpl/' if want_dir else ':a.pt')
    else:
        wi = to
    if rng.random() < 0.012:
        to = NOPKG + to[len(pkg):]
    return [to, wi]


def gen_queries(rng, tree, decls_by_pkg, overridden, k):
    """names aimed at the declarations: below an overridden directory, the exact file, siblings sharing a string prefix,
    the directory with and without its slash, resources only some source has, misses"""
    qs = []
    all_entries = sorted({e for r in tree for e in tree[r]})
    for _ in range(k):
        pkg = rng.choice(overridden) if rng.random() < 0.9 else rng.choice(PKGS)
        ds = decls_by_pkg.get(pkg, [])
        r = rng.random()
        if ds and r < 0.55:
            path, src_entries, src_pfx = rng.choice(ds)
            if path == '' or path.endswith('/'):
                below = [e[len(src_pfx):] for e in src_entries if e.startswith(src_pfx)]
                own = [e[len(path):] for e in tree.get(pkg, []) if e.startswith(path)]
                pool = below + own + ['a.pt', 'zz.pt', 'sub/', '']
                name = path + rng.choice(pool)
            else:
                name = path
        elif ds and r < 0.7:
            path = rng.choice(ds)[0]
            stem = path.rstrip('/')
            name = rng.choice([stem, stem + '2/a.pt', stem + '2/x.pt', stem + '2/', stem + '2', stem + 'x', stem[:-1] if stem else 'a.pt',
                               stem + '/', stem.upper() + '/a.pt']) if stem else rng.choice(['a.pt', '', 'templates'])
        elif r < 0.9:
            name = rng.choice(tree.get(pkg) or all_entries or ['a.pt'])
            if rng.random() < 0.3:
                name = name.rstrip('/') if name.endswith('/') else name.rsplit('/', 1)[0] + ('/' if rng.random() < 0.5 else '')
        else:
            name = rng.choice(['', 'zz', 'templates/zz/a.pt', 'templates/sub', '__init__.py', 'templates/sub/c.pt/'])
        if rng.random() < 0.04 and '/' in name and not name.endswith('/'):
            i = name.index('/')
            name = name[:i] + '//' + name[i + 1:]
        qs.append([pkg, name])
    return qs


def gen_serve(rng, trees, big=False):
    tree = rng.choice(trees)
    n_over = rng.choice([1, 1, 1, 2])
    pk = PKGS[:]
    rng.shuffle(pk)
    mode = 'app' if rng.random() < 0.65 else 'po'
    static = mode == 'app' and rng.random() < 0.3
    if static:
        pk.remove('pa'); pk.insert(0, 'pa')
    overridden, sources = pk[:n_over], pk[n_over:]
    nd = rng.choice([0, 1, 2, 2, 3, 3, 4, 5, 6]) + (rng.randrange(6) if big else 0)
    decls_by_pkg = {}
    if mode == 'app':
        decls = [gen_decl(rng, tree, overridden, sources, 0.95, static) for _ in range(nd)]
        # mostly re-declare over the same few paths so that order decides
        if nd >= 2 and rng.random() < 0.6:
            base = decls[0][0]
            bdir = split_spec(base)[1] == '' or base.endswith('/')
            for d in decls[1:]:
                ddir = split_spec(d[0])[1] == '' or d[0].endswith('/')
                if rng.random() < 0.6 and d[0] != d[1] and ddir == bdir and not d[0].startswith(NOPKG):
                    d[0] = base
        cuts = sorted(rng.sample(range(1, nd), min(rng.choice([0, 0, 1, 2]), max(nd - 1, 0)))) if nd > 1 else []
        batches, last = [], 0
        for c in cuts + [nd]:
            batches.append(decls[last:c]); last = c
        case = {'op': 'serve', 'tree': tree, 'mode': 'app', 'batches': batches, 'static': static}
        for to, wi in decls:
            p, path = split_spec(to)
            if wi.startswith('/'):
                root = wi[3:].split('/')[0]
                pfx = wi[len('/T/' + root) + 1:].rstrip('/')
                decls_by_pkg.setdefault(p, []).append((path, tree.get(root, []), pfx + '/' if pfx else ''))
            else:
                sp, pfx = split_spec(wi)
                decls_by_pkg.setdefault(p, []).append((path, tree.get(sp, []), pfx))
    else:
        pkg = overridden[0]
        inserts = []
        for _ in range(nd):
            path = rng.choice(OV_PATHS)
            isdir = path == '' or path.endswith('/')
            ok = rng.random() < 0.88
            if rng.random() < 0.6 and sources:
                sp = rng.choice(sources)
                pfx = rng.choice(SRC_DIRS if isdir == ok else SRC_FILES)
                inserts.append([path, ['pkg', sp, pfx]])
                decls_by_pkg.setdefault(pkg, []).append((path, tree.get(sp, []), pfx))
            else:
                root = rng.choice(FSROOTS)
                nodes = tree_nodes({root: tree.get(root, [])})
                cands = [p for p, d in nodes.items() if d == (isdir == ok) and p != '/T'] or ['/T/' + root]
                ap = rng.choice(cands) + ('/' if isdir and rng.random() < 0.25 else '')
                inserts.append([path, ['fs', ap]])
                pfx = ap[len('/T/' + root) + 1:].rstrip('/')
                decls_by_pkg.setdefault(pkg, []).append((path, tree.get(root, []), pfx + '/' if pfx else ''))
        if nd >= 2 and rng.random() < 0.5:
            for ins in inserts[1:]:
                if rng.random() < 0.6 and (ins[0] == '' or ins[0].endswith('/')) == (inserts[0][0] == '' or inserts[0][0].endswith('/')):
                    ins[0] = inserts[0][0]
        case = {'op': 'serve', 'tree': tree, 'mode': 'po', 'pkg': pkg, 'inserts': inserts}
    case['queries'] = gen_queries(rng, tree, decls_by_pkg, overridden, rng.randint(4, 9))
    if case.get('static'):
        case['queries'] += [['pa', rng.choice(['static/x.css', 'static/img/y.png', 'static/zz.css', 'static/a.pt', 'static/sub/c.pt', 'static/b.pt'])]
                            for _ in range(2)]
    return case


def gen_spec(rng, trees):
    tree = rng.choice(trees)
    pkg = rng.choice(PKGS)
    ents = tree.get(pkg) or ['a.pt']
    f = rng.choice(ents + ['zz/q.pt', '', 'a:b.pt', 'templates//a.pt', 'templates/'])
    r = rng.random()
    if r < 0.45:
        spec = rng.choice(PKGS) + ':' + f
    elif r < 0.6:
        spec = f
    elif r < 0.75:
        spec = '/T/' + rng.choice(PKGS + FSROOTS) + '/' + f
    elif r < 0.85:
        spec = NOPKG + ':' + f
    else:
        spec = rng.choice(['pa:', 'pb:a:b', '/T', 'pa2:' + f, 'x/y:z', 'pc:/abs'])
    pname = rng.choice([None, None, 'pa', 'pb', 'pc', 'somepkg'])
    root = '/T/' + pkg
    ab = rng.choice([root + '/' + rng.choice(ents), root + '2/' + rng.choice(ents), root, root + '/', '/T/' + rng.choice(FSROOTS) + '/a.pt',
                     root + 'x', root + '/templates/../a.pt', '/T', root + '/d/e/f.txt'])
    return {'op': 'spec', 'tree': tree, 'spec': spec, 'pname': pname, 'abspath': ab, 'pkg': pkg}


def fs_escape_case(rng, trees):
    """F-X04a regression stream (fixed by 3e07f6a): a directory override with an absolute-path source and a resource name whose
    remainder begins with `/`, directly and through a static view on the package root"""
    tree = dict(rng.choice(trees))
    tree['fs1'] = sorted(set(tree.get('fs1', []) + ['tpl/a.pt']))
    tree['fs2'] = sorted(set(tree.get('fs2', []) + ['secret.txt']))
    tree = clean_tree(tree)
    if rng.random() < 0.5:
        return {'op': 'serve', 'tree': tree, 'mode': 'app', 'batches': [[['pa:templates/', '/T/fs1/tpl']]], 'static': False,
                'queries': [['pa', 'templates//T/fs2/secret.txt'], ['pa', 'templates/a.pt']]}
    # the request-reachable form: a static view on the package root + the whole package overridden with a directory
    return {'op': 'serve', 'tree': tree, 'mode': 'app', 'batches': [[[rng.choice(['pa', 'pa:']), rng.choice(['/T/fs1/tpl/', '/T/fs1/tpl'])]]],
            'static': True, 'static_root': True,
            'queries': [['pa', '@abs:/T/fs2/secret.txt'], ['pa', '/T/fs2/secret.txt'], ['pa', 'a.pt'], ['pa', 'b.pt'], ['pa', 'templates/a.pt']]}


# ------------------------------------------------------------------------------------------------

def self_override_probe(realm, tree):
    """outside the model (a source package with overrides of its own): a package overridden with a directory of ITSELF"""
    import pkg_resources
    from pyramid.config import Configurator
    try:
        W = realm.world(tree)
        config = Configurator()
        config.override_asset(W.real['pa'], W.real['pa'] + ':templates/')
        config.commit()
        config.begin()
        try:
            try:
                r = repr(pkg_resources.resource_exists(W.real['pa'], 'a.pt'))
            except RecursionError:
                r = 'RecursionError'
        finally:
            config.end()
    except Exception as e:      # noqa — a note only
        r = 'probe not possible: ' + type(e).__name__
    return ('outside the model: override_asset("pa", "pa:templates/") is accepted; resource_exists("pa", "a.pt") afterwards -> %s '
            '(the source looks itself up through its own overrides)' % r)


def run_case(case, realm):
    try:
        return impl_serve(case, realm) if case['op'] == 'serve' else impl_spec(case, realm)
    except RecursionError:
        return {'error': 'RecursionError'}
    except Exception as e:      # noqa — the tree under test may be broken in ways the harness did not foresee
        return {'error': 'unexpected ' + type(e).__name__}


def evaluate(case, realm, mo):
    got = run_case(case, realm)
    if case['op'] == 'serve':
        return check_serve(case, got, mo) + (got,)
    m, v = check_spec(case, got, mo)
    return m, v, {'hits': 0, 'fell': False}, got


def shrink_case(case, realm, want_finding=None):
    def fails(c):
        try:
            if not isinstance(c, dict) or c.get('op') != case['op']:
                return False
            if c['op'] == 'serve':
                if set(c.get('tree', {})) != set(case['tree']) or not c.get('queries'):
                    return False
                if any(not (isinstance(q, list) and len(q) == 2 and q[0] in PKGS) for q in c['queries']):
                    return False
                if c['mode'] == 'app' and any(not (isinstance(d, list) and len(d) == 2) for b in c['batches'] for d in b):
                    return False
                if c['mode'] == 'po' and any(not (isinstance(d, list) and len(d) == 2 and isinstance(d[1], list) and len(d[1]) == (3 if d[1][:1] == ['pkg'] else 2) and d[1][0] in ('pkg', 'fs')) for d in c['inserts']):
                    return False
                if clean_tree(c['tree']) != c['tree']:
                    return False
                specs = [s for b in c['batches'] for d in b for s in d] if c['mode'] == 'app' else []
                if any(not isinstance(s, str) or not (s.startswith('/T/') or (not s.startswith('/') and s.split(':', 1)[0] in PKGS + [NOPKG]))
                       for s in specs):
                    return False
                if c['mode'] == 'po' and any((d[1][0] == 'fs' and not d[1][1].startswith('/T/')) or (d[1][0] == 'pkg' and d[1][1] not in PKGS)
                                             for d in c['inserts']):
                    return False
                if c['mode'] == 'po' and c.get('pkg') not in PKGS:
                    return False
            _, v, _, _ = evaluate(c, realm, None)
            return bool(v) and v.get('finding') == want_finding
        except Exception:
            return False
    return vfutil.shrink(case, fails, max_steps=400)


def run(ctx):
    rng = ctx.rng
    realm = Realm()
    try:
        trees = [gen_tree(rng) for _ in range(ctx.n(24, 120))]
        cases = [c for _, c in ctx.corpus()]
        ncorpus = len(cases)
        n_serve, n_spec = ctx.n(1300, 14000), ctx.n(500, 5000)
        for i in range(n_serve):
            cases.append(gen_serve(rng, trees, big=(i % 25 == 0)))
        for i in range(ctx.n(6, 40)):
            cases.append(fs_escape_case(rng, trees))
        for i in range(n_spec):
            cases.append(gen_spec(rng, trees))
        model = ctx.run_model([model_case(c) for c in cases]) if ctx.driver_path else [None] * len(cases)
        mism, viol, agree = [], [], 0
        seen, nontriv = set(), set()
        dist = {'mode': {}, 'declarations': {}, 'commits': {}, 'outcome': {}, 'max_matching_declarations': {}, 'fell_through': 0,
                'queries': 0, 'served_from': {'override': 0, 'package': 0}, 'static_view_requests': 0, 'spec_cases': 0,
                'queries_with_override_utility': 0}
        for case, mo in zip(cases, model):
            m, v, info, got = evaluate(case, realm, mo)
            if m:
                mism.append(m)
            elif mo is not None:
                agree += 1
            if v:
                viol.append(v)
            key = json.dumps(case, sort_keys=True)
            if case['op'] == 'spec':
                dist['spec_cases'] += 1
                continue
            vfutil.bump(dist['mode'], case['mode'])
            nd = sum(len(b) for b in case['batches']) if case['mode'] == 'app' else len(case['inserts'])
            vfutil.bump(dist['declarations'], min(nd, 8))
            if case['mode'] == 'app':
                vfutil.bump(dist['commits'], len(case['batches']))
            vfutil.bump(dist['outcome'], 'fail:%s:%s' % (got['fail'][0], got['fail'][2]) if 'fail' in got else 'served')
            vfutil.bump(dist['max_matching_declarations'], min(info['hits'], 4))
            if info['fell']:
                dist['fell_through'] += 1
            if 'q' in got:
                dist['queries'] += len(got['q'])
                for (pkg, name), g in zip(case['queries'], got['q']):
                    own = g['p']['fn'][0] == 'ok' and norm_key(g['p']['fn'][1]) == norm_key('/T/' + pkg + '/' + name)
                    dist['served_from']['package' if own else 'override'] += 1
                    if g['o'] is not None:
                        dist['queries_with_override_utility'] += 1
                dist['static_view_requests'] += len(got.get('static', {}))
            if key not in seen:
                seen.add(key)
                if info['hits'] >= 2 or info['fell']:
                    nontriv.add(key)
        # shrink what is reported
        out_v = []
        for v in viol[:3]:
            v = dict(v)
            v['case'] = shrink_case(v['case'], realm, v.get('finding'))
            out_v.append(v)
        out_v += viol[3:40]
        notes = [self_override_probe(realm, trees[0])]
        return {'evaluations': len(cases), 'distinct_nontrivial': len(nontriv), 'rule': RULE, 'agreeing': agree,
                'samples': [c for c in cases[ncorpus:ncorpus + 2]] + cases[-2:], 'mismatches': mism[:20], 'violations': out_v,
                'distribution': dist, 'notes': notes,
                'assumptions': ['a package used as an override SOURCE has no overrides of its own in the same registry (chained '
                                'overrides are outside the model)',
                                'resource names have no `.`/`..` segments, no backslash; pkg_resources\' DefaultProvider and the OS '
                                'file API are trusted (the harness tree is the world of the model)',
                                'FileNotFoundError and NotADirectoryError are one outcome (a path through a regular file)'],
                'trusted_base': ['pkg_resources (setuptools) provider machinery: get_provider, _fn, DefaultProvider',
                                 'extract/x04.py probe tables (rebuilt on every run from the tree under test)']}
    finally:
        realm.close()


def search(ctx):
    """implementation-only small-scope search (after a break): one fixed world; every ordered pair of declarations from a
    set of 10 (directory / file / package-wide; package and absolute sources) and every single declaration, in both modes,
    against 16 names — the oracle only"""
    realm = Realm()
    try:
        tree = clean_tree({'pa': ['a.pt', 'templates/a.pt', 'templates/b.pt', 'templates2/a.pt', 'static/x.css', 'templates/sub/c.pt'],
                           'pb': ['tpl/a.pt', 'tpl/x.pt', 'tpl2/a.pt', 'a.pt', 'static/x.css', 'tpl/sub/c.pt'],
                           'pc': ['tpl/a.pt', 'tpl/b.pt', 'a.pt', 'templates2/a.pt'],
                           'fs1': ['tpl/a.pt', 'tpl/b.pt', 'a.pt'], 'fs2': ['secret.txt']})
        decls = [['pa:templates/', 'pb:tpl/'], ['pa:templates/', 'pc:tpl/'], ['pa:templates/', '/T/fs1/tpl'], ['pa', 'pb'], ['pa:', 'pc:'],
                 ['pa:templates/a.pt', 'pb:tpl/x.pt'], ['pa:templates/a.pt', '/T/fs1/a.pt'], ['pa:templates/sub/', 'pb:tpl/sub/'],
                 ['pa:a.pt', 'pc:a.pt'], ['pa:static/', 'pb:static/'], ['pa:templates/', 'pb:tpl2/']]
        names = ['templates/a.pt', 'templates/b.pt', 'templates/x.pt', 'templates2/a.pt', 'templates/', 'templates', 'a.pt', 'static/x.css',
                 'templates/sub/c.pt', 'templates/sub/', 'zz', '', 'tpl/a.pt', 'templates/zz', 'templates2/', 'static/']
        queries = [['pa', n] for n in names]
        combos = [[d] for d in decls] + [[a, b] for a in decls for b in decls if a != b]
        if ctx.tier == 'thorough':
            combos += [[a, b, c] for a in decls[:7] for b in decls[:7] for c in decls[:7] if len({json.dumps(x) for x in (a, b, c)}) == 3]
        viol, n = [], 0
        todo = [{'op': 'serve', 'tree': tree, 'mode': 'app', 'batches': [c], 'static': len(c) == 1, 'queries': queries} for c in combos]
        todo += [{'op': 'serve', 'tree': tree, 'mode': 'app', 'batches': [[d] for d in c], 'static': False, 'queries': queries}
                 for c in combos if len(c) == 2]
        todo += [c for _, c in ctx.corpus()]
        trees = [gen_tree(ctx.rng) for _ in range(30)]
        todo += [gen_serve(ctx.rng, trees) for _ in range(ctx.n(1500, 8000))] + [gen_spec(ctx.rng, trees) for _ in range(600)]
        for case in todo:
            n += 1
            _, v, _, _ = evaluate(case, realm, None)
            if v and not v.get('finding'):
                v = dict(v); v['case'] = shrink_case(v['case'], realm); viol.append(v)
                if len(viol) >= 3:
                    break
            if ctx.time_left() < 30:
                break
        return {'violations': viol, 'searched': n, 'exhaustive': False,
                'scope': 'all single and ordered pairs of 11 declarations x 16 names on one world (one commit and one commit each), corpus, random stream'}
    finally:
        realm.close()


def replay(ctx, rep):
    case = rep.get('case')
    if case is None:
        return {'violates': False, 'note': 'replay names broken obligations only', 'broken': rep.get('broken_obligations')}
    realm = Realm()
    try:
        mo = ctx.run_model([model_case(case)])[0] if ctx.driver_path else None
        m, v, info, got = evaluate(case, realm, mo)
        return {'case': case, 'impl': got, 'model': mo, 'spec': oracle_serve(case) if case['op'] == 'serve' else None,
                'mismatch': m, 'violation': v, 'violates': bool(v)}
    finally:
        realm.close()
