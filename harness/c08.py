"""C08 — application behaviour is independent of configuration statement order / nesting.

Three things are checked for every generated program (a conflict-free list of configuration statements):

1. METAMORPHIC PROPERTY ORACLE (independent of the Lean build).  The program is built k x m times on the real
   `Configurator` — k shuffles of the statement list that respect only the documented order-sensitive pairs
   (route vs route, subscriber vs subscriber, unconstrained tween vs tween) x m ways of distributing the
   statements over nested `Configurator.include` callables — and every variant must answer the probe requests
   (every registered view incl. ones that need later-declared routes / predicates / renderers / policy /
   permission, 404, 403) with identical (status, selected headers, body) through `Router.__call__`
   (`Request.get_response(app)`).  A configuration-time error counts as an answer too.
2. CORRESPONDENCE OF THE EXECUTION ORDER: the sequence of executed actions (observed by a logging subclass of
   Configurator) must be the model's: stable sort by (phase from Gen/C08Phases.lean, declaration index), for every
   variant; the `order=` every action was registered with must be the generated table's phase of its call site.
3. CORRESPONDENCE OF THE FOOTPRINT TABLE (lean/PyramidModel/ConfigFootprints.lean, printed by the driver): a
   recording wrapper around the real registry logs every queryUtility / getUtility / registerUtility /
   registerAdapter / registerHandler / adapters.registered / adapters.unregister … and every in-place change of a
   registered container object during each action callable (and during the evaluation of a Deferred
   discriminator); observed reads must be inside declared reads ∪ writes, observed writes inside declared writes;
   registry traffic at *declaration* time must stay inside the allow-list ``EAGER_OK``.

Known findings (recorded, narrow structural classifiers + confirmation by re-running a repaired variant):
F-C08a two same-slot views with equal predicate order that both hold: the later declared one answers;
F-C08b two view derivers without a mutual under/over constraint nest in declaration order;
F-C08c two view predicates without a mutual weighs_* constraint get their weight and evaluation order from
       declaration order, which decides between same-slot views using one of them each (and which failing predicate a
       404 names).
"""
import atexit, itertools, json, os, shutil, sys, tempfile, warnings

import vfutil

warnings.filterwarnings('ignore')

RULE = ('a program = 3..14 conflict-free configuration statements over routes, views, view/route predicates, view '
        'derivers, renderers, security policy, default permission, CSRF options, root/session/request factories, '
        'request methods, notfound/forbidden/exception views, static views (+ subscribers, tweens, a few others); '
        'each built in k shuffles x m include trees on the real Configurator and probed through the Router.  '
        'Non-trivial: some statement refers to something declared LATER in at least one variant (route, predicate, '
        'deriver option, renderer, policy, permission, csrf options, factory, request method) AND at least two '
        'variants differ in declaration order.  distinct = distinct canonical statement list')

MOD = sys.modules[__name__]

# ------------------------------------------------------------------------------------------------
# vocabulary of the generated applications (module level: dotted names must resolve, workers fork)


class Root1:
    def __init__(self, request=None):
        self.kids = {'a': CtxA(), 'b': CtxB()}

    def __getitem__(self, k):
        return self.kids[k]


class Root2(Root1):
    pass


class CtxA:
    def __getitem__(self, k):
        raise KeyError(k)


class CtxB(CtxA):
    pass


class ErrA(Exception):
    pass


class ErrB(ErrA):
    pass


ROOTS = {'Root1': Root1, 'Root2': Root2}
CONTEXTS = {'CtxA': CtxA, 'CtxB': CtxB, 'Root1': Root1, 'Root2': Root2, 'ErrA': ErrA, 'ErrB': ErrB}
RM_NAMES = ['rm1', 'rm2']


class Sess(dict):
    tag = 's1'

    def __init__(self, request):
        dict.__init__(self)

    def get_csrf_token(self):
        return 'tok-' + self.tag

    def new_csrf_token(self):
        return 'tok-' + self.tag

    def flash(self, *a, **k):
        pass

    def changed(self):
        pass

    def invalidate(self):
        pass


class Sess2(Sess):
    tag = 's2'


SESSIONS = {'s1': Sess, 's2': Sess2}


def _mk_request_factory(tag, defines=()):
    """a Request subclass; `defines` = [[name, kind]…]: attributes the class provides NATIVELY under the names that
    add_request_method statements use (kind: attr = plain class attribute, method, property)"""
    from pyramid.request import Request

    ns = {}
    for name, kind in defines:
        val = 'native-%s-%s' % (tag, name)
        if kind == 'method':
            ns[name] = (lambda v: (lambda self: v))(val)
        elif kind == 'property':
            ns[name] = property((lambda v: (lambda self: v))(val))
        else:
            ns[name] = val
    cls = type('Req_' + tag, (Request,), ns)
    return cls


_REQF = {}


def request_factory(tag, defines=()):
    k = (tag, tuple(tuple(d) for d in defines))
    if k not in _REQF:
        _REQF[k] = _mk_request_factory(tag, k[1])
    return _REQF[k]


def describe(request, context):
    """everything a view can observe of the configuration, as text"""
    parts = []
    try:
        parts.append('root=' + type(request.root).__name__)
    except Exception as e:
        parts.append('root!' + type(e).__name__)
    parts.append('ctx=' + type(context).__name__)
    md = getattr(request, 'matchdict', None)
    if md is not None:
        parts.append('md=' + ','.join('%s:%s' % (k, md[k]) for k in sorted(md)))
    mr = getattr(request, 'matched_route', None)
    if mr is not None:
        parts.append('route=' + mr.name)
    parts.append('req=' + type(request).__name__)
    for n in RM_NAMES:
        try:
            v = getattr(request, n, None)
            if v is not None:
                parts.append('%s=%s' % (n, v() if callable(v) else v))
        except Exception as e:
            parts.append('%s!%s' % (n, type(e).__name__))
    try:
        parts.append('sess=' + request.session.tag)
    except Exception as e:
        parts.append('sess!' + type(e).__name__)
    try:
        parts.append('ident=%s' % (request.identity,))
    except Exception as e:
        parts.append('ident!' + type(e).__name__)
    return ';'.join(parts)


class _ClassView:
    """class-based view whose method names coincide with request-method extension names (`attr='rm1'`)"""
    tag = '?'

    def __init__(self, context, request):
        self.context, self.request = context, request

    def _resp(self, via):
        from pyramid.response import Response
        return Response('view=%s;via=%s;%s' % (self.tag, via, describe(self.request, self.context)))

    def __call__(self):
        return self._resp('call')

    def rm1(self):
        return self._resp('rm1')

    def rm2(self):
        return self._resp('rm2')


def make_view(tag, mode):
    from pyramid.response import Response
    from pyramid.httpexceptions import HTTPForbidden, HTTPNotFound
    if mode == 'class':
        return type('view_' + tag, (_ClassView,), {'tag': tag})

    def view(context, request):
        if mode == 'raiseA':
            raise ErrA(tag)
        if mode == 'raiseB':
            raise ErrB(tag)
        if mode == 'forbid':
            raise HTTPForbidden('no-' + tag)
        if mode == 'notfound':
            raise HTTPNotFound('nf-' + tag)
        if mode == 'urls':
            # the URLs the application generates for assets under nested specs: shows which cache buster was applied
            outs = []
            for a in ('vfc08_pa:static/css/site.css', 'vfc08_pa:static/js/app.js', 'vfc08_pa:static/f.txt', 'vfc08_pb:static/css/site.css'):
                for fn in ('static_url', 'static_path'):
                    try:
                        outs.append(getattr(request, fn)(a))
                    except Exception as e:
                        outs.append('%s!%s' % (fn, type(e).__name__))
            return Response('view=%s;urls=%s' % (tag, ' '.join(outs)))
        text = 'view=%s;%s' % (tag, describe(request, context))
        if mode == 'dict':
            return {'t': text}
        if mode == 'strresp':
            return StrResp(text)                 # needs add_response_adapter(…, StrResp)
        r = Response(text)
        if mode == 'exc':
            r.status_int = 500 if not hasattr(context, 'code') else getattr(context, 'code', 500)
            r.text = text + ';exc=%s:%s' % (type(context).__name__, ' '.join(str(context).split())[:80])
        return r
    view.__name__ = 'view_' + tag
    return view


class RendF:
    """renderer factory"""

    def __init__(self, tag):
        self.tag = tag

    def __call__(self, info):
        tag = self.tag

        def render(value, system):
            return 'rend=%s(%s)' % (tag, value.get('t') if isinstance(value, dict) else value)
        return render


class Policy:
    def __init__(self, tag, allowed):
        self.tag, self.allowed = tag, tuple(allowed)

    def identity(self, request):
        return request.headers.get('X-User')

    def authenticated_userid(self, request):
        return request.headers.get('X-User')

    def permits(self, request, context, permission):
        from pyramid.security import Allowed, Denied
        if permission in self.allowed:
            return Allowed('%s allows %s' % (self.tag, permission))
        return Denied('%s denies %s' % (self.tag, permission))

    def remember(self, request, userid, **kw):
        return []

    def forget(self, request, **kw):
        return []


class CsrfStore:
    def __init__(self, tag):
        self.tag = tag

    def new_csrf_token(self, request):
        return 'store-' + self.tag

    def get_csrf_token(self, request):
        return 'store-' + self.tag

    def check_csrf_token(self, request, token):
        return token == 'store-' + self.tag


def make_pred_factory(name, prefix='X-P-'):
    """custom view / route / subscriber predicate: holds when header X-P-<name> equals the configured value
    (the 'old' variant, used for a registration that a later commit replaces, looks at X-Q-<name>)"""
    class Pred:
        def __init__(self, val, info):
            self.val = val

        def text(self):
            return '%s = %s' % (name, self.val)
        phash = text

        def __call__(self, *args):
            request = args[-1] if not isinstance(args[-1], dict) else None
            if request is None:
                return True
            if hasattr(request, 'headers'):
                return request.headers.get(prefix + name) == str(self.val)
            req = getattr(request, 'request', None)      # subscriber predicate: event
            return True if req is None else req.headers.get(prefix + name) == str(self.val)
    Pred.__name__ = 'Pred_' + name
    return Pred


_PREDF = {}


def pred_factory(name, variant=None):
    k = (name, variant)
    if k not in _PREDF:
        _PREDF[k] = make_pred_factory(name, 'X-Q-' if variant == 'old' else 'X-P-')
    return _PREDF[k]


def make_deriver(tag, label=None):
    label = label or tag

    def deriver(view, info):
        val = info.options.get('opt_' + tag)

        def wrapped(context, request):
            resp = view(context, request)
            try:
                resp.text = resp.text + '[%s:%s]' % (label, val)
            except Exception:
                pass
            return resp
        return wrapped
    deriver.options = ('opt_' + tag,)
    deriver.__name__ = 'drv_' + tag
    return deriver


_DRV = {}


def deriver(tag, variant=None):
    k = (tag, variant)
    if k not in _DRV:
        _DRV[k] = make_deriver(tag, tag + 'old' if variant == 'old' else tag)
    return _DRV[k]


def _tween(tag):
    def factory(handler, registry):
        def tween(request):
            resp = handler(request)
            resp.headers['X-Tw'] = resp.headers.get('X-Tw', '') + tag
            return resp
        return tween
    factory.__name__ = 'tween_' + tag
    return factory


tween_ta = _tween('ta')
tween_tb = _tween('tb')
tween_tc = _tween('tc')


def _subscriber(tag):
    def sub(event):
        try:
            event.response.headers['X-Sub'] = event.response.headers.get('X-Sub', '') + tag
        except Exception:
            pass
    sub.__name__ = 'sub_' + tag
    return sub


_SUBS = {}


def subscriber(tag):
    if tag not in _SUBS:
        _SUBS[tag] = _subscriber(tag)
    return _SUBS[tag]


class StrResp(str):
    pass


def str_adapter(s):
    from pyramid.response import Response
    return Response('adapted:' + s)


def view_mapper_factory(tag):
    class Mapper:
        def __init__(self, **kw):
            self.attr = kw.get('attr')

        def __call__(self, view):
            def mapped(context, request):
                r = view(context, request)
                try:
                    r.headers['X-Mapper'] = tag
                except Exception:
                    pass
                return r
            return mapped
    Mapper.__name__ = 'Mapper_' + tag
    return Mapper


_MAPPERS = {}


def mapper(tag):
    if tag not in _MAPPERS:
        _MAPPERS[tag] = view_mapper_factory(tag)
    return _MAPPERS[tag]


def locale_negotiator(request):
    return 'xx'


def exec_policy(environ, router):
    from pyramid.router import default_execution_policy
    resp = default_execution_policy(environ, router)
    resp.headers['X-Exec'] = 'ep'
    return resp


class Traverser:
    def __init__(self, root):
        self.root = root

    def __call__(self, request):
        from pyramid.traversal import ResourceTreeTraverser
        r = ResourceTreeTraverser(self.root)(request)
        return r


class ResUrl:
    def __init__(self, resource, request):
        self.virtual_path = '/vp'
        self.physical_path = '/pp'
        self.virtual_path_tuple = ('', 'vp')
        self.physical_path_tuple = ('', 'pp')


_STATIC_DIR = [None]


def static_dir():
    if _STATIC_DIR[0] is None or not os.path.isdir(_STATIC_DIR[0]):
        d = tempfile.mkdtemp(prefix='vf_c08_')
        with open(os.path.join(d, 'f.txt'), 'w') as f:
            f.write('static-file-content\n')
        os.mkdir(os.path.join(d, 'locale'))
        _STATIC_DIR[0] = d
        pid = os.getpid()

        def _rm(d=d, pid=pid):
            if os.getpid() == pid:
                shutil.rmtree(d, ignore_errors=True)
        atexit.register(_rm)
    return _STATIC_DIR[0]


PKGS = {'pa': 'vfc08_pa', 'pb': 'vfc08_pb'}     # statement field "pkg" -> importable package name


def ensure_packages():
    """two real packages on disk (under the harness's tempfile directory, removed with it) whose includeme
    callables give nested configurators a different `.package`: each has templates/page.txt, static/f.txt, locale/
    and views.py — the SAME relative names in both, different content"""
    root = os.path.join(static_dir(), 'pkgs')
    if not os.path.isdir(root):
        for key, name in PKGS.items():
            d = os.path.join(root, name)
            os.makedirs(os.path.join(d, 'templates'))
            os.makedirs(os.path.join(d, 'static'))
            os.makedirs(os.path.join(d, 'locale'))
            open(os.path.join(d, 'templates', 'page.txt'), 'w').write('page-of-%s' % key)
            open(os.path.join(d, 'static', 'f.txt'), 'w').write('static-of-%s\n' % key)
            for sub, fn in (('css', 'site.css'), ('js', 'app.js')):
                os.makedirs(os.path.join(d, 'static', sub))
                open(os.path.join(d, 'static', sub, fn), 'w').write('%s-of-%s\n' % (fn, key))
            open(os.path.join(d, '__init__.py'), 'w').write('')
            open(os.path.join(d, 'views.py'), 'w').write(
                'from pyramid.response import Response\n\n\n'
                'def v1(context, request):\n    return Response("dotted-view-of-%s")\n' % key)
    if root not in sys.path:
        sys.path.insert(0, root)
    import importlib
    importlib.invalidate_caches()
    for name in PKGS.values():
        m = sys.modules.get(name)
        if m is None or not os.path.isdir(os.path.dirname(getattr(m, '__file__', '') or '/nonexistent/x')):
            sys.modules.pop(name, None)
            sys.modules.pop(name + '.views', None)
            importlib.import_module(name)
    return root


class AssetRendF:
    """what a template renderer factory does: resolve the (possibly RELATIVE) spec `info.name` against
    `info.package` — the package of the configurator whose statement named the renderer"""

    def __init__(self, tag):
        self.tag = tag

    def __call__(self, info):
        from pyramid.path import AssetResolver
        tag = self.tag
        pkg = getattr(info.package, '__name__', str(info.package))
        try:
            text = AssetResolver(info.package).resolve(info.name).stream().read().decode('utf-8')
        except Exception as e:
            text = 'unresolved:' + type(e).__name__

        def render(value, system):
            return 'asset=%s[%s|%s|%s](%s)' % (tag, pkg, info.name, text, value.get('t') if isinstance(value, dict) else value)
        return render


# ------------------------------------------------------------------------------------------------
# recording registry + logging configurator (the real classes, only instrumented)

UTIL_FAM = {
    'IViewDerivers': 'viewDerivers', 'IRendererFactory': 'rendererFactory', 'ISecurityPolicy': 'securityPolicy',
    'IAuthenticationPolicy': 'authnPolicy', 'IAuthorizationPolicy': 'authzPolicy',
    'IDefaultPermission': 'defaultPermission', 'IDefaultCSRFOptions': 'defaultCSRFOptions',
    'ICSRFStoragePolicy': 'csrfStoragePolicy', 'IAcceptOrder': 'acceptOrder', 'IRouteRequest': 'routeRequest',
    'IRoutesMapper': 'routesMapper', 'IRootFactory': 'rootFactory', 'IDefaultRootFactory': 'rootFactory', 'ISessionFactory': 'sessionFactory',
    'IRequestFactory': 'requestFactory', 'IResponseFactory': 'responseFactory',
    'IRequestExtensions': 'requestExtensions', 'IExecutionPolicy': 'executionPolicy',
    'ILocaleNegotiator': 'localeNegotiator', 'ITranslationDirectories': 'translationDirs',
    'IViewMapperFactory': 'viewMapper', 'ITweens': 'tweens', 'IStaticURLInfo': 'staticInfo',
    'IPackageOverrides': 'assetOverrides', 'ISettings': 'settings', 'IDebugLogger': 'debugLogger',
}
ADAPTER_FAM = {'IView': 'viewSlot', 'ISecuredView': 'viewSlot', 'IMultiView': 'viewSlot', 'IResponse': 'responseAdapter',
               'ITraverser': 'traverser', 'IResourceURL': 'resourceUrl'}


def _iname(i):
    return getattr(i, '__name__', None) or repr(i)


def _qname(i):
    """interfaces by bare name, classes (implementedBy specs) by module-qualified name"""
    from zope.interface.interfaces import IInterface
    if IInterface.providedBy(i):
        return i.__name__
    inh = getattr(i, 'inherit', None)
    if inh is not None:
        i = inh
    return '%s.%s' % (getattr(i, '__module__', '?'), getattr(i, '__name__', repr(i)))


def util_slot(provided, name):
    n = _iname(provided)
    if n == 'IPredicateList':
        return ('predList' + str(name).capitalize(), '')
    fam = UTIL_FAM.get(n, 'other:' + n)
    key = str(name) if fam in ('rendererFactory', 'routeRequest', 'assetOverrides') else ''
    return (fam, key)


def adapter_slot(required, provided, name):
    n = _iname(provided)
    fam = ADAPTER_FAM.get(n, 'other:' + n)
    if fam == 'viewSlot':
        return (fam, '%s|%s' % (','.join('Interface' if r is None else _qname(r) for r in required), name))
    return (fam, ','.join(_iname(r) for r in required))


def fingerprint(obj):
    """cheap content digest of the mutable container objects pyramid keeps as utilities (None = not tracked)"""
    n = type(obj).__name__
    try:
        if n == 'PredicateList':
            return (tuple(obj.sorter.names), repr(sorted(obj.sorter.order)))
        if n == 'TopologicalSorter':
            return (tuple(obj.names), repr(sorted(obj.order)))
        if n == 'Tweens':
            return (tuple(obj.sorter.names), repr(sorted(obj.sorter.order)), repr([x[0] for x in obj.explicit]))
        if n == 'RoutesMapper':
            return (tuple(r.name for r in obj.routelist), tuple(sorted(obj.static_routes)), tuple(sorted(obj.routes)))
        if n == '_RequestExtensions':
            return (tuple(sorted(obj.methods)), tuple(sorted(obj.descriptors)))
        if n == 'StaticURLInfo':
            return {'staticRegistrations': repr(obj.registrations), 'cacheBusters': repr([(a, c) for a, b, c in obj.cache_busters])}
        if n == 'list':
            return tuple(obj)
    except Exception:
        return ('?',)
    return None


def _is_empty_container(obj):
    n = type(obj).__name__
    try:
        if n == 'PredicateList':
            return not obj.sorter.names
        if n == 'TopologicalSorter':
            return not obj.names
        if n == '_RequestExtensions':
            return not obj.methods and not obj.descriptors
        if n == 'RoutesMapper':
            return not obj.routelist and not obj.routes
        if n == 'Tweens':
            return not obj.sorter.names and not obj.explicit
        if n == 'StaticURLInfo':
            return not obj.registrations and not obj.cache_busters
    except Exception:
        return False
    return False


class Recorder:
    def __init__(self):
        self.enabled = True
        self.stack = []            # current attribution
        self.stmt = None           # statement being declared
        self.actions = []          # declared actions: dict(seq, stmt, file, line, func, order, disc, deferred, has_callable)
        self.exec_log = []         # seq numbers in execution order
        self.events = {}           # attribution -> set of (mode, fam, key)
        self.snap = None

    def note(self, mode, slot):
        if not self.enabled:
            return
        who = self.stack[-1] if self.stack else (('decl', self.stmt) if self.stmt is not None else None)
        if who is None:
            return
        self.events.setdefault(who, set()).add((mode,) + tuple(slot))


def make_registry(name='vf_c08'):
    from pyramid.registry import Registry

    class AdaptersProxy:
        def __init__(self, real, rec):
            self.__dict__['_real'] = real
            self.__dict__['_rec'] = rec

        def __getattr__(self, k):
            return getattr(self._real, k)

        def __setattr__(self, k, v):
            setattr(self._real, k, v)

        def registered(self, required, provided, name=''):
            self._rec.note('R', adapter_slot(required, provided, name))
            return self._real.registered(required, provided, name)

        def unregister(self, required, provided, name='', value=None):
            self._rec.note('W', adapter_slot(required, provided, name))
            return self._real.unregister(required, provided, name, value)

        def lookup(self, required, provided, name='', default=None):
            self._rec.note('R', adapter_slot(required, provided, name))
            return self._real.lookup(required, provided, name, default)

    class RecRegistry(Registry):
        def queryUtility(self, provided, name='', default=None):
            self._vf_rec.note('R', util_slot(provided, name))
            return Registry.queryUtility(self, provided, name, default)

        def getUtility(self, provided, name=''):
            self._vf_rec.note('R', util_slot(provided, name))
            return Registry.getUtility(self, provided, name)

        def registerUtility(self, component=None, provided=None, name='', *a, **kw):
            if provided is None:
                from zope.interface import providedBy
                ps = list(providedBy(component))
                p = ps[0] if ps else None
            else:
                p = provided
            mode = 'W'
            if _is_empty_container(component) and Registry.queryUtility(self, p, name) is None:
                mode = 'C'          # get-or-create of an empty container
            self._vf_rec.note(mode, util_slot(p, name))
            return Registry.registerUtility(self, component, provided, name, *a, **kw)

        def unregisterUtility(self, component=None, provided=None, name='', *a, **kw):
            self._vf_rec.note('W', util_slot(provided, name))
            return Registry.unregisterUtility(self, component, provided, name, *a, **kw)

        def registerAdapter(self, factory, required=None, provided=None, name='', *a, **kw):
            from zope.interface import implementedBy
            from zope.interface.interfaces import IInterface
            req = tuple(r if IInterface.providedBy(r) or r is None else implementedBy(r) for r in (required or ()))
            self._vf_rec.note('W', adapter_slot(req, provided, name))
            return Registry.registerAdapter(self, factory, required, provided, name, *a, **kw)

        def registerHandler(self, *arg, **kw):
            self._vf_rec.note('W', ('subscribers', ''))
            return Registry.registerHandler(self, *arg, **kw)

        def registerSubscriptionAdapter(self, *arg, **kw):
            self._vf_rec.note('W', ('subscribers', ''))
            return Registry.registerSubscriptionAdapter(self, *arg, **kw)

        def queryAdapter(self, obj, interface, name='', default=None):
            self._vf_rec.note('R', (ADAPTER_FAM.get(_iname(interface), 'other:' + _iname(interface)), '?'))
            return Registry.queryAdapter(self, obj, interface, name, default)

        def queryMultiAdapter(self, objects, interface, name='', default=None):
            self._vf_rec.note('R', (ADAPTER_FAM.get(_iname(interface), 'other:' + _iname(interface)), '?'))
            return Registry.queryMultiAdapter(self, objects, interface, name, default)

    reg = RecRegistry(name)
    rec = Recorder()
    reg.__dict__['_vf_rec'] = rec
    real = reg.adapters
    reg.adapters = AdaptersProxy(real, rec)
    return reg, rec


def snapshot(reg):
    out = {}
    for u in reg.registeredUtilities():
        fp = fingerprint(u.component)
        if isinstance(fp, dict):
            for fam, v in fp.items():
                out[(fam, '')] = v
        elif fp is not None:
            out[util_slot(u.provided, u.name)] = fp
    return out


def make_configurator_class():
    from pyramid.config import Configurator
    from pyramid.registry import Deferred

    class LogConfigurator(Configurator):
        def action(self, discriminator, callable=None, args=(), kw=None, order=0, introspectables=(), **extra):
            rec = self.registry.__dict__.get('_vf_rec')
            if rec is None or not rec.enabled or self.autocommit:
                return Configurator.action(self, discriminator, callable, args, kw, order, introspectables, **extra)
            f = sys._getframe(1)
            seq = len(rec.actions)
            deferred = isinstance(discriminator, Deferred)
            rec.actions.append({'seq': seq, 'stmt': rec.stmt, 'file': os.path.basename(f.f_code.co_filename)[:-3],
                                'line': f.f_lineno, 'func': f.f_code.co_name, 'order': order,
                                'disc': None if deferred else discriminator, 'deferred': deferred,
                                'has_callable': callable is not None, 'path': list(self.includepath)})
            reg = self.registry
            orig = callable

            def logged(*a, **k):
                rec.exec_log.append(seq)
                rec.stack.append(('act', seq))
                before = snapshot(reg)
                try:
                    if orig is not None:
                        return orig(*a, **k)
                finally:
                    after = snapshot(reg)
                    for s, fp in after.items():
                        if s in before and before[s] != fp:       # (a container registered meanwhile was logged by registerUtility)
                            rec.note('W', s)
                    rec.stack.pop()
            if deferred and hasattr(discriminator, 'func'):
                dfunc = discriminator.func

                def logged_disc():
                    rec.stack.append(('disc', seq))
                    try:
                        v = dfunc()
                        rec.actions[seq]['disc'] = v
                        try:        # view_intr['order'], written by discrim_func (views.py: predlist.make)
                            rec.actions[seq]['vorder'] = [i for i in introspectables if 'order' in i][0]['order']
                        except Exception:
                            pass
                        return v
                    finally:
                        rec.stack.pop()
                discriminator.func = logged_disc
            return Configurator.action(self, discriminator, logged, args, kw, order, introspectables, **extra)
    return LogConfigurator


_CFG_CLASS = [None]


def configurator_class():
    if _CFG_CLASS[0] is None:
        _CFG_CLASS[0] = make_configurator_class()
    return _CFG_CLASS[0]


# ------------------------------------------------------------------------------------------------
# statements

def _view_kwargs(st):
    kw = {}
    for k in ('name', 'route_name', 'renderer', 'permission', 'request_method', 'header', 'request_param', 'xhr',
              'require_csrf', 'http_cache', 'accept', 'wrapper', 'attr'):
        if st.get(k) is not None:
            kw[k] = st[k]
    if st.get('context'):
        kw['context'] = CONTEXTS[st['context']]
    for k, v in (st.get('custom') or {}).items():          # custom view predicates  name -> value
        kw[k] = v
    for k, v in (st.get('dopts') or {}).items():           # deriver options          opt_<tag> -> value
        kw[k] = v
    if st.get('mapper'):
        kw['mapper'] = mapper(st['mapper'])
    return kw


def apply_stmt(config, st):
    op = st['op']
    if op == 'add_route':
        kw = {}
        for k in ('request_method', 'header', 'xhr', 'request_param'):
            if st.get(k) is not None:
                kw[k] = st[k]
        if st.get('factory'):
            kw['factory'] = ROOTS[st['factory']]
        for k, v in (st.get('custom') or {}).items():
            kw[k] = v
        config.add_route(st['name'], st['pattern'], **kw)
    elif op == 'add_view':
        # `dotted`: a dotted name RELATIVE to the configurator's package ('.views.v1')
        config.add_view(st['dotted'] if st.get('dotted') else make_view(st['tag'], st.get('mode', 'plain')), **_view_kwargs(st))
    elif op == 'add_notfound_view':
        kw = _view_kwargs(st)
        if st.get('append_slash'):
            kw['append_slash'] = True
        config.add_notfound_view(make_view(st['tag'], st.get('mode', 'exc')), **kw)
    elif op == 'add_forbidden_view':
        config.add_forbidden_view(make_view(st['tag'], st.get('mode', 'exc')), **_view_kwargs(st))
    elif op == 'add_exception_view':
        config.add_exception_view(make_view(st['tag'], st.get('mode', 'exc')), **_view_kwargs(st))
    elif op == 'add_view_predicate':
        config.add_view_predicate(st['name'], pred_factory(st['name'], st.get('variant')), weighs_more_than=st.get('more'), weighs_less_than=st.get('less'))
    elif op == 'add_route_predicate':
        config.add_route_predicate(st['name'], pred_factory(st['name'], st.get('variant')), weighs_more_than=st.get('more'), weighs_less_than=st.get('less'))
    elif op == 'add_subscriber_predicate':
        config.add_subscriber_predicate(st['name'], pred_factory(st['name']))
    elif op == 'add_view_deriver':
        config.add_view_deriver(deriver(st['tag'], st.get('variant')), name='drv_' + st['tag'], under=st.get('under'), over=st.get('over'))
    elif op == 'add_renderer':
        config.add_renderer(st['name'] or None, (AssetRendF if st.get('kind') == 'asset' else RendF)(st['tag']))  # '' = default renderer
    elif op == 'set_security_policy':
        config.set_security_policy(Policy(st['tag'], st['allowed']))
    elif op == 'set_default_permission':
        config.set_default_permission(st['permission'])
    elif op == 'set_default_csrf_options':
        config.set_default_csrf_options(require_csrf=st.get('require_csrf', True), token=st.get('token', 'csrf_token'),
                                        header=st.get('header', 'X-CSRF-Token'), check_origin=False)
    elif op == 'set_csrf_storage_policy':
        config.set_csrf_storage_policy(CsrfStore(st['tag']))
    elif op == 'set_root_factory':
        config.set_root_factory(ROOTS[st['factory']])
    elif op == 'set_session_factory':
        config.set_session_factory(SESSIONS[st['factory']])
    elif op == 'set_request_factory':
        config.set_request_factory(request_factory(st['tag'], st.get('defines') or ()))
    elif op == 'set_response_factory':
        from pyramid.response import Response
        tag = st['tag']

        def rf(request, tag=tag):
            r = Response()
            r.headers['X-RF'] = tag
            return r
        config.set_response_factory(rf)
    elif op == 'add_request_method':
        tag = st['tag']
        if st.get('property'):
            config.add_request_method(lambda request, tag=tag: 'prop-' + tag, name=st['name'], property=True, reify=bool(st.get('reify')))
        else:
            config.add_request_method(lambda request, tag=tag: 'meth-' + tag, name=st['name'])
    elif op == 'add_static_view':
        kw = {}
        if st.get('cache_max_age') is not None:
            kw['cache_max_age'] = st['cache_max_age']
        if st.get('permission'):
            kw['permission'] = st['permission']
        config.add_static_view(st['name'], st['rel'] if st.get('rel') else static_dir(), **kw)   # rel: package-relative spec
    elif op == 'add_subscriber':
        from pyramid.events import NewResponse
        config.add_subscriber(subscriber(st['tag']), NewResponse, **(st.get('custom') or {}))
    elif op == 'add_tween':
        config.add_tween('%s.tween_%s' % (__name__, st['tag']), under=st.get('under'), over=st.get('over'))
    elif op == 'add_response_adapter':
        config.add_response_adapter(str_adapter, StrResp)
    elif op == 'set_view_mapper':
        config.set_view_mapper(mapper(st['tag']))
    elif op == 'add_accept_view_order':
        config.add_accept_view_order(st['value'], weighs_more_than=st.get('more'), weighs_less_than=st.get('less'))
    elif op == 'add_permission':
        config.add_permission(st['permission'])
    elif op == 'set_locale_negotiator':
        config.set_locale_negotiator(locale_negotiator)
    elif op == 'add_translation_dirs':
        config.add_translation_dirs(st['rel'] if st.get('rel') else os.path.join(static_dir(), 'locale'))
    elif op == 'set_execution_policy':
        config.set_execution_policy(exec_policy)
    elif op == 'add_traverser':
        config.add_traverser(Traverser, CONTEXTS[st['iface']] if st.get('iface') else None)
    elif op == 'add_resource_url_adapter':
        config.add_resource_url_adapter(ResUrl, CONTEXTS[st['iface']] if st.get('iface') else None)
    elif op == 'override_asset':
        config.override_asset('pyramid:static/', 'pyramid:scaffolds/')
    elif op == 'add_cache_buster':
        from pyramid.static import QueryStringConstantCacheBuster
        if st.get('spec'):      # a cache buster on a (possibly nested) asset spec; explicit= both ways
            config.add_cache_buster(st['spec'], QueryStringConstantCacheBuster(st['tag']), explicit=bool(st.get('explicit')))
        else:
            config.add_cache_buster(static_dir(), QueryStringConstantCacheBuster('x'))
    elif op == 'set_authorization_policy':
        from pyramid.authorization import ACLAuthorizationPolicy
        config.set_authorization_policy(ACLAuthorizationPolicy())
    elif op == 'set_authentication_policy':
        from pyramid.authentication import RemoteUserAuthenticationPolicy
        config.set_authentication_policy(RemoteUserAuthenticationPolicy())
    else:
        raise ValueError('unknown statement %r' % (op,))


def flatten(tree):
    for x in tree:
        if isinstance(x, list):
            yield from flatten(x)
        else:
            yield x


_INC_SEQ = [0]


def node_pkg(stmts, node):
    """package of an include node = the `pkg` of its first direct statement that has one"""
    for x in node:
        if not isinstance(x, list) and stmts[x].get('pkg'):
            return stmts[x]['pkg']
    return None


def fix_pkg_tree(stmts, tree, cur=None):
    """same declaration order; every statement with a `pkg` ends up directly inside an include node of that package
    (runs of such statements are wrapped into their own include)"""
    out, i, tree = [], 0, list(tree)
    while i < len(tree):
        x = tree[i]
        if isinstance(x, list):
            out.append(fix_pkg_tree(stmts, x, node_pkg(stmts, x)))
            i += 1
            continue
        p = stmts[x].get('pkg')
        if p and p != cur:
            run = []
            while i < len(tree) and not isinstance(tree[i], list) and stmts[tree[i]].get('pkg') == p:
                run.append(tree[i]); i += 1
            out.append(run)
        else:
            out.append(x); i += 1
    # a node whose first packaged statement differs from `cur` after wrapping cannot occur: wrapped runs are sub-lists
    return out


def declare_tree(config, stmts, tree, rec):
    """issue the statements of `tree` on `config`; a nested list is a real Configurator.include of a
    harness-defined includeme callable that issues its statements (and further includes) from inside"""
    for x in tree:
        if isinstance(x, list):
            _INC_SEQ[0] += 1

            def includeme(c, x=x):
                declare_tree(c, stmts, x, rec)
            includeme.__name__ = includeme.__qualname__ = 'inc_%06d' % _INC_SEQ[0]
            # the includeme belongs to the package of the statements it issues: Configurator.include gives the nested
            # configurator `package_of(inspect.getmodule(includeme))`
            p = node_pkg(stmts, x)
            if p:
                ensure_packages()
            includeme.__module__ = PKGS[p] if p else __name__
            config.include(includeme)
        else:
            rec.stmt = x
            try:
                apply_stmt(config, stmts[x])
            finally:
                rec.stmt = None


import re as _re
_ADDR = _re.compile(r'0x[0-9a-fA-F]+')
_QUOTED = _re.compile(r"'[^']*'")
HDRS = ('Content-Type', 'Location', 'X-Tw', 'X-Sub', 'X-Mapper', 'X-Exec', 'X-RF', 'Cache-Control')


def canon_error(e):
    from pyramid.exceptions import ConfigurationConflictError, ConfigurationExecutionError
    if isinstance(e, ConfigurationExecutionError):
        return 'error:ConfigurationExecutionError:%s' % getattr(e.etype, '__name__', e.etype)
    if isinstance(e, ConfigurationConflictError):
        return 'error:ConfigurationConflictError'
    return 'error:%s' % type(e).__name__


def run_probe(app, pr):
    from pyramid.request import Request
    kw = {}
    if pr.get('method') == 'POST':
        kw['POST'] = pr.get('post') or {}
    req = Request.blank(pr['path'], headers=dict(pr.get('headers') or {}), **kw)
    if pr.get('method') not in (None, 'GET', 'POST'):
        req.method = pr['method']
    try:
        resp = req.get_response(app)
        body = resp.text if resp.charset else resp.body.decode('latin-1')
        return [resp.status_int, {h: resp.headers[h] for h in HDRS if h in resp.headers}, _ADDR.sub('0x', body)]
    except Exception as e:
        # an exception that escapes the application: its type and the SHAPE of its message are the answer; quoted
        # names are blanked, because a request that trips over two defects (two extensions that cannot be set on the
        # request class, …) reports whichever comes first
        return ['raised', type(e).__name__, _QUOTED.sub("'…'", _ADDR.sub('0x', ' '.join(str(e).split())))[:200]]


def build_variant(stmts, tree, probes, record=True, stages=None):
    """one variant on the real code -> dict(config, answers, actions, exec, events).
    `stages`: list of statement-index lists, declared flat with a real `config.commit()` after each (the
    reference build in which everything a statement refers to is already in force when it is declared)"""
    reg, rec = make_registry()
    rec.enabled = record
    Cfg = configurator_class()
    out = {'config': 'ok', 'answers': None}
    try:
        config = Cfg(registry=reg, package=MOD)
        rec.enabled = False
        config.setup_registry()
        rec.enabled = record
        pre = getattr(stmts, 'pre', None) or []
        if pre:                       # statement set 1, committed before the program proper
            if any(s_.get('pkg') for s_ in pre):
                ensure_packages()
            declare_tree(config, stmts, fix_pkg_tree(stmts, [PRE + i for i in range(len(pre))]), rec)
            config.commit()
        if any(s_.get('pkg') or s_.get('spec') or s_.get('mode') == 'urls' for s_ in stmts):
            ensure_packages()
        if stages is None:
            declare_tree(config, stmts, fix_pkg_tree(stmts, tree), rec)
        else:
            for stage in stages:
                declare_tree(config, stmts, fix_pkg_tree(stmts, stage), rec)
                config.commit()
        app = config.make_wsgi_app()
    except Exception as e:
        out['config'] = canon_error(e)
        out['error_detail'] = _ADDR.sub('0x', ' '.join(str(e).split()))[:300]
        app = None
    rec.enabled = False
    if app is not None:
        out['answers'] = [run_probe(app, p) for p in probes]
    out['actions'] = rec.actions
    out['exec'] = rec.exec_log
    out['events'] = rec.events
    out['registry'] = reg
    return out


# ------------------------------------------------------------------------------------------------
# structure of a program: slots, references, predicates (all STRUCTURAL: from the statements only)

PRE = 1000       # statement ids of the first-commit statements ("pre") are PRE + index


class Prog(list):
    """the statements of the second (or only) commit, indexable also by PRE+i for the statements of an earlier,
    already committed, statement set"""
    pre = ()

    def __getitem__(self, i):
        if isinstance(i, int) and i >= PRE:
            return self.pre[i - PRE]
        return list.__getitem__(self, i)

    def everything(self):
        return list(self.pre) + list(self)


def prog_of(case):
    p = Prog(case['stmts'])
    p.pre = list(case.get('pre') or [])
    return p


def everything(stmts):
    return stmts.everything() if isinstance(stmts, Prog) else list(stmts)


def carry(case, **kw):
    """a derived case keeps the first-commit statements and the staged flag"""
    out = {'stmts': case['stmts'], 'variants': case['variants']}
    out.update({k: kw[k] for k in ('stmts', 'variants') if k in kw})
    if any(s_.get('pkg') for s_ in out['stmts']):       # show the includes the package-relative statements need
        try:
            out['variants'] = [fix_pkg_tree(prog_of(dict(case, stmts=out['stmts'])), t) for t in out['variants']]
            kw = {k: v for k, v in kw.items() if k != 'variants'}
        except Exception:
            pass
    if case.get('pre'):
        out['pre'] = case['pre']
    if 'staged' in case:
        out['staged'] = case['staged']
    out.update(kw)
    return out


VIEW_OPS = ('add_view', 'add_notfound_view', 'add_forbidden_view', 'add_exception_view')
ROUTE_CLASS = ('add_route', 'add_static_view')
EXC_QNAME = {'ErrA': __name__ + '.ErrA', 'ErrB': __name__ + '.ErrB'}


def view_context(st):
    """(qualified context name, is exception context, exception_only)"""
    op = st['op']
    if op == 'add_notfound_view':
        return 'pyramid.httpexceptions.HTTPNotFound', True, True
    if op == 'add_forbidden_view':
        return 'pyramid.httpexceptions.HTTPForbidden', True, True
    c = st.get('context')
    if op == 'add_exception_view':
        return (__name__ + '.' + c) if c else 'builtins.Exception', True, True
    if c is None:
        return 'Interface', False, False
    return __name__ + '.' + c, c in ('ErrA', 'ErrB'), False


def view_slot_keys(st, route_name=None):
    """the adapter-registry triads (as the recorder names them) the view action of `st` registers into"""
    ctx, isexc, exc_only = view_context(st)
    rn = route_name if route_name is not None else st.get('route_name')
    riface = ('%s_IRequest' % rn) if rn else 'IRequest'
    name = st.get('name') or ''
    keys = []
    if not exc_only:
        keys.append('IViewClassifier,%s,%s|%s' % (riface, ctx, name))
    if isexc:
        keys.append('IExceptionViewClassifier,%s,%s|%s' % (riface, ctx, name))
    return keys


def view_slot(st):
    return (view_context(st)[0], st.get('name') or '', st.get('route_name'))


def pred_names(st):
    """names of the predicates a view statement carries (what decides its weight class)"""
    ns = [k for k in ('request_method', 'header', 'request_param', 'xhr', 'accept') if st.get(k) is not None]
    return sorted(ns + list((st.get('custom') or {}).keys()))


def pred_sig(st):
    return tuple((k, str(st.get(k))) for k in ('request_method', 'header', 'request_param', 'xhr', 'accept') if st.get(k) is not None) + \
        tuple(sorted((k, str(v)) for k, v in (st.get('custom') or {}).items()))


def view_holds(st, pr):
    """do the predicates of view statement `st` hold for probe `pr` (structural evaluation)"""
    h = {k.lower(): v for k, v in (pr.get('headers') or {}).items()}
    m = pr.get('method') or 'GET'
    rm = st.get('request_method')
    if rm is not None and not (m == rm or (rm == 'GET' and m == 'HEAD')):
        return False
    if st.get('header') is not None and st['header'].lower() not in h:
        return False
    if st.get('xhr') is not None and (h.get('x-requested-with') == 'XMLHttpRequest') != bool(st['xhr']):
        return False
    if st.get('request_param') is not None:
        q = pr['path'].split('?', 1)[1] if '?' in pr['path'] else ''
        keys = [kv.split('=')[0] for kv in q.split('&') if kv] + list((pr.get('post') or {}).keys())
        if st['request_param'] not in keys:
            return False
    for k, v in (st.get('custom') or {}).items():
        if h.get(('X-P-' + k).lower()) != str(v):
            return False
    return True


def references(stmts):
    """pairs (i, j): statement i refers to something statement j declares"""
    out = []
    for i, a in enumerate(stmts):
        for j, b in enumerate(stmts):
            if i == j:
                continue
            if a['op'] in VIEW_OPS:
                if b['op'] == 'add_route' and a.get('route_name') == b['name']:
                    out.append((i, j, 'route'))
                if b['op'] == 'add_view_predicate' and b['name'] in (a.get('custom') or {}):
                    out.append((i, j, 'predicate'))
                if b['op'] == 'add_view_deriver' and ('opt_' + b['tag']) in (a.get('dopts') or {}):
                    out.append((i, j, 'deriver'))
                if b['op'] == 'add_renderer' and a.get('renderer') == b['name']:
                    out.append((i, j, 'renderer'))
                if b['op'] == 'set_security_policy' and a.get('permission'):
                    out.append((i, j, 'policy'))
                if b['op'] == 'set_default_permission' and not a.get('permission'):
                    out.append((i, j, 'permission'))
                if b['op'] == 'set_default_csrf_options':
                    out.append((i, j, 'csrf'))
                if b['op'] == 'set_view_mapper':
                    out.append((i, j, 'mapper'))
            if a['op'] == 'add_route' and b['op'] == 'add_route_predicate' and b['name'] in (a.get('custom') or {}):
                out.append((i, j, 'route-predicate'))
            if a['op'] == 'add_subscriber' and b['op'] == 'add_subscriber_predicate' and b['name'] in (a.get('custom') or {}):
                out.append((i, j, 'subscriber-predicate'))
    return out


BUILTIN_DERIVERS = ('secured_view', 'owrapped_view', 'http_cached_view', 'decorated_view', 'rendered_view', 'mapped_view', 'csrf_view')


def expected_valid(stmts):
    """structural validity: everything a statement refers to is declared by SOME statement of the program (in
    whatever position), and no two statements exclude each other.  Such a program must configure."""
    stmts = everything(stmts)
    ops = [s['op'] for s in stmts]
    routes = {s['name'] for s in stmts if s['op'] == 'add_route'}
    vpreds = {s['name'] for s in stmts if s['op'] == 'add_view_predicate'}
    rpreds = {s['name'] for s in stmts if s['op'] == 'add_route_predicate'}
    spreds = {s['name'] for s in stmts if s['op'] == 'add_subscriber_predicate'}
    dopts = {'opt_' + s['tag'] for s in stmts if s['op'] == 'add_view_deriver'}
    dnames = {'drv_' + s['tag'] for s in stmts if s['op'] == 'add_view_deriver'} | set(BUILTIN_DERIVERS)

    def lst(v):
        return [v] if isinstance(v, str) else list(v or [])
    for s in stmts:
        if s['op'] in VIEW_OPS:
            if s.get('route_name') and s['route_name'] not in routes:
                return False
            if not set(s.get('custom') or {}) <= vpreds or not set(s.get('dopts') or {}) <= dopts:
                return False
        if s['op'] == 'add_route' and not set(s.get('custom') or {}) <= rpreds:
            return False
        if s['op'] == 'add_subscriber' and not set(s.get('custom') or {}) <= spreds:
            return False
        if s['op'] == 'add_view_deriver' and not set(lst(s.get('under')) + lst(s.get('over'))) <= dnames:
            return False
        if s['op'] == 'add_view_predicate' and not set(lst(s.get('more')) + lst(s.get('less'))) <= vpreds:
            return False
    if 'set_authentication_policy' in ops and 'set_security_policy' in ops:
        return False
    if ('set_authorization_policy' in ops) != ('set_authentication_policy' in ops):
        return False
    return True


def well_formed(case):
    try:
        stmts = case['stmts']
        if not isinstance(stmts, list) or not stmts or not all(isinstance(s, dict) and 'op' in s for s in stmts):
            return False
        if not all(isinstance(s, dict) and 'op' in s for s in (case.get('pre') or [])):
            return False
        vs = case['variants']
        if not isinstance(vs, list) or len(vs) < 1:
            return False
        for t in vs:
            if sorted(flatten(t)) != list(range(len(stmts))):
                return False
        # documented order-sensitive pairs keep their relative order in every variant
        base = list(flatten(vs[0]))
        for t in vs[1:]:
            o = list(flatten(t))
            for cls in (ROUTE_CLASS, ('add_subscriber',), ('add_tween',)):
                if [i for i in base if stmts[i]['op'] in cls] != [i for i in o if stmts[i]['op'] in cls]:
                    return False
        return True
    except Exception:
        return False


# ------------------------------------------------------------------------------------------------
# probes

def _route_paths(st):
    pat = st['pattern']
    p1 = pat.replace('{x}', '5').replace('{y}', '7')
    out = [p1]
    if '{x}' in pat:
        out.append(pat.replace('{x}', 'a').replace('{y}', 'b'))
    return out


def probes_for(stmts):
    """every registered view (with requests that satisfy its predicates, and requests that satisfy the
    predicates of several views at once), 404, 403"""
    stmts = everything(stmts)
    paths = ['/', '/a', '/b', '/a/x', '/b/x', '/a/y', '/nope', '/nope/deeper']
    for st in stmts:
        if st['op'] == 'add_route':
            paths += _route_paths(st)
        if st['op'] == 'add_static_view':
            paths += ['/%s/f.txt' % st['name'], '/%s/missing.txt' % st['name']]
        if st['op'] in VIEW_OPS and st.get('name'):
            paths += ['/' + st['name'], '/a/' + st['name'], '/b/' + st['name']]
    paths = list(dict.fromkeys(paths))
    hdr_sets = [{}]
    hs = {}
    for st in stmts:
        if st['op'] in VIEW_OPS or st['op'] in ('add_route', 'add_subscriber'):
            if st.get('header'):
                hs[st['header']] = '1'
            for k, v in (st.get('custom') or {}).items():
                hs.setdefault('X-P-' + k, str(v))
            if st.get('xhr'):
                hs['X-Requested-With'] = 'XMLHttpRequest'
    if hs:
        hdr_sets.append(dict(hs))
        for k in list(hs)[:3]:
            hdr_sets.append({k: hs[k]})
    # alternative values of custom predicates
    alt = {}
    for st in stmts:
        for k, v in (st.get('custom') or {}).items():
            if str(v) != hs.get('X-P-' + k):
                alt['X-P-' + k] = str(v)
    if alt:
        h2 = dict(hs); h2.update(alt)
        hdr_sets.append(h2)
    if any(st['op'] == 'set_security_policy' for st in stmts):
        hdr_sets.append(dict(hs, **{'X-User': 'bob'}))
    methods = ['GET']
    if any(st.get('request_method') == 'POST' for st in stmts) or any(st['op'] in ('set_default_csrf_options',) or st.get('require_csrf') for st in stmts):
        methods.append('POST')
    params = [None]
    for st in stmts:
        if st.get('request_param'):
            params.append(st['request_param'])
    probes = []
    for p in paths:
        for m in methods:
            for h in hdr_sets:
                for q in params[:2]:
                    pr = {'path': p + ('?%s=1' % q if q else ''), 'method': m, 'headers': h}
                    probes.append(pr)
                    if m == 'POST':
                        for tok in ('tok-s1', 'tok-s2', 'store-c1'):
                            probes.append({'path': pr['path'], 'method': m, 'headers': h, 'post': {'csrf_token': tok}})
    # keep the battery bounded but always keep the plain GETs
    seen, out = set(), []
    for pr in probes:
        k = vfutil.canon(pr)
        if k not in seen:
            seen.add(k); out.append(pr)
    if len(out) > 160:
        head = [pr for pr in out if pr['method'] == 'GET' and not pr['headers']]
        rest = [pr for pr in out if not (pr['method'] == 'GET' and not pr['headers'])]
        step = max(1, len(rest) // (160 - len(head)))
        out = head + rest[::step]
    return out


# ------------------------------------------------------------------------------------------------
# generator

ROUTE_PATTERNS = ['/r/{x}', '/r/a', '/q', '/q/{x}/{y}', '/r/{x}/z', '/s/{x}']
DEP_ORDER = {  # "dependencies first" = the conventional order; reversed = everything refers to later statements
    'set_root_factory': 0, 'set_request_factory': 0, 'set_response_factory': 0, 'set_session_factory': 0,
    'set_csrf_storage_policy': 0, 'set_execution_policy': 0, 'set_locale_negotiator': 0,
    'add_view_predicate': 1, 'add_route_predicate': 1, 'add_subscriber_predicate': 1, 'add_view_deriver': 1,
    'add_renderer': 1, 'set_default_permission': 1, 'set_default_csrf_options': 1, 'set_view_mapper': 1,
    'add_accept_view_order': 1, 'add_request_method': 1, 'add_response_adapter': 1, 'add_permission': 1,
    'set_security_policy': 2, 'add_route': 3, 'add_static_view': 3, 'add_tween': 3, 'add_subscriber': 3,
}


def gen_program(rng, findings=False):
    """a conflict-free statement list.  `findings`: allow the three recorded order-sensitive classes (same-slot
    ties, unconstrained deriver pairs, unconstrained predicate pairs over same-slot views)"""
    stmts = []
    routes = []
    for i in range(rng.choice([0, 1, 1, 2, 2, 3])):
        name = 'r%d' % (i + 1)
        if rng.random() < 0.12 and not any(r['name'] in ('x', 'y') for r in routes):
            name = rng.choice(['x', 'y'])            # a route named like a view name
        pats = [p for p in ROUTE_PATTERNS if p not in [r['pattern'] for r in routes]]
        st = {'op': 'add_route', 'name': name, 'pattern': rng.choice(pats)}
        if rng.random() < 0.2:
            st['request_method'] = rng.choice(['GET', 'POST'])
        if rng.random() < 0.2:
            st['custom'] = {'rp1': '1'}
        if rng.random() < 0.15:
            st['factory'] = rng.choice(['Root1', 'Root2'])
        routes.append(st)
    stmts += routes
    use_vpreds = [p for p in ('cp1', 'cp2') if rng.random() < 0.45]
    use_derivers = [d for d in ('d1', 'd2') if rng.random() < 0.4]
    use_renderers = [r for r in ('rr1', 'rr2') if rng.random() < 0.45]
    perms = ['p1', 'p2']
    nviews = rng.choice([1, 2, 2, 3, 3, 4, 5])
    slots = {}
    views = []
    tries = 0
    while len(views) < nviews and tries < 60:
        tries += 1
        st = {'op': 'add_view', 'tag': 'v%d' % (len(views) + 1)}
        r = rng.random()
        if routes and r < 0.45:
            st['route_name'] = rng.choice(routes)['name']
        elif 0.45 <= r < 0.47:
            st['route_name'] = 'ghost'          # never declared: every variant must refuse alike
        else:
            c = rng.choice([None, 'CtxA', 'CtxB', 'Root1'])
            if c:
                st['context'] = c
            st['name'] = rng.choice(['', '', 'x', 'y'])
        if views and rng.random() < 0.45:       # aim at an existing slot: multiviews
            o = rng.choice(views)
            for k in ('route_name', 'context', 'name'):
                st.pop(k, None)
                if k in o:
                    st[k] = o[k]
        if rng.random() < 0.4:
            st['request_method'] = rng.choice(['GET', 'POST'])
        if rng.random() < 0.3:
            st['header'] = rng.choice(['X-A', 'X-B'])
        if rng.random() < 0.12:
            st['request_param'] = rng.choice(['k', 'm'])
        for p in use_vpreds:
            if rng.random() < 0.45:
                st.setdefault('custom', {})[p] = rng.choice(['1', '2'])
        if rng.random() < 0.02:
            st.setdefault('custom', {})['cp9'] = '1'       # never declared
        for d in use_derivers:
            if rng.random() < 0.5:
                st.setdefault('dopts', {})['opt_' + d] = rng.choice(['x', 'y'])
        r = rng.random()
        if r < 0.2 and use_renderers:
            st['renderer'] = rng.choice(use_renderers); st['mode'] = 'dict'
        elif r < 0.3:
            st['renderer'] = rng.choice(['json', 'string']); st['mode'] = 'dict'
        elif r < 0.34:
            st['renderer'] = 'rr9'; st['mode'] = 'dict'   # never declared
        if rng.random() < 0.4:
            st['permission'] = rng.choice(perms)
        if rng.random() < 0.15:
            st['require_csrf'] = rng.choice([True, False])
        if 'mode' not in st and rng.random() < 0.2:
            st['mode'] = rng.choice(['raiseA', 'raiseB', 'forbid', 'notfound'])
        if 'mode' not in st and rng.random() < 0.06:
            st['mode'] = 'strresp'                  # the view returns a str subclass: needs the response adapter
        if 'mode' not in st and rng.random() < 0.05:
            st['mode'] = 'class'                    # class-based view, attr = a request-method name
            st['attr'] = rng.choice(RM_NAMES)
        slot = view_slot(st)
        sig = pred_sig(st)
        names = tuple(pred_names(st))
        others = slots.get(slot, [])
        if any(o[0] == sig for o in others):
            continue                                    # would conflict
        if not findings and any(o[1] == names for o in others):
            # equal weight class in one slot: only allowed when the two can never hold together
            if not (st.get('request_method') and all(o[2] and o[2] != st['request_method'] for o in others if o[1] == names)):
                continue
        slots.setdefault(slot, []).append((sig, names, st.get('request_method')))
        views.append(st)
    stmts += views
    # what the views refer to
    for p in use_vpreds:
        if rng.random() < 0.97:
            st = {'op': 'add_view_predicate', 'name': p}
            stmts.append(st)
    if len(use_vpreds) == 2 and not findings:
        # constrain the pair (weighs_more_than) so that their relative weight does not depend on statement order
        ps = [s for s in stmts if s['op'] == 'add_view_predicate']
        if len(ps) == 2:
            ps[1]['more'] = ps[0]['name']
    for i, d in enumerate(use_derivers):
        if rng.random() < 0.97:
            st = {'op': 'add_view_deriver', 'tag': d}
            stmts.append(st)
    ds = [s for s in stmts if s['op'] == 'add_view_deriver']
    if len(ds) == 2 and not findings:
        ds[1]['under'] = 'drv_' + ds[0]['tag']          # constrained: d2 under d1 (and over rendered_view by default)
    for r in use_renderers:
        if rng.random() < 0.9:
            stmts.append({'op': 'add_renderer', 'name': r, 'tag': r.upper()})
    if rng.random() < 0.22:
        # OVERRIDE of a renderer every Configurator already provides ('json' / 'string' are registered and committed
        # by setup_registry): a view naming it must get the program's factory wherever the statement stands
        rn = rng.choice(['json', 'string'])
        stmts.append({'op': 'add_renderer', 'name': rn, 'tag': 'C' + rn.upper()})
        users = [v for v in views if v.get('renderer') == rn]
        cand = [v for v in views if not v.get('renderer') and v.get('mode') in (None, 'plain')]
        if not users and cand:
            v = rng.choice(cand)
            v['renderer'] = rn; v['mode'] = 'dict'
    if rng.random() < 0.25:
        stmts.append({'op': 'add_renderer', 'name': '', 'tag': 'DEF'})          # the default renderer
        for v in views:
            if not v.get('renderer') and v.get('mode') is None and rng.random() < 0.6:
                v['mode'] = 'dict'                                            # needs the default renderer
    if any(s.get('custom', {}).get('rp1') for s in routes) and rng.random() < 0.96:
        stmts.append({'op': 'add_route_predicate', 'name': 'rp1'})
    if rng.random() < 0.6:
        stmts.append({'op': 'set_security_policy', 'tag': 'pol', 'allowed': sorted(rng.sample(perms, rng.choice([0, 1, 1, 2])))})
    if rng.random() < 0.3:
        stmts.append({'op': 'set_default_permission', 'permission': rng.choice(perms)})
    if rng.random() < 0.25:
        stmts.append({'op': 'set_default_csrf_options', 'require_csrf': True})
    if rng.random() < 0.4:
        stmts.append({'op': 'set_session_factory', 'factory': rng.choice(['s1', 's2'])})
    if rng.random() < 0.12:
        stmts.append({'op': 'set_csrf_storage_policy', 'tag': 'c1'})
    if rng.random() < 0.45:
        stmts.append({'op': 'set_root_factory', 'factory': rng.choice(['Root1', 'Root2'])})
    rms = []
    for n in RM_NAMES:
        if rng.random() < 0.28:
            rms.append({'op': 'add_request_method', 'name': n, 'tag': n + 't', 'property': rng.random() < 0.4, 'reify': rng.random() < 0.5})
    if rng.random() < 0.04:
        rms.append({'op': 'add_request_method', 'name': 'session', 'tag': 'sx', 'property': True, 'reify': rng.random() < 0.5})
    if rng.random() < (0.45 if rms else 0.15):
        st = {'op': 'set_request_factory', 'tag': 'q'}
        # NAME OVERLAP between families that only meet at request time: the application's request class natively
        # defines attributes named like the request-method extensions
        names = [r['name'] for r in rms if r['name'] in RM_NAMES]
        if rng.random() < 0.7:
            defs = [[n, rng.choice(['attr', 'method', 'property'])] for n in (names or RM_NAMES[:1]) if rng.random() < 0.8]
            if defs:
                st['defines'] = defs
        stmts.append(st)
    stmts += rms
    if rng.random() < 0.4:
        st = {'op': 'add_notfound_view', 'tag': 'nf'}
        if rng.random() < 0.25 and use_renderers:
            st['renderer'] = use_renderers[0]; st['mode'] = 'dict'
        if rng.random() < 0.2:
            st['append_slash'] = True
        if rng.random() < 0.2 and use_vpreds:
            st['custom'] = {use_vpreds[0]: '1'}
        stmts.append(st)
    if rng.random() < 0.4:
        st = {'op': 'add_forbidden_view', 'tag': 'fb'}
        if rng.random() < 0.25 and use_derivers:
            st['dopts'] = {'opt_' + use_derivers[0]: 'f'}
        stmts.append(st)
    if rng.random() < 0.3:
        st = {'op': 'add_exception_view', 'tag': 'ex', 'context': rng.choice(['ErrA', 'ErrB'])}
        stmts.append(st)
    if rng.random() < 0.3:
        st = {'op': 'add_static_view', 'name': 'st1'}
        if rng.random() < 0.3:
            st['permission'] = rng.choice(perms)
        stmts.append(st)
    for t in ('sa', 'sb'):
        if rng.random() < 0.1:
            stmts.append({'op': 'add_subscriber', 'tag': t})
    for t in ('ta', 'tb'):
        if rng.random() < 0.08:
            stmts.append({'op': 'add_tween', 'tag': t})
    for op, pr, extra in (('set_view_mapper', 0.05, {'tag': 'm1'}), ('add_response_adapter', 0.12, {}),
                          ('set_response_factory', 0.04, {'tag': 'rf'}), ('add_permission', 0.04, {'permission': 'p3'}),
                          ('set_locale_negotiator', 0.03, {}), ('set_execution_policy', 0.03, {})):
        if rng.random() < pr:
            stmts.append(dict({'op': op}, **extra))
    if rng.random() < 0.3:
        stmts += gen_pkg_statements(rng)
    if rng.random() < 0.14:
        stmts += gen_buster_statements(rng, stmts)
    if len(stmts) > 14:
        # drop surplus statements, but not the declarations other statements refer to
        decl = ('add_route', 'add_view_predicate', 'add_route_predicate', 'add_view_deriver')
        cand = [i for i, s_ in enumerate(stmts) if s_['op'] not in decl]
        drop = set(rng.sample(cand, min(len(cand), len(stmts) - 14)))
        stmts = [s_ for i, s_ in enumerate(stmts) if i not in drop]
    return stmts


def gen_pkg_statements(rng):
    """PACKAGE-RELATIVE statements, issued by configurators of two different packages (harness-made packages
    vfc08_pa / vfc08_pb): the SAME relative string means a different resource in each — a relative renderer spec
    ('templates/page.txt', rendered by a factory registered for '.txt' that resolves info.name against info.package), a
    relative static spec ('static'), a relative dotted view name ('.views.v1'), a relative translation dir"""
    out = []
    if rng.random() < 0.9:
        r = {'op': 'add_renderer', 'name': '.txt', 'tag': 'TXT', 'kind': 'asset'}
        if rng.random() < 0.3:
            r['pkg'] = rng.choice(['pa', 'pb'])
        out.append(r)
    both = rng.random() < 0.75
    pk = ['pa', 'pb'] if both else [rng.choice(['pa', 'pb'])]
    kinds = [k for k in ('tmpl', 'static', 'dotted', 'tdir') if rng.random() < {'tmpl': 0.8, 'static': 0.4, 'dotted': 0.4, 'tdir': 0.08}[k]] or ['tmpl']
    for k in kinds:
        for p in pk:
            if k == 'tmpl':
                st = {'op': 'add_view', 'tag': 'T' + p, 'name': 't' + p, 'renderer': 'templates/page.txt', 'mode': 'dict', 'pkg': p}
                if rng.random() < 0.3:
                    st['permission'] = rng.choice(['p1', 'p2'])
            elif k == 'static':
                st = {'op': 'add_static_view', 'name': 's' + p, 'rel': 'static', 'pkg': p}
            elif k == 'dotted':
                st = {'op': 'add_view', 'tag': 'D' + p, 'name': 'd' + p, 'dotted': '.views.v1', 'pkg': p}
            else:
                if p != pk[0]:
                    continue                       # translation dirs are order-sensitive among themselves: one per program
                st = {'op': 'add_translation_dirs', 'rel': 'locale', 'pkg': p}
            out.append(st)
    if rng.random() < 0.25:                        # the same relative renderer spec once more, from the application itself
        out.append({'op': 'add_view', 'tag': 'Tpa2', 'name': 'tpa2', 'renderer': 'templates/page.txt', 'mode': 'dict', 'pkg': 'pa'})
    return out


BUST_SPECS = [('vfc08_pa:static/', 'tree'), ('vfc08_pa:static/css/', 'css'), ('vfc08_pa:static/js/', 'js'), ('vfc08_pb:static/', 'treeb')]


def gen_buster_statements(rng, stmts):
    """add_static_view + add_cache_buster on NESTED asset specs (a general one and more specific ones, explicit= both
    ways; never the same (spec, explicit) twice — that pair replaces, it has no discriminator) + a view that answers with
    request.static_url / static_path of assets under each spec"""
    out = []
    if not any(s_['op'] == 'add_static_view' and s_.get('pkg') == 'pa' for s_ in stmts):
        out.append({'op': 'add_static_view', 'name': 'spa', 'rel': 'static', 'pkg': 'pa'})
    if rng.random() < 0.4 and not any(s_['op'] == 'add_static_view' and s_.get('pkg') == 'pb' for s_ in stmts):
        out.append({'op': 'add_static_view', 'name': 'spb', 'rel': 'static', 'pkg': 'pb'})
    seen = set()
    out.append({'op': 'add_cache_buster', 'spec': BUST_SPECS[0][0], 'tag': 'tree', 'explicit': rng.random() < 0.25})
    out.append({'op': 'add_cache_buster', 'spec': BUST_SPECS[1][0], 'tag': 'css', 'explicit': rng.random() < 0.25})
    for spec, tag in BUST_SPECS:
        for ex in (False, True):
            if rng.random() < 0.2:
                out.append({'op': 'add_cache_buster', 'spec': spec, 'tag': tag + ('X' if ex else ''), 'explicit': ex})
    uniq = []
    for st in out:
        if st['op'] == 'add_cache_buster':
            k = (st['spec'], bool(st['explicit']))
            if k in seen:
                continue
            seen.add(k)
        uniq.append(st)
    uniq.append({'op': 'add_view', 'tag': 'U', 'name': 'urls', 'mode': 'urls'})
    return uniq


def gen_pre(rng, stmts):
    """statement set 1 of a two-commit program: providers that the second statement set OVERRIDES (same renderer
    name / predicate name / deriver name / factories / policy / mapper, another implementation) or merely uses (a
    route, a renderer, a predicate only the first commit declares).  Committed before the program proper, so
    everything it registers is "already there" when the second set is declared — in whatever order."""
    pre = []
    for st in stmts:
        op = st['op']
        if op == 'add_renderer' and st['name'] and rng.random() < 0.7:
            pre.append({'op': 'add_renderer', 'name': st['name'], 'tag': 'OLD' + st['tag']})
        elif op == 'add_view_predicate' and rng.random() < 0.5:
            pre.append({'op': 'add_view_predicate', 'name': st['name'], 'variant': 'old'})
        elif op == 'add_route_predicate' and rng.random() < 0.5:
            pre.append({'op': 'add_route_predicate', 'name': st['name'], 'variant': 'old'})
        elif op == 'add_view_deriver' and rng.random() < 0.5 and not st.get('under'):
            pre.append({'op': 'add_view_deriver', 'tag': st['tag'], 'variant': 'old'})
        elif op == 'set_security_policy' and rng.random() < 0.6:
            pre.append({'op': 'set_security_policy', 'tag': 'oldpol', 'allowed': sorted(set(['p1', 'p2']) - set(st['allowed']))})
        elif op == 'set_root_factory' and rng.random() < 0.6:
            pre.append({'op': 'set_root_factory', 'factory': 'Root2' if st['factory'] == 'Root1' else 'Root1'})
        elif op == 'set_session_factory' and rng.random() < 0.6:
            pre.append({'op': 'set_session_factory', 'factory': 's2' if st['factory'] == 's1' else 's1'})
        elif op == 'set_request_factory' and rng.random() < 0.6:
            pre.append(dict({'op': 'set_request_factory', 'tag': 'old'},
                            **({'defines': [[d[0], 'attr'] for d in st['defines']]} if st.get('defines') and rng.random() < 0.5 else {})))
        elif op == 'set_view_mapper' and rng.random() < 0.7:
            pre.append({'op': 'set_view_mapper', 'tag': 'mold'})
        elif op == 'set_default_permission' and rng.random() < 0.6:
            pre.append({'op': 'set_default_permission', 'permission': 'p2' if st['permission'] == 'p1' else 'p1'})
        elif op == 'add_request_method' and rng.random() < 0.5:
            pre.append(dict(st, tag='old' + st['tag']))
    # things only the first commit provides
    used = {v.get('renderer') for v in stmts if v['op'] in VIEW_OPS} - {None, 'json', 'string', ''}
    declared = {s_['name'] for s_ in stmts if s_['op'] == 'add_renderer'} | {p_['name'] for p_ in pre if p_['op'] == 'add_renderer'}
    for rn in sorted(used - declared):
        if rng.random() < 0.5:
            pre.append({'op': 'add_renderer', 'name': rn, 'tag': 'PRE' + rn.upper()})
    if rng.random() < 0.3 and not any(s_['op'] == 'set_view_mapper' for s_ in list(stmts) + pre):
        pre.append({'op': 'set_view_mapper', 'tag': 'mpre'})
    if rng.random() < 0.3 and not any(s_['op'] == 'add_renderer' and s_['name'] in ('json', 'string') for s_ in pre):
        pre.append({'op': 'add_renderer', 'name': rng.choice(['json', 'string']), 'tag': 'PREB'})
    rng.shuffle(pre)
    return pre[:6]


def gen_case(rng, k, m, findings=False, two_commits=None):
    stmts = gen_program(rng, findings=findings)
    case = {'stmts': stmts, 'variants': gen_variants(rng, stmts, k, m)}
    if two_commits is None:
        two_commits = rng.random() < 0.3
    if two_commits:
        pre = gen_pre(rng, stmts)
        if pre:
            case['pre'] = pre
    return case


def respect_documented(stmts, order, base):
    """re-place the statements of each documented order-sensitive class so that inside `order` they appear in
    the relative order they have in `base`"""
    order = list(order)
    for cls in (ROUTE_CLASS, ('add_subscriber',), ('add_tween',)):
        pos = [k for k, i in enumerate(order) if stmts[i]['op'] in cls]
        want = [i for i in base if stmts[i]['op'] in cls]
        for k, i in zip(pos, want):
            order[k] = i
    return order


def random_tree(rng, order, depth=0):
    """cut the declaration order into nested includes (contiguous runs)"""
    if len(order) <= 1 or depth >= 3:
        return list(order)
    out, i = [], 0
    while i < len(order):
        if rng.random() < 0.35 and len(order) - i >= 1:
            n = rng.randint(1, min(5, len(order) - i))
            out.append(random_tree(rng, order[i:i + n], depth + 1))
            i += n
        else:
            out.append(order[i]); i += 1
    return out


def gen_variants(rng, stmts, k, m):
    n = len(stmts)
    base = list(range(n))
    deps_first = sorted(base, key=lambda i: (DEP_ORDER.get(stmts[i]['op'], 4), i))
    dependents_first = list(reversed(deps_first))
    orders = [respect_documented(stmts, dependents_first, base), respect_documented(stmts, deps_first, base)]
    while len(orders) < k:
        o = base[:]
        rng.shuffle(o)
        orders.append(respect_documented(stmts, o, base))
    variants = []
    for o in orders[:k]:
        variants.append(list(o))
        for _ in range(m - 1):
            variants.append(random_tree(rng, o))
    if any(s_.get('pkg') for s_ in stmts):
        variants = [fix_pkg_tree(stmts, t) for t in variants]
    return variants


# ------------------------------------------------------------------------------------------------
# evaluation of one case on the real code

def cfg_outcome(c):
    """a program with several defects may report any of them first: only ok / error is behaviour"""
    return 'ok' if c == 'ok' else 'error'


def observable(res):
    return (cfg_outcome(res['config']), vfutil.canon(res['answers']))


def disc_str(d):
    if d is None:
        return None
    if isinstance(d, tuple):
        return '(' + ', '.join(disc_str(x) or 'None' for x in d) + ')'
    if isinstance(d, str):
        return repr(d)
    if isinstance(d, (int, bool)):
        return repr(d)
    n = getattr(d, '__name__', None)
    if n is not None:
        mod = getattr(d, '__module__', '')
        return n if mod.startswith('pyramid.interfaces') or mod.startswith('zope.') else '%s.%s' % (mod, n)
    return _ADDR.sub('0x', repr(d))


def eval_case(case, table_by_line, record=True):
    """build every variant; returns dict(results=[…per variant…], probes=[…])"""
    stmts = prog_of(case)
    probes = case.get('probes') or probes_for(stmts)
    results = []
    for tree in case['variants']:
        r = build_variant(stmts, tree, probes, record=record)
        r.pop('registry', None)
        # stable action ids: statement * 8 + position inside the statement
        per = {}
        acts = []
        for a in r['actions']:
            j = per.get(a['stmt'], 0)
            per[a['stmt']] = j + 1
            row = table_by_line.get((a['file'], a['line']))
            if row is None and getattr(table_by_line, 'by_func', None) and (a['file'], a['func']) in table_by_line.by_func:
                row = {'kind': table_by_line.by_func[(a['file'], a['func'])]}
            acts.append({'aid': (a['stmt'] if a['stmt'] is not None else 99) * 8 + j, 'stmt': a['stmt'], 'j': j,
                         'site': '%s.py:%d %s' % (a['file'], a['line'], a['func']),
                         'kind': row['kind'] if row else 'unknown', 'order': a['order'],
                         'disc': disc_str(a['disc']), 'deferred': a['deferred'], 'path': a['path'], 'vorder': a.get('vorder')})
        seq2aid = [a['aid'] for a in acts]
        ev = {}
        for who, s in r['events'].items():
            key = '%s:%s' % (who[0], seq2aid[who[1]] if who[0] in ('act', 'disc') else who[1])
            ev[key] = sorted([list(x) for x in s])
        results.append({'config': r['config'], 'error_detail': r.get('error_detail'), 'answers': r['answers'],
                        'actions': acts, 'exec': [seq2aid[s] for s in r['exec']], 'events': ev})
    out = {'results': results, 'probes': probes, 'staged': None}
    if case.get('staged', True) and not any(s.get('append_slash') for s in stmts):
        r = build_variant(stmts, None, probes, record=False, stages=staged_order(stmts, list(flatten(case['variants'][0]))))
        out['staged'] = {'config': r['config'], 'error_detail': r.get('error_detail'), 'answers': r['answers']}
    return out


def stmt_level(st):
    return DEP_ORDER.get(st['op'], 4)


def staged_order(stmts, order0):
    """the statements grouped by dependency level (factories, then predicates/derivers/renderers/defaults, then the
    policy, then routes, then views), inside a level in the relative order of variant 0"""
    levels = sorted({stmt_level(stmts[i]) for i in order0})
    return [[i for i in order0 if stmt_level(stmts[i]) == lv] for lv in levels]


# ---- known-finding classes (structural) ----------------------------------------------------------

def finding_classes(stmts):
    """statement index sets of the three recorded order-sensitive classes, structurally:
    a: view statements that share slot AND weight class (same predicate names) with another one
    b: view-deriver statements not related to each other by under/over
    c: view-predicate statements not related by weighs_more_than / weighs_less_than"""
    out = {'F-C08a': [], 'F-C08b': [], 'F-C08c': []}
    vs = [i for i, s in enumerate(stmts) if s['op'] in VIEW_OPS]
    for i in vs:
        for j in vs:
            if i != j and view_slot(stmts[i]) == view_slot(stmts[j]) and pred_names(stmts[i]) == pred_names(stmts[j]) \
                    and view_context(stmts[i]) == view_context(stmts[j]):
                out['F-C08a'].append(i); break
    ds = [i for i, s in enumerate(stmts) if s['op'] == 'add_view_deriver']

    def rel(a, b):
        for k in ('under', 'over'):
            v = a.get(k)
            v = [v] if isinstance(v, str) else (v or [])
            if 'drv_' + b['tag'] in v:
                return True
        return False
    for i in ds:
        if any(i != j and not rel(stmts[i], stmts[j]) and not rel(stmts[j], stmts[i]) for j in ds):
            out['F-C08b'].append(i)
    ps = [i for i, s in enumerate(stmts) if s['op'] == 'add_view_predicate']

    def prel(a, b):
        for k in ('more', 'less'):
            v = a.get(k)
            v = [v] if isinstance(v, str) else (v or [])
            if b['name'] in v:
                return True
        return False
    for i in ps:
        if any(i != j and not prel(stmts[i], stmts[j]) and not prel(stmts[j], stmts[i]) for j in ps):
            out['F-C08c'].append(i)
    return out


def tie_holds(stmts, cls, fid, probe):
    """the narrow, per-probe part of the classifiers: F-C08a/c need two same-slot views that both hold"""
    vs = [i for i, s in enumerate(stmts) if s['op'] in VIEW_OPS]
    if fid == 'F-C08a':
        for i in cls:
            for j in cls:
                if i < j and view_slot(stmts[i]) == view_slot(stmts[j]) and pred_names(stmts[i]) == pred_names(stmts[j]) \
                        and view_holds(stmts[i], probe) and view_holds(stmts[j], probe):
                    return True
        return False
    if fid == 'F-C08c':
        names = [stmts[i]['name'] for i in cls]
        # (b) one view carries two of the unconstrained predicates and does not match: the 404 text names the
        #     first failing predicate, i.e. shows the evaluation order
        for i in vs:
            if len([p for p in names if p in (stmts[i].get('custom') or {})]) >= 2 and not view_holds(stmts[i], probe):
                return True
        for i in vs:
            for j in vs:
                if i < j and view_slot(stmts[i]) == view_slot(stmts[j]):
                    ci, cj = set(stmts[i].get('custom') or {}), set(stmts[j].get('custom') or {})
                    if any((p in ci) != (p in cj) for p in names) and view_holds(stmts[i], probe) and view_holds(stmts[j], probe):
                        return True
        return False
    return True


def repair_tree(tree, stmts, cls, base_order):
    """variant `tree` with the statements of `cls` re-placed (in the positions they occupy) in the relative
    order they have in `base_order`"""
    want = [i for i in base_order if i in cls]
    it = iter(want)

    def go(t):
        return [go(x) if isinstance(x, list) else (next(it) if x in cls else x) for x in t]
    return go(tree)


def classify(case, i, table_by_line, res0, resi, probes):
    """variant 0 and variant i of `case` answer differently.  Returns (finding id | None, detail)."""
    stmts = prog_of(case)
    classes = finding_classes(stmts)
    base = list(flatten(case['variants'][0]))
    oi = list(flatten(case['variants'][i]))
    swapped = {}
    for fid, cls in classes.items():
        if [x for x in base if x in cls] != [x for x in oi if x in cls]:
            swapped[fid] = set(cls)
    if not swapped:
        return None, 'no recorded order-sensitive pair is declared in a different order'
    # the differing probes
    if cfg_outcome(res0['config']) != cfg_outcome(resi['config']) or res0['answers'] is None or resi['answers'] is None:
        return None, 'configuration outcome differs: %s vs %s' % (res0['config'], resi['config'])
    diff = [k for k in range(len(probes)) if res0['answers'][k] != resi['answers'][k]]
    order = ['F-C08a', 'F-C08c', 'F-C08b']
    for r in range(1, len(order) + 1):
        for combo in itertools.combinations([f for f in order if f in swapped], r):
            cls = set().union(*[swapped[f] for f in combo])
            t2 = repair_tree(case['variants'][i], stmts, cls, base)
            rr = build_variant(stmts, t2, probes, record=False)
            if (cfg_outcome(rr['config']), rr['answers']) == (cfg_outcome(res0['config']), res0['answers']):
                # narrow: every differing probe must be one on which the class can act
                for f in combo:
                    if f in ('F-C08a', 'F-C08c') and not any(tie_holds(stmts, swapped[f], f, probes[k]) for k in diff):
                        return None, 'repairing %s removes the difference but no probe has two same-slot views holding' % (combo,)
                return combo[0], {'classes': list(combo), 'statements': sorted(cls), 'differing_probes': len(diff)}
    return None, 'difference persists after restoring the declaration order of every recorded order-sensitive pair'


# ------------------------------------------------------------------------------------------------
# correspondence with the model

LEAN_FAMS = {'viewDerivers', 'predListView', 'predListRoute', 'predListSubscriber', 'rendererFactory', 'securityPolicy',
             'authnPolicy', 'authzPolicy', 'defaultPermission', 'defaultCSRFOptions', 'csrfStoragePolicy', 'acceptOrder',
             'routeRequest', 'routesMapper', 'viewSlot', 'rootFactory', 'sessionFactory', 'requestFactory',
             'responseFactory', 'requestExtensions', 'executionPolicy', 'localeNegotiator', 'translationDirs', 'viewMapper',
             'tweens', 'subscribers', 'responseAdapter', 'traverser', 'resourceUrl', 'staticRegistrations', 'cacheBusters',
             'assetOverrides'}
KEYED = ('rendererFactory', 'routeRequest', 'viewSlot')      # families whose registry key is compared too
# registry traffic allowed while a directive is being *declared* (outside any action): get-or-create of a
# container whose identity never changes afterwards, and read-only settings / logger
EAGER_OK = {('R', 'routesMapper'), ('C', 'routesMapper'), ('R', 'staticInfo'), ('C', 'staticInfo'),
            ('R', 'tweens'), ('C', 'tweens'), ('R', 'settings'), ('R', 'debugLogger'),
            # add_notfound_view(append_slash=True) derives its inner view eagerly with the derivers that are already
            # COMMITTED (none of the program's own): views.py add_notfound_view -> _derive_view
            ('R', 'viewDerivers'), ('R', 'viewMapper'), ('R', 'securityPolicy'), ('R', 'defaultCSRFOptions'),
            ('R', 'defaultPermission'), ('R', 'rendererFactory')}
EAGER_APPEND_SLASH = {('R', 'viewDerivers'), ('R', 'viewMapper'), ('R', 'securityPolicy'), ('R', 'defaultCSRFOptions'),
                      ('R', 'defaultPermission'), ('R', 'rendererFactory')}


def declared_args(stmts, act):
    """argument-keyed slots of an action, from the STATEMENT (not from observation): [[family, key string]]"""
    st = stmts[act['stmt']] if act['stmt'] is not None else None
    if st is not None and act['kind'] == 'addPredicate':
        return [[{'add_view_predicate': 'predListView', 'add_route_predicate': 'predListRoute',
                  'add_subscriber_predicate': 'predListSubscriber'}[st['op']], None]]
    if st is not None and act['kind'] == 'cacheBuster':
        # a buster is an entry keyed by (spec, explicit); the answer for an asset is the most specific matching entry
        return [['cacheBusters', '%s|%s' % (st.get('spec') or 'static_dir', bool(st.get('explicit')))]]
    if st is None or act['kind'] != 'addView':
        return []
    out = []
    if st['op'] == 'add_static_view':
        rn = '__%s/' % st['name'].rstrip('/')
        keys = view_slot_keys({'op': 'add_view'}, route_name=rn)
        out.append(['routeRequest', "('route', %r)" % rn])
    else:
        keys = view_slot_keys(st)
        if st.get('route_name'):
            out.append(['routeRequest', "('route', %r)" % st['route_name']])
    for k in keys:
        out.append(['viewSlot', k])
    out.append(['rendererFactory', "(IRendererFactory, '')"])
    if st.get('renderer'):
        rn = st['renderer']
        out.append(['rendererFactory', "(IRendererFactory, %r)" % (os.path.splitext(rn)[1] if '.' in rn else rn)])
    return out


def observed_key(fam, key):
    """the recorder's key of a keyed family, in the vocabulary of `declared_args`"""
    if fam == 'routeRequest':
        return "('route', %r)" % key
    if fam == 'rendererFactory':
        return "(IRendererFactory, %r)" % key
    return key


def model_case(case, ev):
    """the JSON line for drv_c08 built from variant 0's recorded actions; the actions of an earlier commit
    (statement ids >= PRE) form the model's first commit"""
    stmts = prog_of(case)
    intern = {}

    def key(s):
        if s is None:
            return None
        if s not in intern:
            intern[s] = len(intern) + 1
        return intern[s]
    acts0 = ev['results'][0]['actions']
    actions = []
    for a in acts0:
        args = [[f, key(k) if k is not None else 0] for f, k in declared_args(stmts, a)]
        actions.append({'id': a['aid'], 'kind': a['kind'], 'disc': key(a['disc']), 'args': args,
                        'pkg': {None: 0, 'pa': 1, 'pb': 2}.get((stmts[a['stmt']] if a['stmt'] is not None else {}).get('pkg'), 0),
                        'vorder': a.get('vorder') if isinstance(a.get('vorder'), int) else None})
    specs = {}
    variants = []
    for r in ev['results']:
        order, paths = [], []
        for a in r['actions']:
            if a['stmt'] is not None and a['stmt'] >= PRE:
                continue
            order.append(a['aid'])
            paths.append([specs.setdefault(s, len(specs) + 1) for s in a['path']])
        variants.append({'order': order, 'paths': paths})
    pre = [a['aid'] for a in acts0 if a['stmt'] is not None and a['stmt'] >= PRE]
    return {'actions': actions, 'variants': variants, 'pre': {'order': pre, 'paths': [[] for _ in pre]}}, intern


def check_correspondence(case, ev, reply, intern):
    """impl vs model: phases, execution order, footprints; returns list of mismatch strings"""
    mm = []
    stmts = prog_of(case)
    rev = {v: k for k, v in intern.items()}
    acts0 = ev['results'][0]['actions']
    if not reply.get('table_ok', False):
        mm.append('driver: tableOK Gen.rows = false')
    ph = dict(zip([a['aid'] for a in acts0], reply['phases']))
    fps = {f['id']: f for f in reply['footprints']}
    for vi, r in enumerate(ev['results']):
        if sorted(a['aid'] for a in r['actions']) != sorted(a['aid'] for a in acts0):
            if r['config'] == 'ok' and ev['results'][0]['config'] == 'ok':
                mm.append('variant %d declares other actions than variant 0' % vi)
            continue
        for a in r['actions']:
            if a['kind'] == 'unknown':
                mm.append('action call site %s was not reached by the directive probe' % a['site'])
            elif ph.get(a['aid']) != a['order']:
                mm.append('phase: %s (%s) registered with order=%r, table says %r' % (a['site'], a['kind'], a['order'], ph.get(a['aid'])))
        mv = reply['variants'][vi]
        if r['config'] == 'ok':
            mexec = list(reply.get('pre_exec') or []) + mv['exec']
            if mv['out'] != 'ok' or mexec != r['exec']:
                mm.append('execution order of variant %d: impl %r, model %s %r' % (vi, r['exec'], mv['out'], mexec))
        # footprints
        for who, events in r['events'].items():
            kind, ident = who.split(':')
            if kind == 'decl':
                st = stmts[int(ident)] if ident != 'None' else {}
                allowed = set(EAGER_OK)
                if not (st.get('op') == 'add_notfound_view' and st.get('append_slash')):
                    allowed -= EAGER_APPEND_SLASH
                for m, fam, k in events:
                    if (m, fam) not in allowed:
                        mm.append('eager registry access while declaring %s: %s %s[%s]' % (st.get('op'), m, fam, k))
                continue
            aid = int(ident)
            fp = fps.get(aid)
            if fp is None:
                mm.append('no model footprint for action %d' % aid); continue
            dreads = {(f, rev.get(k, '') if f in KEYED else None) for f, k in fp['reads']}
            dwrites = {(f, rev.get(k, '') if f in KEYED else None) for f, k in fp['writes']}
            dcreates = set(fp.get('creates', []))
            if kind == 'disc':
                allowed_r = {(f, None) for f in fp['disc_reads']}
                for m, fam, k in events:
                    if m != 'R' or (fam, None) not in allowed_r:
                        mm.append('discriminator of %d (%s): undeclared %s %s[%s]' % (aid, _akind(acts0, aid), m, fam, k))
                continue
            for m, fam, k in events:
                if fam in ('settings', 'debugLogger'):
                    continue
                ok_ = (fam, observed_key(fam, k) if fam in KEYED else None)
                if m == 'C':
                    if fam not in dcreates and ok_ not in dwrites:
                        mm.append('footprint of %s: undeclared get-or-create of %s' % (_akind(acts0, aid), fam))
                elif m == 'W':
                    if ok_ not in dwrites:
                        mm.append('footprint of %s: undeclared WRITE %s[%s]' % (_akind(acts0, aid), fam, k))
                elif ok_ not in dreads and ok_ not in dwrites:
                    mm.append('footprint of %s: undeclared READ %s[%s]' % (_akind(acts0, aid), fam, k))
    return sorted(set(mm))


def _akind(acts, aid):
    for a in acts:
        if a['aid'] == aid:
            return '%s@%s' % (a['kind'], a['site'])
    return '?'


# ------------------------------------------------------------------------------------------------
# judging one case (property oracle + classification), shrinking

_TABLE = {}


class SiteTable(dict):
    """(file stem, line of the `self.action(…)` call) -> probed row; an executed action whose exact line the probe did
    not hit is still recognised when all probed actions of that (file, function) are of one kind"""
    by_func = None

    def get(self, key, default=None):
        if key in self:
            return dict.get(self, key)
        return default


def table_by_line(src):
    """call sites of the running code, from the directive PROBE of extract/c08.py (no AST involved)"""
    if src not in _TABLE:
        sys.path.insert(0, os.path.join(os.path.dirname(os.path.dirname(os.path.abspath(__file__))), 'extract'))
        import importlib
        ext = importlib.import_module('c08')
        pr = ext.probe(src)
        t = SiteTable()
        for k, r in pr['sites'].items():
            t[k] = r
        byf = {}
        for r in pr['sites'].values():
            byf.setdefault((r['file'], r['func']), set()).add(r['kind'])
        t.by_func = {k: list(v)[0] for k, v in byf.items() if len(v) == 1}
        _TABLE[src] = t
    return _TABLE[src]


def judge(case, ev, tbl):
    """-> list of violation dicts (each with 'finding' when it is a recorded one)"""
    res = ev['results']
    out = []
    o0 = observable(res[0])
    for i in range(1, len(res)):
        if observable(res[i]) == o0:
            continue
        fid, detail = classify(case, i, tbl, res[0], res[i], ev['probes'])
        if res[0]['answers'] is not None and res[i]['answers'] is not None:
            ks = [k for k in range(len(ev['probes'])) if res[0]['answers'][k] != res[i]['answers'][k]]
            k = ks[0] if ks else None
            impl = {'probe': ev['probes'][k] if k is not None else None,
                    'variant0': res[0]['answers'][k] if k is not None else res[0]['config'],
                    'variant%d' % i: res[i]['answers'][k] if k is not None else res[i]['config'], 'differing_probes': len(ks)}
        else:
            impl = {'variant0': [res[0]['config'], res[0].get('error_detail')], 'variant%d' % i: [res[i]['config'], res[i].get('error_detail')]}
        v = {'case': carry(case, variants=[case['variants'][0], case['variants'][i]]),
             'impl': impl, 'expected': 'identical (status, selected headers, body) for every probe and identical configuration outcome',
             'detail': detail}
        if fid:
            v['finding'] = fid
        out.append(v)
    if expected_valid(prog_of(case)):
        bad = [i for i in range(len(res)) if res[i]['config'] != 'ok']
        if bad:
            i = bad[0]
            out.append({'case': carry(case, variants=[case['variants'][i]], staged=False),
                        'impl': {'config': res[i]['config'], 'error_detail': res[i].get('error_detail')},
                        'expected': 'a conflict-free program in which everything referred to is declared by some statement configures (in every order / nesting)',
                        'detail': 'valid program does not configure'})
    st = ev.get('staged')
    if st is not None and observable(st) != o0:
        if st['answers'] is not None and res[0]['answers'] is not None:
            ks = [k for k in range(len(ev['probes'])) if res[0]['answers'][k] != st['answers'][k]]
            k = ks[0]
            impl = {'probe': ev['probes'][k], 'variant0 (one commit)': res[0]['answers'][k],
                    'declared dependencies-first with a commit after each level': st['answers'][k], 'differing_probes': len(ks)}
        else:
            impl = {'variant0 (one commit)': [res[0]['config'], res[0].get('error_detail')],
                    'declared dependencies-first with a commit after each level': [st['config'], st.get('error_detail')]}
        out.append({'case': carry(case, variants=[case['variants'][0]], staged=True), 'impl': impl,
                    'expected': 'a statement may refer to a route / predicate / deriver / renderer / policy / permission declared later: same application as when those are declared (and committed) first',
                    'detail': 'single-commit program differs from the staged reference build'})
    return out


def violates(case, tbl):
    """bool: some variant pair differs and is not a recorded finding"""
    if not well_formed(case):
        return False
    ev = eval_case(case, tbl, record=False)
    return any(not v.get('finding') for v in judge(case, ev, tbl))


def drop_stmt(case, k):
    def go(t):
        out = []
        for x in t:
            if isinstance(x, list):
                y = go(x)
                if y:
                    out.append(y)
            elif x != k:
                out.append(x - 1 if x > k else x)
        return out
    st2 = case['stmts'][:k] + case['stmts'][k + 1:]
    return carry(case, stmts=st2, variants=[fix_pkg_tree(st2, go(t)) for t in case['variants']],
                 staged=case.get('staged', True))


def shrink_case(case, tbl, budget=120):
    cur = carry(case, staged=case.get('staged', True))
    steps = 0
    # the earlier commit first: drop it entirely / statement by statement
    if cur.get('pre'):
        c = {k: v for k, v in cur.items() if k != 'pre'}
        steps += 1
        if violates(c, tbl):
            cur = c
        else:
            k = 0
            while k < len(cur.get('pre') or []) and steps < budget:
                c = dict(cur, pre=cur['pre'][:k] + cur['pre'][k + 1:])
                if not c['pre']:
                    del c['pre']
                steps += 1
                if violates(c, tbl):
                    cur = c
                else:
                    k += 1
    progress = True
    while progress and steps < budget:
        progress = False
        for k in range(len(cur['stmts'])):
            c = drop_stmt(cur, k)
            steps += 1
            if c['stmts'] and violates(c, tbl):
                cur = c; progress = True
                break
            if steps >= budget:
                break
    # flatten the include trees if the failure does not need them
    flat = carry(cur, variants=[list(flatten(t)) for t in cur['variants']], staged=cur.get('staged', True))
    if flat != cur and violates(flat, tbl):
        cur = flat
    # drop optional keys of statements
    for si in range(len(cur['stmts'])):
        for key in list(cur['stmts'][si].keys()):
            if key in ('op', 'tag', 'name', 'pattern', 'factory', 'permission', 'allowed', 'value', 'pkg', 'rel', 'dotted', 'kind', 'spec', 'mode'):
                continue
            c = json.loads(json.dumps(cur))
            del c['stmts'][si][key]
            steps += 1
            if steps < budget * 2 and violates(c, tbl):
                cur = c
    return cur


# ------------------------------------------------------------------------------------------------
# fixed programs

ALL_DIRECTIVES = [   # exercises every action call site of the generated table at least once
    {'op': 'add_view', 'tag': 'v1', 'route_name': 'r1', 'renderer': 'rr1', 'mode': 'dict', 'permission': 'p1', 'custom': {'cp1': '1'}, 'dopts': {'opt_d1': 'x'}},
    {'op': 'add_subscriber', 'tag': 'sa', 'custom': {'sp1': '1'}},
    {'op': 'add_route', 'name': 'r1', 'pattern': '/r/{x}', 'custom': {'rp1': '1'}},
    {'op': 'add_view_predicate', 'name': 'cp1'}, {'op': 'add_route_predicate', 'name': 'rp1'},
    {'op': 'add_subscriber_predicate', 'name': 'sp1'},
    {'op': 'add_view_deriver', 'tag': 'd1'}, {'op': 'add_renderer', 'name': 'rr1', 'tag': 'RR1'},
    {'op': 'set_security_policy', 'tag': 'pol', 'allowed': ['p1']}, {'op': 'set_default_permission', 'permission': 'p1'},
    {'op': 'set_default_csrf_options'}, {'op': 'set_csrf_storage_policy', 'tag': 'c1'},
    {'op': 'set_root_factory', 'factory': 'Root1'}, {'op': 'set_session_factory', 'factory': 's1'},
    {'op': 'set_request_factory', 'tag': 'q'}, {'op': 'set_response_factory', 'tag': 'rf'},
    {'op': 'add_request_method', 'name': 'rm1', 'tag': 'a'}, {'op': 'add_request_method', 'name': 'rm2', 'tag': 'b', 'property': True, 'reify': True},
    {'op': 'add_notfound_view', 'tag': 'nf', 'append_slash': True}, {'op': 'add_forbidden_view', 'tag': 'fb'},
    {'op': 'add_exception_view', 'tag': 'ex', 'context': 'ErrA'}, {'op': 'add_view', 'tag': 'v2', 'context': 'CtxA', 'name': 'x', 'mode': 'raiseB'},
    {'op': 'add_static_view', 'name': 'st1'}, {'op': 'add_tween', 'tag': 'ta'},
    {'op': 'add_response_adapter'}, {'op': 'set_view_mapper', 'tag': 'm1'}, {'op': 'add_accept_view_order', 'value': 'text/html'},
    {'op': 'add_permission', 'permission': 'p3'}, {'op': 'set_locale_negotiator'}, {'op': 'add_translation_dirs'},
    {'op': 'set_execution_policy'}, {'op': 'add_traverser', 'iface': 'CtxB'}, {'op': 'add_resource_url_adapter', 'iface': 'CtxB'},
    {'op': 'override_asset'}, {'op': 'add_cache_buster'},
]
ALL_DIRECTIVES_2 = [  # the legacy policies (mutually exclusive with set_security_policy) and the no-callable request method
    {'op': 'add_view', 'tag': 'v1', 'permission': 'p1'}, {'op': 'set_authentication_policy'}, {'op': 'set_authorization_policy'},
]

def _rf_set(kind, defines, prop=False, reify=False):
    st = {'op': 'set_request_factory', 'tag': 'q'}
    if defines:
        st['defines'] = [['rm1', kind]]
    return {'nest': True, 'stmts': [st, {'op': 'add_request_method', 'name': 'rm1', 'tag': 'ext', 'property': prop, 'reify': reify},
                                    {'op': 'add_view', 'tag': 'v1'}]}


# small scope for name overlaps: request factory F (with / without a native rm1) x add_request_method(rm1: plain /
# property / reify) x a view reading request.rm1 — every order x every placement of one include (+ a double nesting)
RF_SETS = [_rf_set('attr', True), _rf_set('method', True, prop=True), _rf_set('property', True, prop=True, reify=True),
           _rf_set('attr', False), _rf_set('method', True), _rf_set('attr', True, prop=True, reify=True)]


BUST_SETS = [   # nested cache-buster specs: every order (quick), every order x include placement (thorough, search)
    {'stmts': [{'op': 'add_static_view', 'name': 'spa', 'rel': 'static', 'pkg': 'pa'},
               {'op': 'add_cache_buster', 'spec': 'vfc08_pa:static/', 'tag': 'tree', 'explicit': False},
               {'op': 'add_cache_buster', 'spec': 'vfc08_pa:static/css/', 'tag': 'css', 'explicit': False},
               {'op': 'add_cache_buster', 'spec': 'vfc08_pa:static/', 'tag': 'treeX', 'explicit': True},
               {'op': 'add_view', 'tag': 'U', 'name': 'urls', 'mode': 'urls'}]},
    {'nest': True, 'stmts': [{'op': 'add_static_view', 'name': 'spa', 'rel': 'static', 'pkg': 'pa'},
                             {'op': 'add_cache_buster', 'spec': 'vfc08_pa:static/css/', 'tag': 'css', 'explicit': False},
                             {'op': 'add_cache_buster', 'spec': 'vfc08_pa:static/', 'tag': 'tree', 'explicit': False},
                             {'op': 'add_view', 'tag': 'U', 'name': 'urls', 'mode': 'urls'}]},
    {'stmts': [{'op': 'add_static_view', 'name': 'spa', 'rel': 'static', 'pkg': 'pa'},
               {'op': 'add_cache_buster', 'spec': 'vfc08_pa:static/css/', 'tag': 'cssX', 'explicit': True},
               {'op': 'add_cache_buster', 'spec': 'vfc08_pa:static/js/', 'tag': 'js', 'explicit': False},
               {'op': 'add_cache_buster', 'spec': 'vfc08_pa:static/', 'tag': 'tree', 'explicit': False},
               {'op': 'add_view', 'tag': 'U', 'name': 'urls', 'mode': 'urls'}]},
]

PKG_SETS = [   # two packages x the same relative spec x include orders and nestings
    {'nest': True, 'stmts': [{'op': 'add_renderer', 'name': '.txt', 'tag': 'TXT', 'kind': 'asset'},
                             {'op': 'add_view', 'tag': 'Tpa', 'name': 'tpa', 'renderer': 'templates/page.txt', 'mode': 'dict', 'pkg': 'pa'},
                             {'op': 'add_view', 'tag': 'Tpb', 'name': 'tpb', 'renderer': 'templates/page.txt', 'mode': 'dict', 'pkg': 'pb'}]},
    {'nest': True, 'stmts': [{'op': 'add_static_view', 'name': 'spa', 'rel': 'static', 'pkg': 'pa'},
                             {'op': 'add_static_view', 'name': 'spb', 'rel': 'static', 'pkg': 'pb'},
                             {'op': 'add_view', 'tag': 'Dpb', 'name': 'dpb', 'dotted': '.views.v1', 'pkg': 'pb'}]},
    {'nest': True, 'stmts': [{'op': 'add_view', 'tag': 'Tpa', 'name': 'tpa', 'renderer': 'templates/page.txt', 'mode': 'dict', 'pkg': 'pa'},
                             {'op': 'add_view', 'tag': 'Tpb', 'name': 'tpb', 'renderer': 'templates/page.txt', 'mode': 'dict', 'pkg': 'pb'},
                             {'op': 'add_renderer', 'name': '.txt', 'tag': 'TXT', 'kind': 'asset', 'pkg': 'pb'},
                             {'op': 'add_view', 'tag': 'Dpa', 'name': 'dpa', 'dotted': '.views.v1', 'pkg': 'pa'}]},
]


def nestings(order):
    """the flat order, every contiguous run as one include, and the runs nested in one another"""
    n = len(order)
    out = [list(order)]
    for i in range(n):
        for j in range(i + 1, n + 1):
            out.append(list(order[:i]) + [list(order[i:j])] + list(order[j:]))
            if j - i >= 2:
                out.append(list(order[:i]) + [[order[i], list(order[i + 1:j])]] + list(order[j:]))
    return out


SMALL_SETS = [   # exhaustive scope: every permutation (respecting the documented pairs) of these statement sets
    # overriding what a default Configurator already provides: the built-in renderers, on either side of their users
    [{'op': 'add_view', 'tag': 'v1', 'route_name': 'r1', 'renderer': 'json', 'mode': 'dict'},
     {'op': 'add_route', 'name': 'r1', 'pattern': '/r/{x}'}, {'op': 'add_renderer', 'name': 'json', 'tag': 'CJSON'},
     {'op': 'add_view', 'tag': 'v2', 'renderer': 'string', 'mode': 'dict'}, {'op': 'add_renderer', 'name': 'string', 'tag': 'CSTRING'}],
    # two commits: the first provides renderer / predicate / deriver / policy / root factory / mapper, the second replaces them
    {'pre': [{'op': 'add_renderer', 'name': 'rr1', 'tag': 'OLD'}, {'op': 'add_view_predicate', 'name': 'cp1', 'variant': 'old'},
             {'op': 'add_view_deriver', 'tag': 'd1', 'variant': 'old'}, {'op': 'set_security_policy', 'tag': 'oldpol', 'allowed': ['p1']},
             {'op': 'set_view_mapper', 'tag': 'mold'}],
     'stmts': [{'op': 'add_view', 'tag': 'v1', 'renderer': 'rr1', 'mode': 'dict', 'permission': 'p1', 'custom': {'cp1': '1'}, 'dopts': {'opt_d1': 'x'}},
               {'op': 'add_renderer', 'name': 'rr1', 'tag': 'NEW'}, {'op': 'add_view_predicate', 'name': 'cp1'},
               {'op': 'add_view_deriver', 'tag': 'd1'}, {'op': 'set_security_policy', 'tag': 'pol', 'allowed': []}]},
    {'pre': [{'op': 'set_root_factory', 'factory': 'Root2'}, {'op': 'set_session_factory', 'factory': 's2'},
             {'op': 'set_request_factory', 'tag': 'old'}, {'op': 'add_route', 'name': 'r0', 'pattern': '/q'},
             {'op': 'set_default_permission', 'permission': 'p2'}],
     'stmts': [{'op': 'add_view', 'tag': 'v1', 'route_name': 'r0'}, {'op': 'set_root_factory', 'factory': 'Root1'},
               {'op': 'set_session_factory', 'factory': 's1'}, {'op': 'set_default_permission', 'permission': 'p1'},
               {'op': 'set_security_policy', 'tag': 'pol', 'allowed': ['p2']}]},
    [{'op': 'add_view', 'tag': 'v1', 'route_name': 'r1', 'renderer': 'rr1', 'mode': 'dict'},
     {'op': 'add_route', 'name': 'r1', 'pattern': '/r/{x}'}, {'op': 'add_renderer', 'name': 'rr1', 'tag': 'RR1'},
     {'op': 'add_route', 'name': 'r2', 'pattern': '/r/a'}, {'op': 'add_view', 'tag': 'v2', 'route_name': 'r2'}],
    [{'op': 'add_view', 'tag': 'v1', 'permission': 'p1', 'custom': {'cp1': '1'}}, {'op': 'add_view_predicate', 'name': 'cp1'},
     {'op': 'set_security_policy', 'tag': 'pol', 'allowed': []}, {'op': 'add_forbidden_view', 'tag': 'fb'},
     {'op': 'add_view', 'tag': 'v2'}],
    [{'op': 'add_view', 'tag': 'v1', 'dopts': {'opt_d1': 'x'}}, {'op': 'add_view_deriver', 'tag': 'd1'},
     {'op': 'set_default_permission', 'permission': 'p2'}, {'op': 'set_security_policy', 'tag': 'pol', 'allowed': ['p1']},
     {'op': 'add_notfound_view', 'tag': 'nf', 'dopts': {'opt_d1': 'n'}}],
    [{'op': 'add_view', 'tag': 'v1', 'request_method': 'POST'}, {'op': 'set_default_csrf_options'},
     {'op': 'set_session_factory', 'factory': 's1'}, {'op': 'add_request_method', 'name': 'rm1', 'tag': 'a'},
     {'op': 'set_root_factory', 'factory': 'Root2'}],
    [{'op': 'add_static_view', 'name': 'st1', 'permission': 'p1'}, {'op': 'set_security_policy', 'tag': 'pol', 'allowed': []},
     {'op': 'add_route', 'name': 'r1', 'pattern': '/st1/f.txt'}, {'op': 'add_view', 'tag': 'v1', 'route_name': 'r1'},
     {'op': 'set_request_factory', 'tag': 'q'}],
    [{'op': 'add_view', 'tag': 'v1', 'mode': 'raiseB'}, {'op': 'add_exception_view', 'tag': 'ex', 'context': 'ErrA', 'renderer': 'rr1', 'mode': 'dict'},
     {'op': 'add_renderer', 'name': 'rr1', 'tag': 'RR1'}, {'op': 'add_view', 'tag': 'v2', 'name': 'x', 'renderer': 'rr1', 'mode': 'dict'}],
]


def permutation_cases(stmts, limit=None):
    pre, nest = None, False
    if isinstance(stmts, dict):
        pre, nest, stmts = stmts.get('pre'), stmts.get('nest'), stmts['stmts']
    out = _permutation_cases(stmts, limit)
    if nest:          # every order x every include placement, all compared with the first flat order
        trees = [t for c in out for o in c['variants'] for t in nestings(o)]
        if any(s_.get('pkg') for s_ in stmts):
            seen, uniq = set(), []
            for t in trees:
                t = fix_pkg_tree(stmts, t)
                if vfutil.canon(t) not in seen:
                    seen.add(vfutil.canon(t)); uniq.append(t)
            trees = uniq
        out = [{'stmts': stmts, 'variants': [trees[0]] + trees[k:k + 40]} for k in range(1, len(trees), 40)]
    if pre:
        for c in out:
            c['pre'] = pre
    return out


def _permutation_cases(stmts, limit=None):
    n = len(stmts)
    base = list(range(n))
    seen, variants = set(), []
    for perm in itertools.permutations(base):
        o = respect_documented(stmts, list(perm), base)
        if tuple(o) not in seen:
            seen.add(tuple(o)); variants.append(o)
    if limit:
        variants = variants[:limit]
    # chunks of 24 variants, each compared with the first order
    out = []
    for k in range(0, len(variants), 23):
        out.append({'stmts': stmts, 'variants': [variants[0]] + variants[k:k + 23] if k else variants[:24]})
    return out


# ------------------------------------------------------------------------------------------------
# worker

def _work(arg):
    case, src, name = arg
    tbl = table_by_line(src)
    try:
        ev = eval_case(case, tbl)
        viol = judge(case, ev, tbl)
        mc, intern = model_case(case, ev)
        slim = [{k: r[k] for k in ('config', 'actions', 'exec', 'events', 'error_detail')} for r in ev['results']]
        same = all(observable(r) == observable(ev['results'][0]) for r in ev['results'])
        return {'name': name, 'case': case, 'viol': viol, 'model_case': mc, 'intern': intern, 'results': slim,
                'same': same, 'nprobes': len(ev['probes']), 'configs': [r['config'] for r in ev['results']],
                'statuses': sorted({str(a[0]) for r in ev['results'] if r['answers'] for a in r['answers']})}
    except Exception as e:
        import traceback
        return {'name': name, 'case': case, 'crash': traceback.format_exc()[-1500:]}


def _pool_map(items, workers=4):
    ensure_packages()     # (and the two temp packages)
    static_dir()          # created once in the parent (removed by its atexit); forked workers inherit and reuse it
    if len(items) < 8:
        return [_work(x) for x in items]
    import multiprocessing
    with multiprocessing.get_context('fork').Pool(workers) as pool:
        return pool.map(_work, items, chunksize=4)


def later_refs(case):
    refs = references(case['stmts']) 
    kinds = set()
    for t in case['variants']:
        pos = {i: k for k, i in enumerate(flatten(t))}
        for i, j, what in refs:
            if pos[i] < pos[j]:
                kinds.add(what)
    return kinds


def run_cases(ctx, named_cases, out):
    """evaluate cases on the implementation (workers) and on the model (driver); fill `out`"""
    items = [(c, ctx.src, n) for n, c in named_cases]
    res = _pool_map(items)
    good = [r for r in res if 'crash' not in r]
    for r in res:
        if 'crash' in r:
            out['mismatches'].append({'case': r['case'], 'impl': 'harness crash', 'model': r['crash']})
    replies = [None] * len(good)
    if ctx.driver_path and good:
        try:
            replies = ctx.run_model([r['model_case'] for r in good])
        except Exception as e:
            ctx.notes.append('driver failed: %s' % e)
    for r, rep in zip(good, replies):
        case = r['case']
        out['evaluations'] += 1
        d = out['distribution']
        vfutil.bump(d['statements'], str(len(case['stmts'])))
        vfutil.bump(d['variants'], str(len(case['variants'])))
        for op in {s['op'] for s in case['stmts']}:
            vfutil.bump(d['directives'], op)
        for c in set(r['configs']):
            vfutil.bump(d['config_outcomes'], c)
        for s in r['statuses']:
            vfutil.bump(d['statuses_seen'], s)
        d['probes'] += r['nprobes'] * len(case['variants'])
        if any(s_.get('pkg') for s_ in case['stmts']):
            d['multi_package_programs'] = d.get('multi_package_programs', 0) + 1
        d['include_depth_max'] = max(d['include_depth_max'], max((len(a['path']) for x in r['results'] for a in x['actions']), default=0))
        for x in r['results']:
            for a in x['actions']:
                vfutil.bump(d['action_kinds_executed'], a['kind'])
        lr = later_refs(case)
        for k in lr:
            vfutil.bump(d['later_references'], k)
        orders = {tuple(flatten(t)) for t in case['variants']}
        if lr and len(orders) >= 2:
            out['_nontrivial'].add(vfutil.canon([case.get('pre'), case['stmts']]))
        for v in r['viol']:
            v['stream'] = r['name']
            out['violations'].append(v)
        if rep is not None:
            mm = check_correspondence(case, {'results': r['results']}, rep, r['intern'])
            if rep.get('equal') and not r['same']:
                mm.append('model: all variants end in the same store under the free semantics; implementation: variants answer differently')
            if any(h and not rep.get('equal') for h in rep.get('hyp', [])) and len(set(vfutil.canon(v['exec']) for v in rep['variants'])) >= 1:
                # hyp[i] speaks about variant i vs variant 0 only; `equal` about all: only flag when ALL hold
                if all(rep.get('hyp', [])) and not rep.get('equal'):
                    mm.append('model: hypotheses of program_order_irrelevant hold but free-semantics stores differ')
            vfutil.bump(d['model_verdict'], 'equal' if rep.get('equal') else 'may-differ')
            if not rep.get('equal') and r['same']:
                vfutil.bump(d['model_verdict'], 'may-differ-but-impl-same')
            if mm:
                out['mismatches'].append({'case': case, 'impl': mm[:6], 'model': 'Gen/C08Phases.lean + ConfigFootprints.lean via drv_c08', 'stream': r['name']})
            else:
                out['agreeing'] += 1
        if len(out['samples']) < 8:
            out['samples'].append(carry(case, variants=case['variants'][:2]))


def new_out():
    return {'evaluations': 0, 'agreeing': 0, 'mismatches': [], 'violations': [], 'samples': [], '_nontrivial': set(),
            'distribution': {'statements': {}, 'variants': {}, 'directives': {}, 'config_outcomes': {}, 'statuses_seen': {},
                             'probes': 0, 'include_depth_max': 0, 'action_kinds_executed': {}, 'later_references': {},
                             'model_verdict': {}, 'streams': {}}}


def finish(ctx, out, tbl):
    # shrink unknown violations (a few), keep known ones as they are
    unknown = [v for v in out['violations'] if not v.get('finding')]
    unknown.sort(key=lambda v: len(vfutil.canon(v['case'])))
    shrunk = []
    for v in unknown[:3]:
        if ctx.time_left() < 60:
            break
        try:
            c = shrink_case(v['case'], tbl)
            ev = eval_case(c, tbl, record=False)
            vs = [w for w in judge(c, ev, tbl) if not w.get('finding')]
            if vs:
                vs[0]['stream'] = v.get('stream'); vs[0]['shrunk_from'] = len(v['case']['stmts'])
                shrunk.append(vs[0])
        except Exception:
            pass
    out['violations'] = shrunk + out['violations']
    out['distinct_nontrivial'] = len(out.pop('_nontrivial'))
    out['rule'] = RULE
    out['notes'] = ['known-finding cases met: %s' % json.dumps({f: sum(1 for v in out['violations'] if v.get('finding') == f) for f in ('F-C08a', 'F-C08b', 'F-C08c')})]
    out['assumptions'] = ['probe battery is finite (every registered view, traversal and route paths, 404, 403, CSRF POSTs); views/predicates/derivers/renderers/policies are the harness vocabulary',
                          'one commit per application (make_wsgi_app); no autocommit, no manual commit() between statements, no route_prefix']
    out['trusted_base'] = ['extract/c08.py (ast translator; its table is checked against the order= every executed action was registered with and against the observed execution order)',
                           'ConfigFootprints.lean (hand-written; validated by the recording registry on every run: observed ⊆ declared)',
                           'zope.interface registry, WebOb (request/response), venusian-free configuration only']
    return out


def run(ctx):
    tbl = table_by_line(ctx.src)
    out = new_out()
    named = []
    for f, c in ctx.corpus():
        if isinstance(c, dict) and 'stmts' in c and well_formed(c):
            named.append(('corpus:' + f, carry(c)))
    base = list(range(len(ALL_DIRECTIVES)))
    rng = ctx.rng
    named.append(('all-directives', {'stmts': ALL_DIRECTIVES, 'variants': gen_variants(rng, ALL_DIRECTIVES, 3, 2)}))
    named.append(('all-directives-2', {'stmts': ALL_DIRECTIVES_2, 'variants': [[0, 1, 2], [2, 1, 0], [[1], [0, [2]]]]}))
    # quick: the override-of-a-built-in set always, plus two rotating ones; thorough: all
    pick = list(range(len(SMALL_SETS))) if ctx.tier != 'quick' else \
        sorted({0, 1 + (ctx.seed % (len(SMALL_SETS) - 1)), 1 + ((ctx.seed + 1) % (len(SMALL_SETS) - 1))})
    for k in pick:
        for c in permutation_cases(SMALL_SETS[k], limit=ctx.n(48, None)):
            named.append(('exhaustive-%d' % k, c))
    for k in ([ctx.seed % len(RF_SETS), (ctx.seed + 1) % len(RF_SETS)] if ctx.tier == 'quick' else range(len(RF_SETS))):
        for c in permutation_cases(RF_SETS[k]):
            named.append(('exhaustive-overlap-%d' % k, c))
    for k in ([0, 1 + ctx.seed % 2] if ctx.tier == 'quick' else range(len(PKG_SETS))):
        for c in permutation_cases(PKG_SETS[k]):
            named.append(('exhaustive-packages-%d' % k, c))
    for k in ([0] if ctx.tier == 'quick' else range(len(BUST_SETS))):
        for c in permutation_cases(BUST_SETS[k]):
            named.append(('exhaustive-busters-%d' % k, c))
    n = ctx.n(300, 3000)
    kk, m = ctx.n(3, 4), ctx.n(2, 3)
    for i in range(n):
        findings = rng.random() < 0.12
        c = gen_case(rng, kk, m, findings=findings)
        named.append((('random-findings' if findings else 'random') + ('-2commits' if c.get('pre') else ''), c))
    for nm, _ in named:
        vfutil.bump(out['distribution']['streams'], nm.split(':')[0].split('-')[0] if nm.startswith('exhaustive') else nm.split(':')[0])
    # batches, so that a time-out still reports
    B = 400
    for k in range(0, len(named), B):
        if ctx.time_left() < 90:
            ctx.notes.append('stopped after %d cases (time)' % k)
            break
        run_cases(ctx, named[k:k + B], out)
    out['exhaustive'] = True
    return finish(ctx, out, tbl)


def search(ctx):
    """deeper search for a failing input on the IMPLEMENTATION only (oracle does not use the Lean build)"""
    tbl = table_by_line(ctx.src)
    out = new_out()
    saved, ctx.driver_path = ctx.driver_path, None
    try:
        named = [('all-directives', {'stmts': ALL_DIRECTIVES, 'variants': gen_variants(ctx.rng, ALL_DIRECTIVES, 4, 2)})]
        for k, s in enumerate(SMALL_SETS + RF_SETS + PKG_SETS + BUST_SETS):
            for c in permutation_cases(s):
                named.append(('exhaustive-%d' % k, c))
        for i in range(ctx.n(600, 3000)):
            named.append(('random', gen_case(ctx.rng, 4, 2, findings=False)))
        for k in range(0, len(named), 400):
            if ctx.time_left() < 120:
                break
            run_cases(ctx, named[k:k + 400], out)
            if any(not v.get('finding') for v in out['violations']):
                break
    finally:
        ctx.driver_path = saved
    res = finish(ctx, out, tbl)
    return {'violations': res['violations'], 'searched': res['evaluations'], 'exhaustive': True,
            'scope': 'every permutation (respecting route/route, subscriber/subscriber, tween/tween) of %d fixed statement sets of 3-5 statements (the %d name-overlap sets also in every include placement) + random programs x 8 variants' % (len(SMALL_SETS) + len(RF_SETS) + len(PKG_SETS), len(RF_SETS) + len(PKG_SETS))}


def replay(ctx, rep):
    tbl = table_by_line(ctx.src)
    case = rep.get('case', rep)
    case = carry(case, staged=case.get('staged', True))
    ev = eval_case(case, tbl)
    viol = judge(case, ev, tbl)
    res = {'case': case, 'probes': len(ev['probes']),
           'impl': [{'config': r['config'], 'error_detail': r.get('error_detail')} for r in ev['results']],
           'staged_reference': ({'config': ev['staged']['config'], 'error_detail': ev['staged'].get('error_detail')} if ev.get('staged') else None),
           'differences': [{'impl': v['impl'], 'detail': v['detail'], 'finding': v.get('finding')} for v in viol],
           'spec': 'all variants must answer every probe identically',
           'violates': any(not v.get('finding') for v in viol), 'known_finding': sorted({v['finding'] for v in viol if v.get('finding')})}
    if ctx.driver_path:
        try:
            mc, intern = model_case(case, ev)
            reply = ctx.run_model([mc])[0]
            res['model'] = {'equal': reply.get('equal'), 'hyp': reply.get('hyp'), 'sensitive_swapped': reply.get('sensitive_swapped'),
                            'exec': [v['exec'] for v in reply['variants']],
                            'correspondence': check_correspondence(case, {'results': ev['results']}, reply, intern)}
        except Exception as e:
            res['model'] = 'driver failed: %s' % e
    return res
