"""X02 — configuration settings and small pure helpers.

Correspondence of lean/PyramidModel/SettingsModel.lean with pyramid.settings (asbool, aslist, aslist_cronly),
pyramid.config.settings.Settings (directly, through Configurator(settings=…) with a patched os.environ, and re-applied to
its own result) and the pure helpers of pyramid.util (strings_differ, is_same_domain, text_/bytes_/ascii_, is_nonstr_iter,
is_string_or_iterable, as_sorted_tuple); and the property itself evaluated on the implementation by an oracle written from
docs/narr/environment.rst, the glossary ("truthy string") and the helpers' docstrings — independent of the Lean build and
of the constants of the code under test.

A case is human-readable JSON: values are null / true / false / int / "text" / [atoms]; the model protocol (text as code
points) is produced by `enc_case`.
"""
import importlib, itertools, json, os, re, sys

import vfutil

# ---------------------------------------------------------------------------------------------------------------------
# the documentation, transcribed (docs/narr/environment.rst; glossary.rst "truthy string"; security.rst for
# csrf_trusted_origins; commandline.rst/hooks.rst for debug_templates)

DOC_TRUTHY = {'t', 'true', 'y', 'yes', 'on', '1'}
#        name                    environment variable              kind    default  turned on by
DOC = [('debug_all',            'PYRAMID_DEBUG_ALL',              'bool', False,   []),
       ('debug_authorization',  'PYRAMID_DEBUG_AUTHORIZATION',    'bool', False,   ['debug_all']),
       ('debug_notfound',       'PYRAMID_DEBUG_NOTFOUND',         'bool', False,   ['debug_all']),
       ('debug_routematch',     'PYRAMID_DEBUG_ROUTEMATCH',       'bool', False,   ['debug_all']),
       ('debug_templates',      'PYRAMID_DEBUG_TEMPLATES',        'bool', False,   ['debug_all']),
       ('reload_all',           'PYRAMID_RELOAD_ALL',             'bool', False,   []),
       ('reload_templates',     'PYRAMID_RELOAD_TEMPLATES',       'bool', False,   ['reload_all']),
       ('reload_assets',        'PYRAMID_RELOAD_ASSETS',          'bool', False,   ['reload_all', 'reload_resources']),
       ('reload_resources',     'PYRAMID_RELOAD_RESOURCES',       'bool', False,   ['reload_all', 'reload_assets']),
       ('default_locale_name',  'PYRAMID_DEFAULT_LOCALE_NAME',    'str',  'en',    []),
       ('prevent_http_cache',   'PYRAMID_PREVENT_HTTP_CACHE',     'bool', False,   []),
       ('prevent_cachebust',    'PYRAMID_PREVENT_CACHEBUST',      'bool', False,   []),
       ('csrf_trusted_origins', 'PYRAMID_CSRF_TRUSTED_ORIGINS',   'list', [],      [])]
DOCD = {r[0]: r for r in DOC}
NAMES = [r[0] for r in DOC]
ENVS = [r[1] for r in DOC]

RULE = ('70 % Settings cases: every documented setting independently present/absent in the environment, under the '
        'pyramid.-prefixed key and under the bare key (values from a pool of odd spellings: padded / upper-case / unicode-'
        'padded truthy words, near misses, "", None, bools, ints, lists, newline-separated text), stray keys and stray '
        'environment variables, keyword overrides; delivered directly, through Configurator(settings=) with os.environ '
        'patched, and re-applied to its own result; 30 % helper cases (asbool, aslist with and without flatten, '
        'strings_differ, is_same_domain, text_/bytes_/ascii_, is_nonstr_iter/is_string_or_iterable, as_sorted_tuple). '
        'A Settings case is non-trivial when some documented setting has two present sources that convert to different '
        'values, or a switch (*_all / the assets-resources alias) changes a value that its own sources leave false; a '
        'helper case is non-trivial when the input needs the function\'s special branch (padding/case for asbool, more than '
        'one piece for aslist, equal-length different strings for strings_differ, a dotted pattern for is_same_domain, '
        'a non-ASCII character for the coercions, at least two elements for as_sorted_tuple); distinct = distinct '
        'canonical case JSON')

# ---------------------------------------------------------------------------------------------------------------------
# the implementation under test

_mods = {}


def mods(ctx):
    """the modules of the tree under test (ctx.src is first on sys.path, arranged by the runner)"""
    if not _mods:
        _mods['settings'] = importlib.import_module('pyramid.settings')
        _mods['csettings'] = importlib.import_module('pyramid.config.settings')
        _mods['util'] = importlib.import_module('pyramid.util')
        _mods['config'] = importlib.import_module('pyramid.config')
        want = os.path.realpath(os.path.join(ctx.src, 'pyramid', 'settings.py'))
        got = os.path.realpath(_mods['settings'].__file__)
        if want != got:
            raise RuntimeError('harness imported %s, not the tree under test %s' % (got, want))
    return _mods


def jsonable(v):
    """canonical, JSON-able image of a value returned by the code (anything unexpected is named by type)"""
    if v is None or isinstance(v, (bool, int, str)):
        return v
    if isinstance(v, (list, tuple)):
        return [jsonable(x) for x in v]
    if isinstance(v, bytes):
        return {'bytes': list(v)}
    return {'type': type(v).__name__}


def exc_name(e):
    return type(e).__name__


def impl_settings(M, case):
    d = dict((k, v) for k, v in case['d'])
    kw = dict((k, v) for k, v in case['kw'])
    env = dict((k, v) for k, v in case['env'])
    d_before, env_before = json.dumps(list(d.items())), json.dumps(list(env.items()))
    mode = case.get('mode', 'direct')
    out = {}
    try:
        if mode == 'configurator':
            merged = dict(d); merged.update(kw)
            saved = dict(os.environ)
            try:
                for k in list(os.environ):
                    if k.upper().startswith('PYRAMID_'):
                        del os.environ[k]
                os.environ.update(env)
                cfg = M['config'].Configurator(settings=merged)
                r = cfg.get_settings()
                if r is not cfg.registry.settings:
                    out['note'] = 'get_settings() is not registry.settings'
            finally:
                os.environ.clear(); os.environ.update(saved)
        else:
            r = M['csettings'].Settings(d, _environ_=env, **kw)
        out['ok'] = [[k, jsonable(v)] for k, v in r.items()]
        # the mapping handed in and the environment are left alone
        out['input_untouched'] = (json.dumps(list(d.items())) == d_before and json.dumps(list(env.items())) == env_before)
        # applying Settings to its own result changes nothing
        try:
            r2 = M['csettings'].Settings(dict(r), _environ_=env)
            out['again'] = [[k, jsonable(v)] for k, v in r2.items()]
        except Exception as e:      # noqa
            out['again'] = {'err': exc_name(e)}
    except Exception as e:          # noqa
        out['err'] = exc_name(e)
    return out


def to_sb(v):
    if 's' in v: return v['s']
    if 'b' in v: return bytes(v['b'])
    return [None, 7, 3.5, ['x'], ('a',), {'k': 1}][v['o'] % 6]


def from_sb(x):
    if isinstance(x, str): return {'s': x}
    if isinstance(x, bytes): return {'b': list(x)}
    return {'o': 'same'}


def impl(M, case):
    op = case['op']
    try:
        if op == 'settings':
            return impl_settings(M, case)
        if op == 'asbool':
            return {'out': jsonable(M['settings'].asbool(case['v']))}
        if op == 'aslist':
            f = M['settings'].aslist
            v = case['v']
            try:
                r = f(v, flatten=case['flatten'])
                if not case['flatten']:
                    r2 = M['settings'].aslist_cronly(v)
                    if r2 != r:
                        return {'ok': jsonable(r), 'cronly_differs': jsonable(r2)}
                return {'ok': jsonable(r)}
            except Exception as e:      # noqa
                return {'err': exc_name(e)}
        if op == 'differ':
            a, b = bytes(case['a']), bytes(case['b'])
            if case.get('as') == 'str':
                a, b = a.decode('ascii'), b.decode('ascii')
            return {'out': jsonable(M['util'].strings_differ(a, b))}
        if op == 'same_domain':
            return {'out': jsonable(M['util'].is_same_domain(case['host'], case['pattern']))}
        if op == 'text':
            v = to_sb(case['v']); r = M['util'].text_(v)
            return {'out': from_sb(r) if ('o' not in case['v']) else {'o': 'same' if r is v else 'changed'}}
        if op == 'bytes':
            v = to_sb(case['v'])
            try:
                r = M['util'].bytes_(v)
            except Exception as e:      # noqa
                return {'err': exc_name(e)}
            return {'ok': from_sb(r) if ('o' not in case['v']) else {'o': 'same' if r is v else 'changed'}}
        if op == 'ascii':
            v = to_sb(case['v'])
            try:
                r = M['util'].ascii_(v)
            except Exception as e:      # noqa
                return {'err': exc_name(e)}
            return {'ok': jsonable(r)}
        if op == 'iter':
            v = case['v']
            return {'nonstr': jsonable(M['util'].is_nonstr_iter(v)), 'strorit': jsonable(M['util'].is_string_or_iterable(v))}
        if op == 'sorted':
            v = case['v']
            r = M['util'].as_sorted_tuple(v)
            return {'out': jsonable(r), 'is_tuple': isinstance(r, tuple)}
    except Exception as e:          # noqa
        return {'raised': exc_name(e)}
    raise ValueError('unknown op %r' % op)


# ---------------------------------------------------------------------------------------------------------------------
# the oracle: the documentation, stated directly

LINEBREAKS = '\n\r\x0b\x0c\x1c\x1d\x1e\x85  '


def doc_asbool(v):
    """glossary: a truthy string is one of t/true/y/yes/on/1 (any case, surrounding whitespace ignored); True/False are
    returned as they are; None is false"""
    if v is None:
        return False
    if isinstance(v, bool):
        return v
    return str(v).strip().lower() in DOC_TRUTHY


def doc_aslist(v, flatten=True):
    """docstring: a list, separating the input on newlines; with flatten each line that is a string is split on spaces"""
    if isinstance(v, str):
        lines = [l.strip() for l in re.split('[' + LINEBREAKS + ']', v)]
        values = [l for l in lines if l]
    elif isinstance(v, (list, tuple)):
        values = list(v)
    else:
        return 'TypeError'
    if not flatten:
        return values
    out = []
    for x in values:
        if isinstance(x, str):
            out.extend(x.split())
        else:
            out.append(x)
    return out


def doc_source(row, merged, env):
    name, envk = row[0], row[1]
    if envk in env:
        return env[envk]
    if 'pyramid.' + name in merged:
        return merged['pyramid.' + name]
    if name in merged:
        return merged[name]
    return row[3]


def doc_settings(case):
    """expected result as a dict (or 'TypeError'), from the documentation only"""
    merged = dict((k, v) for k, v in case['d'])
    merged.update(dict((k, v) for k, v in case['kw']))
    env = dict((k, v) for k, v in case['env'])
    eff = {}
    for row in DOC:
        name, _, kind, _, implied = row
        src = doc_source(row, merged, env)
        if kind == 'bool':
            eff[name] = doc_asbool(src) or any(doc_asbool(doc_source(DOCD[n], merged, env)) for n in implied)
        elif kind == 'str':
            eff[name] = str(src)
        else:
            eff[name] = doc_aslist(src)
            if eff[name] == 'TypeError':
                return 'TypeError', None
    exp = dict(merged)
    for name in NAMES:
        exp[name] = eff[name]
        exp['pyramid.' + name] = eff[name]
    return exp, merged


def oracle(case, got):
    """None, or a description of how the implementation's answer violates the property"""
    op = case['op']
    if 'raised' in got:
        return 'raised %s' % got['raised'], None
    if op == 'settings':
        exp, merged = doc_settings(case)
        if exp == 'TypeError':
            if got.get('err') != 'TypeError':
                return 'a list-valued setting fed a non-iterable must raise TypeError', 'TypeError'
            return None, None
        if 'err' in got:
            return 'Settings raised %s' % got['err'], jsonable_dict(exp)
        res = dict((k, v) for k, v in got['ok'])
        if len(res) != len(got['ok']):
            return 'duplicate keys', None
        for name in NAMES:
            for k in (name, 'pyramid.' + name):
                if k not in res:
                    return 'key %r missing from the result' % k, jsonable_dict(exp)
                if res[k] != jsonable(exp[k]) or type(res[k]) is not type(jsonable(exp[k])):
                    return ('%r is %r, the documentation gives %r (sources: env %r, prefixed %r, bare %r)' % (
                        k, res[k], exp[k], dict(case['env']).get(DOCD[name][1], '<absent>'),
                        merged.get('pyramid.' + name, '<absent>'), merged.get(name, '<absent>'))), jsonable_dict(exp)
        for k in res:
            if k not in exp:
                return 'key %r invented' % k, jsonable_dict(exp)
            if res[k] != jsonable(exp[k]):
                return 'unrelated key %r altered: %r' % (k, res[k]), jsonable_dict(exp)
        for k in exp:
            if k not in res:
                return 'key %r lost' % k, jsonable_dict(exp)
        if got.get('input_untouched') is False:
            return 'the mapping passed in (or the environment) was modified', None
        if got.get('again') != got['ok']:
            if isinstance(got.get('again'), list) and dict(map(tuple_key, got['again'])) == dict(map(tuple_key, got['ok'])):
                return None, None
            return 'Settings(Settings(d)) differs from Settings(d): %r' % (got.get('again'),), None
        return None, None
    if op == 'asbool':
        e = doc_asbool(case['v'])
        return (None if got.get('out') is e else 'asbool gives %r, the documented truthy set gives %r' % (got.get('out'), e)), e
    if op == 'aslist':
        e = doc_aslist(case['v'], case['flatten'])
        if e == 'TypeError':
            return (None if got.get('err') == 'TypeError' else 'expected TypeError'), e
        if 'cronly_differs' in got:
            return 'aslist(flatten=False) and aslist_cronly disagree', jsonable(e)
        return (None if got.get('ok') == jsonable(e) else 'aslist gives %r, the docstring gives %r' % (got.get('ok'), e)), jsonable(e)
    if op == 'differ':
        e = bytes(case['a']) != bytes(case['b'])
        return (None if got.get('out') is e else 'strings_differ gives %r for strings that %s' % (got.get('out'), 'differ' if e else 'are equal')), e
    if op == 'same_domain':
        h, p = case['host'], case['pattern']
        pl = p.lower()
        e = bool(p) and (h == pl or (pl.startswith('.') and (h == pl[1:] or (len(h) > len(pl) and h[-len(pl):] == pl))))
        return (None if bool(got.get('out')) == e and isinstance(got.get('out'), bool) else 'is_same_domain gives %r, label-boundary reading gives %r' % (got.get('out'), e)), e
    if op == 'text':
        v = case['v']
        e = {'s': bytes(v['b']).decode('latin-1')} if 'b' in v else ({'o': 'same'} if 'o' in v else v)
        return (None if got.get('out') == e else 'text_ gives %r, expected %r' % (got.get('out'), e)), e
    if op == 'bytes':
        v = case['v']
        if 's' in v:
            if all(ord(c) < 256 for c in v['s']):
                e = {'ok': {'b': [ord(c) for c in v['s']]}}
            else:
                e = {'err': 'UnicodeEncodeError'}
        else:
            e = {'ok': {'o': 'same'} if 'o' in v else v}
        return (None if got == e else 'bytes_ gives %r, expected %r' % (got, e)), e
    if op == 'ascii':
        v = case['v']
        if 's' in v:
            e = {'ok': v['s']} if all(ord(c) < 128 for c in v['s']) else {'err': 'UnicodeEncodeError'}
        elif 'b' in v:
            e = {'ok': ''.join(chr(x) for x in v['b'])} if all(x < 128 for x in v['b']) else {'err': 'UnicodeDecodeError'}
        else:
            e = {'err': 'TypeError'}
        return (None if got == e else 'ascii_ gives %r, expected %r' % (got, e)), e
    if op == 'iter':
        v = case['v']
        e = {'nonstr': isinstance(v, list), 'strorit': isinstance(v, (str, list))}
        ok = got.get('nonstr') is e['nonstr'] and bool(got.get('strorit')) == e['strorit']
        return (None if ok else 'is_nonstr_iter / is_string_or_iterable give %r, expected %r' % (got, e)), e
    if op == 'sorted':
        v = case['v']
        e = [v] if isinstance(v, str) else sorted(v)
        ok = got.get('out') == e and got.get('is_tuple') is True
        return (None if ok else 'as_sorted_tuple gives %r, expected the sorted tuple %r' % (got, e)), e
    return 'unknown op', None


def tuple_key(p):
    return (p[0], json.dumps(p[1]))


def jsonable_dict(d):
    return [[k, jsonable(v)] for k, v in d.items()]


# ---------------------------------------------------------------------------------------------------------------------
# model protocol

def enc_text(s):
    return [ord(c) for c in s]


def enc_val(v):
    if isinstance(v, str):
        return {'s': enc_text(v)}
    if isinstance(v, list):
        return {'l': [enc_val(x) for x in v]}
    return v


def dec_val(v):
    if isinstance(v, dict):
        if 's' in v:
            return ''.join(chr(c) for c in v['s'])
        return [dec_val(x) for x in v['l']]
    return v


def enc_sb(v):
    return {'s': enc_text(v['s'])} if 's' in v else v


def enc_case(case):
    op = case['op']
    if op == 'settings':
        return {'op': op, 'd': [[enc_text(k), enc_val(v)] for k, v in case['d']],
                'kw': [[enc_text(k), enc_val(v)] for k, v in case['kw']],
                'env': [[enc_text(k), enc_text(v)] for k, v in case['env']]}
    if op == 'asbool':
        return {'op': op, 'v': enc_val(case['v'])}
    if op == 'aslist':
        return {'op': op, 'v': enc_val(case['v']), 'flatten': case['flatten']}
    if op == 'differ':
        return {'op': op, 'a': case['a'], 'b': case['b']}
    if op == 'same_domain':
        return {'op': op, 'host': enc_text(case['host']), 'pattern': enc_text(case['pattern'])}
    if op in ('text', 'bytes', 'ascii'):
        return {'op': op, 'v': enc_sb(case['v'])}
    if op == 'iter':
        return {'op': op, 'v': enc_val(case['v'])}
    if op == 'sorted':
        v = case['v']
        return {'op': op, 'v': {'s': enc_text(v)} if isinstance(v, str) else {'l': [enc_text(x) for x in v]}}
    raise ValueError(op)


def dec_pairs(ps):
    return [[''.join(chr(c) for c in k), dec_val(v)] for k, v in ps]


def compare_model(case, got, mo):
    """None when the implementation's answer equals the model's; else a description"""
    op = case['op']
    if 'error' in mo:
        return 'driver: %s' % mo['error']
    if 'raised' in got:
        return 'implementation raised %s' % got['raised']
    if op == 'settings':
        if not mo.get('dom', True):
            return None
        if 'err' in mo or 'err' in got:
            if mo.get('err') != got.get('err'):
                return 'model %s, implementation %s' % (mo.get('err', 'ok'), got.get('err', 'ok'))
        elif sorted(map(tuple_key, dec_pairs(mo['ok']))) != sorted(map(tuple_key, got['ok'])):
            return 'result dictionaries differ'
        sp = mo.get('spec') or {}
        if ('err' in mo) != ('err' in sp) or ('ok' in mo and sorted(map(tuple_key, dec_pairs(mo['ok']))) != sorted(map(tuple_key, dec_pairs(sp['ok'])))):
            return 'model and its declarative reading differ'
        return None
    if op == 'asbool':
        return None if mo.get('out') is got.get('out') else 'asbool differs'
    if op == 'aslist':
        if 'err' in mo or 'err' in got:
            return None if mo.get('err') == got.get('err') else 'error differs'
        return None if [dec_val(x) for x in mo['ok']] == got['ok'] else 'aslist differs'
    if op in ('differ', 'same_domain'):
        return None if mo.get('out') is got.get('out') else op + ' differs'
    if op == 'text':
        v = case['v']
        if 'o' in v:
            return None if (mo['out'] == v) == (got['out'] == {'o': 'same'}) else 'text_ differs'
        m = mo['out']
        m = {'s': ''.join(chr(c) for c in m['s'])} if 's' in m else m
        return None if m == got['out'] else 'text_ differs'
    if op == 'bytes':
        v = case['v']
        if 'err' in mo or 'err' in got:
            return None if mo.get('err') == got.get('err') else 'error differs'
        if 'o' in v:
            return None if (mo['ok'] == v) == (got['ok'] == {'o': 'same'}) else 'bytes_ differs'
        m = mo['ok']
        m = {'s': ''.join(chr(c) for c in m['s'])} if 's' in m else m
        return None if m == got['ok'] else 'bytes_ differs'
    if op == 'ascii':
        if 'err' in mo or 'err' in got:
            return None if mo.get('err') == got.get('err') else 'error differs'
        return None if ''.join(chr(c) for c in mo['ok']) == got['ok'] else 'ascii_ differs'
    if op == 'iter':
        return None if (mo['nonstr'] is got['nonstr'] and mo['strorit'] == got['strorit']) else 'iter differs'
    if op == 'sorted':
        return None if [''.join(chr(c) for c in t) for t in mo['out']] == got['out'] else 'as_sorted_tuple differs'
    return 'unknown op'


# ---------------------------------------------------------------------------------------------------------------------
# generators

TRUE_WORDS = ['true', 'True', ' True ', 'YES', 'yes', 'on', 'On', 'ON ', '1', ' 1', 't', 'T', 'y', 'Y', 'tRuE', '\tyes\n',
              ' yes ', '\x1fon', 'true\xa0', 'yes\x85', '\x0btrue\x0c', ' yes　', ' on ']
FALSE_WORDS = ['false', 'False', 'no', 'NO', 'off', '0', ' 0 ', 'f', 'n', '', ' ', '\n', 'None']
NEAR = ['truee', 'tru', 'yes please', 'y es', 'o n', '11', '01', '1.0', '+1', 'ye s', 'onn', 'tt', 'ja', 'oui', 'enabled',
        'true\x00', '​true', 'ｔｒｕｅ', 'TRU\xc9', 'ı', 'İ', 'ｙ', 'tr\xfce', "['true']", '[true]', 'yes\x7f', '\x08on',
        'Kes', 'yeſ', 'ẞ', 'oɴ', '﻿yes', 'yes﻿', '᠎on']
LISTY = ['a b', 'a\nb c\n\n d', 'example.com\n.foo.org', ' a ', 'a\tb', 'a\r\nb', 'a\rb', 'a\x0bb', 'a\x0cb', 'a\x1cb', 'a\x1db',
         'a\x1eb', 'a\x1fb', 'a\x85b', 'a\xa0b', 'a b', 'a b', 'a　b', 'a​b', '\n\n', ' \n x \n ', 'a  b   c', 'a b', 'a b', 'a b', 'a b', 'a᠎b', 'a﻿b',
         'one\ntwo three\n  four  ', 'https://x.example\nnull', 'de', 'fr_FR', 'en']
ATOMS = [None, True, False, 0, 1, 2, -1, 10, 255]
LISTS = [[], ['a', 'b'], ['a b', 'c'], ['true'], [' x ', '', 'y\nz'], ['a', 1, None, True], [1, 2], ['a b', 'c\td'], [''], [' ']]
STRAY_KEYS = ['foo', 'pyramid.includes', 'pyramid.tweens', 'debug', 'pyramid.', 'pyramid', 'pyramid.pyramid.debug_all',
              'PYRAMID_DEBUG_ALL', 'Debug_All', 'pyramid.Debug_all', 'debug_all ', ' debug_all', 'reload', 'pyramid.reload_all.x',
              'sqlalchemy.url', 'mako.directories', 'debug_al', 'debug_alll', 'pyramid_debug_all', 'pyramid.debug', '']
STRAY_ENV = ['PATH', 'pyramid.debug_all', 'pyramid_debug_all', 'PYRAMID_DEBUG', 'PYRAMID_DEBUG_ALL_', 'PYRAMID_RELOAD',
             'debug_all', 'PYRAMID_INCLUDES', 'PYRAMID_DEBUG_all', 'HOME']


def rand_str(rng, kind=None):
    r = rng.random()
    if kind == 'list':
        if r < 0.6: return rng.choice(LISTY)
        if r < 0.8:
            seps = [' ', '\n', '  ', '\t', '\r\n', '\x0c', '\xa0', ' \n ', '\x85', ' ']
            return ''.join(rng.choice(['a', 'bc', 'x.y', '.e.f', 'null', '\xe9']) + rng.choice(seps) for _ in range(rng.randint(0, 5)))
    if r < 0.38: return rng.choice(TRUE_WORDS)
    if r < 0.66: return rng.choice(FALSE_WORDS)
    if r < 0.84: return rng.choice(NEAR)
    if r < 0.92: return rng.choice(LISTY)
    pad = [' ', '\t', '\n', '\xa0', ' ', '\x1c', '\x85', '', '', '​', 'x']
    w = rng.choice(['true', 'yes', 'on', '1', 't', 'y', 'no', 'TRUE', 'Yes', 'oN'])
    return rng.choice(pad) + w + rng.choice(pad)


def rand_val(rng, kind=None):
    r = rng.random()
    if kind == 'list':
        if r < 0.45: return rand_str(rng, 'list')
        if r < 0.8: return rng.choice(LISTS)
        if r < 0.9: return rng.choice(ATOMS)
        return rand_str(rng)
    if kind == 'str':
        if r < 0.7: return rng.choice(['de', 'fr_FR', 'en', '', ' en ', 'zh-Hant', 'ру'])
        if r < 0.9: return rng.choice(ATOMS)
        if r < 0.93: return rng.choice(LISTS)
        return rand_str(rng)
    if r < 0.68: return rand_str(rng)
    if r < 0.92: return rng.choice(ATOMS)
    return rng.choice(LISTS)


def gen_settings(rng):
    d, kw, env = [], [], []
    focus = rng.sample(NAMES, rng.choice([1, 2, 3, 4, 6, 13]))
    p = rng.choice([0.25, 0.4, 0.6])
    items = []
    for name in NAMES:
        _, envk, kind, _, _ = DOCD[name]
        q = p if name in focus else p * 0.2
        if rng.random() < q:
            env.append([envk, rand_str(rng, kind)])
        if rng.random() < q:
            items.append(['pyramid.' + name, rand_val(rng, kind)])
        if rng.random() < q:
            items.append([name, rand_val(rng, kind)])
    for _ in range(rng.choice([0, 0, 1, 2, 3])):
        k = rng.choice(STRAY_KEYS)
        if k not in [i[0] for i in items]:
            items.append([k, rand_val(rng)])
    for _ in range(rng.choice([0, 0, 1, 2])):
        k = rng.choice(STRAY_ENV)
        if k not in [e[0] for e in env]:
            env.append([k, rand_str(rng)])
    rng.shuffle(items); rng.shuffle(env)
    for it in items:
        # keyword arguments override the mapping; a few keys are passed both ways
        r = rng.random()
        if r < 0.12 and it[0] not in ('d', '_environ_') and it[0]:
            kw.append(it)
            if rng.random() < 0.4:
                d.append([it[0], rand_val(rng, DOCD.get(it[0].replace('pyramid.', ''), (0, 0, None))[2])])
        else:
            d.append(it)
    mode = 'direct'
    if (rng.random() < 0.12 and all(k.upper().startswith('PYRAMID_') and '\x00' not in v and k == k.upper() for k, v in env)
            and not any(k in ('pyramid.includes', 'pyramid.tweens') for k, _ in d + kw)):
        mode = 'configurator'       # (Configurator itself acts on pyramid.includes / pyramid.tweens)
    return {'op': 'settings', 'd': d, 'kw': kw, 'env': env, 'mode': mode}


HOSTS = ['example.com', 'foo.example.com', 'a.b.example.com', 'badexample.com', 'example.com.evil.org', 'xexample.com',
         '.example.com', 'com', 'example.co', 'EXAMPLE.com', 'localhost', 'example.com:8080', 'foo.example.com:443', '', '.', 'é.example.com']
PATTERNS = ['example.com', '.example.com', 'Example.COM', '.EXAMPLE.com', '', '.', '..', '.com', 'com', 'foo.example.com', '*.example.com',
            '.example.com:8080', 'example.com:8080', 'null', '.é.example.com', 'localhost', '.localhost']


def gen_helper(rng):
    r = rng.random()
    if r < 0.28:
        return {'op': 'asbool', 'v': rand_val(rng)}
    if r < 0.56:
        return {'op': 'aslist', 'v': rand_val(rng, 'list'), 'flatten': rng.random() < 0.6}
    if r < 0.68:
        n = rng.choice([0, 1, 2, 3, 8, 16])
        a = [rng.choice([0, 1, 65, 97, 127, 128, 255]) for _ in range(n)]
        k = rng.random()
        if k < 0.3: b = list(a)
        elif k < 0.6 and a:
            b = list(a); i = rng.randrange(len(a)); b[i] = (b[i] + rng.choice([1, 128])) % 256
        elif k < 0.8: b = a[:-1] if a and rng.random() < 0.5 else a + [rng.choice([0, 97])]
        else: b = [rng.choice([0, 1, 65, 97, 127, 128, 255]) for _ in range(rng.choice([0, 1, 2, 3]))]
        as_ = 'str' if all(x < 128 for x in a + b) and rng.random() < 0.4 else 'bytes'
        return {'op': 'differ', 'a': a, 'b': b, 'as': as_}
    if r < 0.8:
        return {'op': 'same_domain', 'host': rng.choice(HOSTS), 'pattern': rng.choice(PATTERNS)}
    if r < 0.9:
        op = rng.choice(['text', 'bytes', 'ascii'])
        k = rng.random()
        if k < 0.45:
            v = {'s': vfutil.rand_text(rng, 5, p_nonascii=0.25) if rng.random() < 0.6 else rng.choice(['', 'abc', 'é', '\xff', 'Ā', 'a\x7f', '\x80', '日本', 'a😀'])}
        elif k < 0.9:
            v = {'b': [rng.choice([0, 65, 97, 127, 128, 200, 255]) for _ in range(rng.choice([0, 1, 2, 4]))]}
        else:
            v = {'o': rng.randrange(6)}
        return {'op': op, 'v': v}
    if r < 0.94:
        return {'op': 'iter', 'v': rand_val(rng)}
    k = rng.random()
    if k < 0.25:
        return {'op': 'sorted', 'v': rng.choice(['GET', 'b', '', 'é'])}
    pool = ['GET', 'POST', 'HEAD', 'get', 'a', 'b', 'ab', 'a ', '', 'B', 'é', 'z', '10', '9', 'aa', 'Z', '\U0001f600', '￿']
    return {'op': 'sorted', 'v': [rng.choice(pool) for _ in range(rng.choice([0, 1, 2, 3, 5, 8]))]}


def gen_case(rng):
    return gen_settings(rng) if rng.random() < 0.7 else gen_helper(rng)


# ---------------------------------------------------------------------------------------------------------------------
# measuring

def classify(case, dist):
    """updates the distribution; returns True when the case is non-trivial by RULE"""
    op = case['op']
    vfutil.bump(dist['ops'], op)
    if op == 'settings':
        merged = dict((k, v) for k, v in case['d']); merged.update(dict((k, v) for k, v in case['kw']))
        env = dict((k, v) for k, v in case['env'])
        vfutil.bump(dist['settings_mode'], case.get('mode', 'direct'))
        nontriv = False
        if case['kw']: vfutil.bump(dist['settings'], 'with_kw')
        for row in DOC:
            name, envk, kind, default, implied = row
            present = [s for s, ok in (('env', envk in env), ('prefixed', 'pyramid.' + name in merged), ('bare', name in merged)) if ok]
            vfutil.bump(dist['sources_present'], '+'.join(present) or 'default')
            vals = []
            if envk in env: vals.append(env[envk])
            if 'pyramid.' + name in merged: vals.append(merged['pyramid.' + name])
            if name in merged: vals.append(merged[name])
            conv = doc_asbool if kind == 'bool' else (str if kind == 'str' else (lambda v: json.dumps(doc_aslist(v))))
            if len({json.dumps(conv(v)) for v in vals}) > 1:
                nontriv = True
                vfutil.bump(dist['settings'], 'conflicting_sources')
            if kind == 'bool' and implied and not doc_asbool(doc_source(row, merged, env)) and any(
                    doc_asbool(doc_source(DOCD[n], merged, env)) for n in implied):
                nontriv = True
                vfutil.bump(dist['settings'], 'implied_by_switch')
        exp, _ = doc_settings(case)
        if exp == 'TypeError': vfutil.bump(dist['settings'], 'TypeError')
        return nontriv
    if op == 'asbool':
        v = case['v']
        vfutil.bump(dist['asbool'], type(v).__name__ + ('/true' if doc_asbool(v) else '/false'))
        return isinstance(v, str) and v.strip().lower() != v
    if op == 'aslist':
        e = doc_aslist(case['v'], case['flatten'])
        vfutil.bump(dist['aslist'], 'TypeError' if e == 'TypeError' else 'n=%d' % min(len(e), 4))
        return e != 'TypeError' and len(e) > 1
    if op == 'differ':
        eq = case['a'] == case['b']
        vfutil.bump(dist['differ'], 'equal' if eq else ('same_len' if len(case['a']) == len(case['b']) else 'other_len'))
        return not eq and len(case['a']) == len(case['b'])
    if op == 'same_domain':
        return case['pattern'].startswith('.')
    if op in ('text', 'bytes', 'ascii'):
        v = case['v']
        return ('s' in v and any(ord(c) > 127 for c in v['s'])) or ('b' in v and any(x > 127 for x in v['b']))
    if op == 'sorted':
        return isinstance(case['v'], list) and len(case['v']) > 1
    return False


def check_case(M, case, mo):
    got = impl(M, case)
    detail, exp = oracle(case, got)
    mism = viol = None
    if detail:
        viol = {'case': case, 'impl': got, 'expected': exp, 'detail': detail}
    if mo is not None:
        why = compare_model(case, got, mo)
        if why:
            mism = {'case': case, 'impl': got, 'model': mo, 'why': why}
    return mism, viol, got


def shrink_violation(M, v):
    def fails(c):
        try:
            if c.get('op') != v['case']['op']:
                return False
            if c['op'] == 'settings':
                for f in ('d', 'kw', 'env'):
                    ks = [p[0] for p in c[f]]
                    if len(ks) != len(set(ks)) or any(len(p) != 2 or not isinstance(p[0], str) for p in c[f]):
                        return False
                if any(not isinstance(p[1], str) for p in c['env']):
                    return False
                if c.get('mode') not in ('direct', 'configurator'):
                    return False
            g = impl(M, c)
            return bool(oracle(c, g)[0])
        except Exception:       # noqa
            return False
    small = vfutil.shrink(v['case'], fails, max_steps=600)
    if small != v['case']:
        g = impl(M, small)
        d, e = oracle(small, g)
        return {'case': small, 'impl': g, 'expected': e, 'detail': d}
    return v


def run(ctx):
    M = mods(ctx)
    rng = ctx.rng
    n = ctx.n(9000, 160000)
    cases = [c for _, c in ctx.corpus()]
    ncorpus = len(cases)
    cases += fixed_cases()
    nfixed = len(cases) - ncorpus
    cases += [gen_case(rng) for _ in range(n)]
    model = [None] * len(cases)
    notes = []
    if ctx.driver_path:
        model = ctx.run_model([enc_case(c) for c in cases])
    mism, viol, agree = [], [], 0
    dist = {'ops': {}, 'settings_mode': {}, 'sources_present': {}, 'settings': {}, 'asbool': {}, 'aslist': {}, 'differ': {},
            'outside_model_domain': 0}
    seen, nontriv = set(), set()
    for case, mo in zip(cases, model):
        m, v, got = check_case(M, case, mo)
        if m: mism.append(m)
        elif mo is not None: agree += 1
        if v: viol.append(v)
        if mo is not None and mo.get('dom') is False: dist['outside_model_domain'] += 1
        key = vfutil.canon(case)
        nt = classify(case, dist)
        if key not in seen:
            seen.add(key)
            if nt: nontriv.add(key)
    viol = [shrink_violation(M, v) for v in viol[:5]] + viol[5:40]
    sweep = codepoint_sweep(M, full=(ctx.tier == 'thorough'))
    viol += sweep['violations']
    notes.append('code-point sweep: %d calls of asbool/aslist over %d code points, %d deviations from the documented reading' % (
        sweep['calls'], sweep['points'], len(sweep['violations'])))
    notes.append('is_string_or_iterable returns None (not False) for a value that is neither: observed %r' % (M['util'].is_string_or_iterable(5),))
    return {'evaluations': len(cases) + sweep['calls'], 'distinct_nontrivial': len(nontriv), 'rule': RULE, 'agreeing': agree,
            'samples': cases[ncorpus + nfixed:ncorpus + nfixed + 4] + cases[-2:], 'mismatches': mism[:20], 'violations': viol,
            'distribution': dist, 'notes': notes,
            'assumptions': ['environment values are text (os.environ); settings values are None/bool/int/str/list of such',
                            'str.strip/split/splitlines/lower and hmac.compare_digest are Python\'s; the model states their '
                            'whitespace and line-boundary sets (checked against the running code by extract/x02.py and the sweep)',
                            'str(list) for default_locale_name is outside the modelled domain (oracle still checks it)'],
            'trusted_base': ['extract/x02.py probes the running Settings/asbool/aslist for the settings table, the truthy '
                             'set and the whitespace/line-boundary sets (Gen/X02.lean)']}


def fixed_cases():
    """every documented setting alone under each source and pairwise conflicts with fixed true/false spellings"""
    out = []
    for name, envk, kind, default, implied in DOC:
        t, f = ('yes', 'no') if kind == 'bool' else (('de', 'fr') if kind == 'str' else ('a.example\nb.example c.example', 'z.example'))
        srcs = [('env', envk), ('d', 'pyramid.' + name), ('d', name)]
        for mask in range(1, 8):
            for flip in (0, 1):
                d, env = [], []
                for i, (where, key) in enumerate(srcs):
                    if mask >> i & 1:
                        val = t if ((i + flip) % 2 == 0) else f
                        (env if where == 'env' else d).append([key, val])
                out.append({'op': 'settings', 'd': d, 'kw': [], 'env': env, 'mode': 'direct'})
        for n in implied:
            for where in range(3):
                d, env = [[name, 'false']], []
                key = [DOCD[n][1], 'pyramid.' + n, n][where]
                (env if where == 0 else d).append([key, 'true'])
                out.append({'op': 'settings', 'd': d, 'kw': [], 'env': env, 'mode': 'direct'})
    out.append({'op': 'settings', 'd': [], 'kw': [], 'env': [], 'mode': 'direct'})
    out.append({'op': 'settings', 'd': [], 'kw': [], 'env': [], 'mode': 'configurator'})
    for w in sorted(DOC_TRUTHY) + ['f', 'false', 'n', 'no', 'off', '0']:
        for v in (w, w.upper(), ' ' + w + '\n', w + w):
            out.append({'op': 'asbool', 'v': v})
    return out


def codepoint_sweep(M, full):
    """asbool and aslist against the documented reading for every code point used as padding / separator / letter"""
    asbool, aslist, cronly = M['settings'].asbool, M['settings'].aslist, M['settings'].aslist_cronly
    pts = list(range(0x3100)) + [0xFEFF, 0xFF54, 0xFF59, 0x1D42D, 0x1F600, 0xE0020] if not full else [
        c for c in range(0x110000) if not 0xD800 <= c <= 0xDFFF]
    viol, calls = [], 0
    for cp in pts:
        c = chr(cp)
        for v in (c, c + 'true' + c, 'y' + c, c + 'es', 'tru' + c, 'o' + c):
            calls += 1
            if asbool(v) is not doc_asbool(v):
                viol.append({'case': {'op': 'asbool', 'v': v}, 'impl': {'out': jsonable(asbool(v))}, 'expected': doc_asbool(v),
                             'detail': 'asbool deviates from the documented truthy set at U+%04X' % cp})
        v = 'a' + c + 'b'
        for fl in (True, False):
            calls += 1
            r = aslist(v, flatten=fl)
            if r != doc_aslist(v, fl) or (not fl and cronly(v) != r):
                viol.append({'case': {'op': 'aslist', 'v': v, 'flatten': fl}, 'impl': {'ok': jsonable(r)}, 'expected': doc_aslist(v, fl),
                             'detail': 'aslist deviates from the docstring at U+%04X' % cp})
        if len(viol) > 20:
            break
    return {'violations': viol[:6], 'calls': calls, 'points': len(pts)}


def search(ctx):
    """small-scope exhaustive search on the implementation only (oracle, no model): for every documented setting every
    combination of {absent, 'true', 'false', ''} in the three sources, with its switches absent / on by each source;
    asbool on every string of length <= 3 over 't r u e y s o n 1 0 T space'; aslist on every string of length <= 4 over
    'a b space \\n \\r \\t'; then the random stream (oracle only)"""
    M = mods(ctx)
    viol, n = [], 0
    vals = [None, 'true', 'false', '']

    def push(case):
        nonlocal n
        n += 1
        g = impl(M, case)
        d, e = oracle(case, g)
        if d:
            viol.append(shrink_violation(M, {'case': case, 'impl': g, 'expected': e, 'detail': d}))

    for name, envk, kind, default, implied in DOC:
        t = {'bool': 'true', 'str': 'de', 'list': 'a b\nc'}[kind]
        f = {'bool': 'false', 'str': 'fr', 'list': 'z'}[kind]
        opts = [None, t, f, '']
        switch_opts = [None] + [(nm, w) for nm in implied for w in range(3)]
        for e_, p_, b_ in itertools.product(opts, repeat=3):
            for sw in switch_opts:
                d, env = [], []
                if e_ is not None: env.append([envk, e_])
                if p_ is not None: d.append(['pyramid.' + name, p_])
                if b_ is not None: d.append([name, b_])
                if sw:
                    nm, w = sw
                    key = [DOCD[nm][1], 'pyramid.' + nm, nm][w]
                    (env if w == 0 else d).append([key, 'on'])
                push({'op': 'settings', 'd': d, 'kw': [], 'env': env, 'mode': 'direct'})
        if len(viol) >= 3:
            return {'violations': viol, 'searched': n, 'exhaustive': False}
    for L in range(4):
        for tup in itertools.product('trueysonf10T ', repeat=L):
            push({'op': 'asbool', 'v': ''.join(tup)})
            if len(viol) >= 3:
                return {'violations': viol, 'searched': n, 'exhaustive': False}
    for v in ATOMS + LISTS:
        push({'op': 'asbool', 'v': v})
    for L in range(5):
        for tup in itertools.product('ab \n\r\t', repeat=L):
            for fl in (True, False):
                push({'op': 'aslist', 'v': ''.join(tup), 'flatten': fl})
            if len(viol) >= 3:
                return {'violations': viol, 'searched': n, 'exhaustive': False}
    for v in LISTS:
        for fl in (True, False):
            push({'op': 'aslist', 'v': v, 'flatten': fl})
    for h in HOSTS:
        for p in PATTERNS:
            push({'op': 'same_domain', 'host': h, 'pattern': p})
    sw = codepoint_sweep(M, full=False)
    viol += sw['violations']; n += sw['calls']
    exhaustive = not viol
    rng = ctx.rng
    k = 0
    while not viol and k < ctx.n(20000, 200000) and ctx.time_left() > 60:
        push(gen_case(rng)); k += 1
    return {'violations': viol[:5], 'searched': n, 'exhaustive': exhaustive,
            'scope': 'per setting 4^3 source combinations x switch placements; asbool strings <= 3 over 13 characters; '
                     'aslist strings <= 4 over 6 characters; hosts x patterns; code-point sweep; then %d random cases' % k}


def replay(ctx, rep):
    case = rep.get('case')
    if case is None:
        return {'violates': False, 'note': 'replay names broken obligations only', 'broken': rep.get('broken_obligations')}
    M = mods(ctx)
    mo = ctx.run_model([enc_case(case)])[0] if ctx.driver_path else None
    m, v, got = check_case(M, case, mo)
    return {'case': case, 'impl': got, 'model': mo, 'spec': oracle(case, got)[1], 'mismatch': m and m['why'],
            'detail': v and v['detail'], 'violates': bool(v)}
