"""C10 — signed cookie sessions (pyramid.session): correspondence of lean/PyramidModel/Session.lean with the real
code, driven through a real application (Configurator + Router + SignedCookieSessionFactory; the Set-Cookie of
one response becomes the Cookie of a later request), and the property itself judged on the implementation's
observable behaviour by `judge` (a direct reading of the statement, independent of the Lean build).

A case is a whole HISTORY:
  {"opts": {...factory options...}, "clock0": q,
   "reqs": [{"dq": n, "present": P, "ops": null | [[dq, OP], ...], "raised": bool}, ...]}
Clocks are integers counting QUARTER SECONDS; a fake `time` module (and a fake `os.urandom`) is bound into
`pyramid.session` while a case runs, so nothing depends on real time or randomness.
  P  = "latest" | "absent" | ["issued", k] | ["edit", EDIT] | ["otherkey", {"secret","salt","hashalg"}]
       | ["wire", JV]            (hand-made value signed with the REAL key)
  OP = see lean/PyramidModel/Drv/C10.lean;  JV = null|bool|int|str|{"l":[JV]}|{"d":[[k,JV]]}
"""
import base64, binascii, hashlib, itertools, json, sys

import vfutil

RULE = ('histories of 1..7 requests through a real Router with SignedCookieSessionFactory (options: timeout, '
        'reissue_time, set_on_exception, hashalg, secret, salt, max_age, cookie attributes); each request advances a fake '
        'clock (quarter seconds; advances are aimed at the exact timeout / reissue boundaries of the cookie in the jar), '
        'presents the latest / no / an older / an edited / a foreign-key / a well-signed-but-malformed cookie (shape cube: arity, stamp kinds, state kinds; 15% of the histories run BaseCookieSessionFactory with an unsigned serialiser), runs 0..7 session calls '
        '(each with its own clock advance; explicit defaults of pop/get/setdefault come from the pool of stored values, often the stored value itself) or does not touch the session, and may raise into an exception view.  A history '
        'is non-trivial when some request starts with non-empty data loaded from a cookie set by an earlier request, or '
        'presents a cookie that is expired / refused / edited, or a response callback refuses an oversize cookie; '
        'distinct = distinct canonical case JSON')

B64 = 'ABCDEFGHIJKLMNOPQRSTUVWXYZabcdefghijklmnopqrstuvwxyz0123456789-_'
LIMIT = 4064


# ------------------------------------------------------------------------------------------------
# JSON-normal values <-> protocol encoding

def enc(v):
    if v is None or isinstance(v, (bool, str)):
        return v
    if isinstance(v, int):
        return v
    if isinstance(v, list):
        return {'l': [enc(x) for x in v]}
    if isinstance(v, dict):
        out = []
        for k, x in v.items():
            if not isinstance(k, str):
                raise ValueError('non-string key')
            out.append([k, enc(x)])
        return {'d': out}
    raise ValueError('outside the JSON-normal domain: %r' % (v,))


def dec(j):
    if isinstance(j, dict):
        if 'l' in j:
            return [dec(x) for x in j['l']]
        return {k: dec(x) for k, x in j['d']}
    return j


def enc_data(d):
    return [[k, enc(v)] for k, v in d.items()]


def q_of(x):
    """a Python number of seconds -> quarter seconds (must be exact)"""
    y = x * 4
    if y != int(y) or y < 0:
        raise ValueError('clock value off the quarter grid: %r' % (x,))
    return int(y)


# ------------------------------------------------------------------------------------------------
# the real application

class _Clock:
    q = 0

    def time(self):
        return self.q / 4


class _Os:
    nxt = b'\0' * 20

    def urandom(self, n):
        return (self.nxt * n)[:n]


CLOCK, FAKEOS = _Clock(), _Os()
HOLD = {}
_APPS = {}
_PATCHED = []


class Boom(Exception):
    pass


def _patch():
    import pyramid.session as S
    if not _PATCHED:
        _PATCHED.append((S.time, S.os))
    S.time, S.os = CLOCK, FAKEOS


def _unpatch():
    import pyramid.session as S
    if _PATCHED:
        S.time, S.os = _PATCHED.pop()


def _tform(n, form):
    if n is None:
        return None
    return {'int': n, 'float': float(n) + 0.5, 'str': str(n)}[form]     # int() of all three is n


class PlainSerializer:
    """a transparent (unsigned) serialiser for BaseCookieSessionFactory: base64url(json) without padding; ValueError on
    anything malformed — the same wire format as SignedSerializer with a digest of 0 bytes"""
    salted_secret = None

    def dumps(self, appstruct):
        return base64.urlsafe_b64encode(json.dumps(appstruct).encode('utf-8')).rstrip(b'=')

    def loads(self, bstruct):
        try:
            raw = base64.urlsafe_b64decode(bstruct + b'=' * (-len(bstruct) % 4))
            return json.loads(raw.decode('utf-8'))
        except (binascii.Error, TypeError, ValueError) as e:
            raise ValueError(str(e))


def get_app(opts):
    # one NEW application (hence one new session factory) per history: the factory then serves the whole chain of requests,
    # and nothing a factory may remember leaks from one history (or one shrinking attempt) into another — replays are self-contained
    from pyramid.config import Configurator
    from pyramid.response import Response
    from pyramid.session import SignedCookieSessionFactory, BaseCookieSessionFactory
    common = dict(cookie_name=opts['name'], max_age=opts['max_age'], path=opts['path'], domain=opts['domain'],
                  secure=opts['secure'], httponly=opts['httponly'], samesite=opts['samesite'], set_on_exception=opts['soe'],
                  timeout=_tform(opts['timeout'], opts['tform']), reissue_time=_tform(opts['reissue'], opts['tform']))
    if opts.get('unsigned'):
        factory = BaseCookieSessionFactory(PlainSerializer(), **common)
    else:
        factory = SignedCookieSessionFactory(opts['secret'], hashalg=opts['hashalg'], salt=opts['salt'], **common)

    def view(request):
        sc, obs = HOLD['req'], HOLD['obs']
        if sc['ops'] is None:
            return Response('untouched')
        obs['touched'] = True
        try:
            s = request.session
        except Exception as e:                      # noqa
            obs['loadRaised'] = type(e).__name__
            return Response('load raised')
        obs['start'] = {'data': enc_data(dict(dict.items(s))), 'created': q_of(s.created), 'renewed': q_of(s.renewed),
                        'new': bool(s.new)}
        for dq, op in sc['ops']:
            CLOCK.q += dq
            obs['times'].append(CLOCK.q)
            obs['results'].append(do_op(s, op))
        obs['end'] = {'data': enc_data(dict(dict.items(s))), 'created': q_of(s.created), 'accessed': q_of(s.accessed),
                      'accInt': isinstance(s.accessed, int), 'dirty': bool(s._dirty),
                      'callbacks': len(request.response_callbacks)}
        obs['accessed_py'] = s.accessed
        obs['created_py'] = s.created
        if sc['raised']:
            raise Boom()
        return Response('ok')

    def excview(exc, request):
        r = Response('boom')
        r.status_int = 500
        return r

    c = Configurator()
    c.set_session_factory(factory)
    c.add_route('r', '/')
    c.add_view(view, route_name='r')
    c.add_view(excview, context=Boom)
    return c.make_wsgi_app()


def do_op(s, op):
    """one ISession call through the public (wrapped) methods; result canonicalised"""
    k = op[0]
    try:
        if k == 'get':
            return ['val', enc(s.get(op[1]) if len(op) == 2 else s.get(op[1], dec(op[2])))]
        if k == 'getitem':
            return ['val', enc(s[op[1]])]
        if k == 'contains':
            return ['bool', op[1] in s]
        if k == 'len':
            return ['nat', len(s)]
        if k == 'keys':
            return ['keys', list(s.keys())]
        if k == 'iter':
            return ['keys', list(iter(s))]
        if k == 'items':
            return ['items', [[a, enc(b)] for a, b in s.items()]]
        if k == 'values':
            return ['vals', [enc(b) for b in s.values()]]
        if k == 'set':
            s[op[1]] = dec(op[2]); return 'unit'
        if k == 'del':
            del s[op[1]]; return 'unit'
        if k == 'update':
            r = s.update({a: dec(b) for a, b in op[1]}); return 'unit' if r is None else ['odd', repr(r)]
        if k == 'pop':
            return ['val', enc(s.pop(op[1]) if len(op) == 2 else s.pop(op[1], dec(op[2])))]
        if k == 'popitem':
            a, b = s.popitem(); return ['items', [[a, enc(b)]]]
        if k == 'setdefault':
            return ['val', enc(s.setdefault(op[1], dec(op[2])))]
        if k == 'clear':
            r = s.clear(); return 'unit' if r is None else ['odd', repr(r)]
        if k == 'flash':
            r = s.flash(dec(op[1]), op[2], op[3]); return 'unit' if r is None else ['odd', repr(r)]
        if k == 'pop_flash':
            return ['val', enc(s.pop_flash(op[1]))]
        if k == 'peek_flash':
            return ['val', enc(s.peek_flash(op[1]))]
        if k == 'new_csrf':
            FAKEOS.nxt = bytes.fromhex(op[1]); return ['val', enc(s.new_csrf_token())]
        if k == 'get_csrf':
            FAKEOS.nxt = bytes.fromhex(op[1]); return ['val', enc(s.get_csrf_token())]
        if k == 'invalidate':
            r = s.invalidate(); return 'unit' if r is None else ['odd', repr(r)]
        if k == 'changed':
            r = s.changed(); return 'unit' if r is None else ['odd', repr(r)]
    except KeyError:
        return 'keyerror'
    except (AttributeError, TypeError):
        return 'err'
    except Exception as e:          # noqa
        return ['exc', type(e).__name__]
    return ['badop', k]


# ------------------------------------------------------------------------------------------------
# cookies on the wire

def digest_size(alg):
    return hashlib.new(alg).digest_size


def real_serializer(secret, salt, alg):
    from webob.cookies import SignedSerializer
    return SignedSerializer(secret, salt, alg)


def fstruct_of(text):
    """what SignedSerializer.loads decodes before checking the signature; None = ValueError"""
    try:
        b = text.encode('latin-1')
    except UnicodeEncodeError:
        return None
    try:
        return base64.urlsafe_b64decode(b + b'=' * (-len(b) % 4))
    except (binascii.Error, TypeError, ValueError):
        return None


def b64(raw):
    return base64.urlsafe_b64encode(raw).rstrip(b'=').decode('ascii')


def apply_edit(base, e, dsize):
    """an edit of a cookie value (text -> text)"""
    base = base or ''
    k = e[0]
    n = len(base)
    if k == 'append':
        return base + e[1]
    if k == 'prepend':
        return e[1] + base
    if k == 'garbage':
        return e[1]
    if k == 'dup':
        return base + base
    if n == 0:
        return 'x'
    if k == 'sub':
        i = e[1] % n
        return base[:i] + e[2] + base[i + 1:]
    if k == 'del':
        i = e[1] % n
        return base[:i] + base[i + 1:]
    if k == 'ins':
        i = e[1] % (n + 1)
        return base[:i] + e[2] + base[i:]
    if k == 'trunc':
        return base[:max(0, n - e[1])]
    if k == 'swapcase':
        i = e[1] % n
        return base[:i] + base[i].swapcase() + base[i + 1:]
    if k == 'lastbits':
        i = B64.find(base[-1])
        return base[:-1] + (B64[i ^ e[1]] if i >= 0 else 'A')
    f = fstruct_of(base)
    if f is None or len(f) <= dsize:
        return base + 'x'
    if k == 'sig' and dsize == 0:
        k, e = 'payload', ['payload', e[1], 49]
    if k == 'payload':
        i = dsize + e[1] % (len(f) - dsize)
        return b64(f[:i] + bytes([e[2] % 256]) + f[i + 1:])
    if k == 'sig':
        i = e[1] % dsize
        return b64(f[:i] + bytes([f[i] ^ (1 << (e[2] % 8))]) + f[i + 1:])
    if k == 'cutpayload':
        return b64(f[:max(dsize, len(f) - e[1])])
    raise ValueError('unknown edit %r' % (e,))


def classify_fld(x):
    try:
        y = float(x)
    except (TypeError, ValueError):
        return 'bad'
    return q_of(y)


def classify_wire(value):
    """how CookieSession.__init__ will read a verified value (independent reading: Python's own unpacking,
    float() and dict())"""
    try:
        r, c, s = value
    except (TypeError, ValueError):
        return 'nt'
    # since fix f6dc9a1 the state must be a mapping (`isinstance(sval, dict)`), anything else is malformed
    st = enc_data(s) if isinstance(s, dict) else 'nodict'       # enc_data raises on values outside the protocol's domain
    return [classify_fld(r), classify_fld(c), st]


def py_to_wire(value):
    """mirror of JV.toWire (lean/PyramidModel/Session.lean) with digitStrNum — used only to decide whether the raw value can be
    handed to the model (it can when this agrees with classify_wire, Python's own reading)"""
    if isinstance(value, list) and len(value) == 3:
        a, b, c = value
    elif isinstance(value, dict) and len(value) == 3:
        a, b, c = list(value)
    elif isinstance(value, str) and len(value) == 3:
        a, b, c = value
    else:
        return 'nt'

    def fld(x):
        if isinstance(x, bool):
            return 4 if x else 0
        if isinstance(x, int):
            return 4 * max(x, 0)
        if isinstance(x, str) and x and all('0' <= ch <= '9' for ch in x):
            return 4 * int(x)
        return 'bad'

    def state(x):
        if isinstance(x, dict):
            return enc_data(x)
        return 'nodict'
    return [fld(a), fld(b), state(c)]


def model_wire(value):
    json.dumps(value, ensure_ascii=False).encode('utf-8')      # lone surrogates (an edit can split an escaped pair) are outside Text
    w = classify_wire(value)
    try:
        if py_to_wire(value) == w:
            return ['raw', enc(value)], w
    except Exception:       # noqa
        pass
    return ['wire', w], w


def well_formed_payload(value):
    """the statement's well-formed payload: three fields, two stamps `float()` accepts, a mapping"""
    if not (isinstance(value, (list, str, dict)) and len(value) == 3):
        return False
    a, b, c = list(value)
    return classify_fld(a) != 'bad' and classify_fld(b) != 'bad' and isinstance(c, dict)


def non_mapping_state(value):
    """the class of the repaired defect F-C10c: three fields, stamps `float()` accepts, state NOT a mapping"""
    if not (isinstance(value, (list, str, dict)) and len(value) == 3):
        return False
    a, b, c = list(value)
    return classify_fld(a) != 'bad' and classify_fld(b) != 'bad' and not isinstance(c, dict)


def parse_set_cookie(resp, name):
    out = []
    for h in resp.headers.getall('Set-Cookie'):
        parts = [p.strip() for p in h.split(';')]
        n, _, v = parts[0].partition('=')
        if n == name:
            attrs = {}
            for p in parts[1:]:
                a, _, b = p.partition('=')
                attrs[a.lower()] = b
            out.append((v, attrs))
    return out


def attrs_expected(opts):
    exp = {}
    if opts['max_age'] is not None:
        exp['max-age'] = str(int(opts['max_age']))
    if opts['path'] is not None:
        exp['path'] = opts['path']
    if opts['domain'] is not None:
        exp['domain'] = opts['domain']
    if opts['secure']:
        exp['secure'] = ''
    if opts['httponly']:
        exp['httponly'] = ''
    if opts['samesite'] is not None:
        exp['samesite'] = opts['samesite']
    return exp


class Runner:
    """runs a history request by request on the real application; builds the model case alongside"""

    def __init__(self, opts, clock0):
        self.opts, self.clock0 = opts, clock0
        self.app = get_app(opts)
        self.unsigned = bool(opts.get('unsigned'))
        self.dsize = 0 if self.unsigned else digest_size(opts['hashalg'])
        self.ser = PlainSerializer() if self.unsigned else real_serializer(opts['secret'], opts['salt'], opts['hashalg'])
        self.clock = clock0
        self.issued = []          # newest first: dicts {text, fstruct, payload(model form), meta}
        self.trace = []
        self.mreqs = []
        self.info = []            # per request: facts for judge/distribution

    def mcase(self):
        o = self.opts
        return {'cfg': {'timeout': o['timeout'], 'reissue': o['reissue'], 'soe': o['soe'], 'dsize': self.dsize},
                'clock0': self.clock0, 'reqs': self.mreqs}

    def _present(self, p):
        """-> (cookie text or None, model present, info)"""
        latest = self.issued[0] if self.issued else None
        if p == 'latest':
            return (latest['text'] if latest else None), 'latest', {'kind': 'latest', 'meta': latest and latest['meta']}
        if p == 'absent':
            return None, 'absent', {'kind': 'absent', 'meta': None}
        if p[0] == 'issued':
            c = self.issued[p[1]] if p[1] < len(self.issued) else None
            return (c['text'] if c else None), ['issued', p[1]], {'kind': 'issued', 'meta': c and c['meta']}
        if p[0] == 'raw':
            return p[1], None, {'kind': 'edit', 'orig': latest}
        if p[0] == 'edit':
            return apply_edit(latest and latest['text'], p[1], self.dsize), None, {'kind': 'edit', 'orig': latest}
        if p[0] == 'otherkey' and self.unsigned:
            return (latest['text'] if latest else None), 'latest', {'kind': 'latest', 'meta': latest and latest['meta']}
        if p[0] == 'otherkey':
            k = p[1]
            if latest:
                cstruct = latest['fstruct'][self.dsize:]
            else:
                cstruct = json.dumps([self.clock // 4, self.clock / 4, {'forged': 1}]).encode()
            import hmac
            from pyramid.util import bytes_
            try:
                key2 = bytes_(k['salt'] or '') + bytes_(k['secret'])
            except UnicodeEncodeError:
                key2 = bytes_(k['salt'] or '', 'utf-8') + bytes_(k['secret'], 'utf-8')
            sig = hmac.new(key2, cstruct, lambda s=b'': hashlib.new(k['hashalg'], s)).digest()
            text = b64(sig + cstruct)
            same_key = (key2 == self.ser.salted_secret and k['hashalg'] == self.opts['hashalg'])
            value = json.loads(cstruct.decode('utf-8'), object_pairs_hook=dict)
            return text, None, {'kind': 'otherkey', 'same_key': same_key, 'value': value,
                                'differs': k['secret'] != self.opts['secret'] or (k['salt'] or '') != (self.opts['salt'] or '')
                                or k['hashalg'] != self.opts['hashalg'], 'orig': latest}
        if p[0] == 'wire':
            value = dec(p[1])
            text = self.ser.dumps(value).decode('ascii')
            mp, w = model_wire(value)
            return text, mp, {'kind': 'wire', 'meta': None, 'value': value, 'w': w}
        raise ValueError('bad present %r' % (p,))

    def step(self, req):
        from pyramid.request import Request
        name = self.opts['name']
        self.clock += req['dq']
        CLOCK.q = self.clock
        text, mpres, info = self._present(req['present'])
        r = Request.blank('/')
        seen = None
        if text is not None:
            r.environ['HTTP_COOKIE'] = (name + '=' + text).encode('utf-8').decode('latin-1')
            seen = r.cookies.get(name)
        info['seen'] = seen
        if mpres is None:
            # classify what the serialiser is given, on the real bytes
            orig = info.get('orig')
            if info['kind'] == 'otherkey' and info['same_key'] and seen == text:
                info['cls'] = 'samekey'
                mpres, info['w'] = model_wire(info['value'])
            elif seen is None:
                info['cls'] = 'unseen'; mpres = 'absent'
            elif orig is not None and seen == orig['text']:
                info['cls'] = 'noop'; mpres = 'latest'
            else:
                f = fstruct_of(seen)
                if f is None:
                    info['cls'] = 'undecodable'; mpres = 'reject'
                elif orig is not None and f == orig['fstruct']:
                    info['cls'] = 'same'; mpres = 'latest'
                else:
                    older = [i for i, c in enumerate(self.issued) if c['fstruct'] == f]
                    if older:
                        info['cls'] = 'replay'; mpres = ['issued', older[0]]
                    elif self.unsigned:
                        # nothing verifies an unsigned cookie: what the serialiser makes of the edited text decides
                        try:
                            value = self.ser.loads(seen.encode('latin-1'))
                        except (ValueError, UnicodeEncodeError):
                            value = _Ser_BAD = None
                            info['cls'] = 'undecodable'; mpres = 'reject'
                        else:
                            try:
                                mpres, info['w'] = model_wire(value)
                                info.update(kind='wire', cls='unsigned-edit', value=value, meta=None)
                            except Exception:       # noqa  (a value outside the protocol's domain, e.g. a float inside the state)
                                if orig is not None:
                                    r.environ['HTTP_COOKIE'] = (name + '=' + orig['text'])
                                    info['cls'] = 'noop'; mpres = 'latest'
                                else:
                                    r.environ.pop('HTTP_COOKIE', None)
                                    info['cls'] = 'unseen'; mpres = 'absent'
                    else:
                        info['cls'] = 'differ'; mpres = 'reject'
        obs = {'touched': False, 'loadRaised': None, 'start': None, 'results': [], 'times': [], 'end': None,
               'outcome': 'nocookie', 'load_clock': self.clock, 'attrs_ok': True, 'status': None}
        HOLD['req'], HOLD['obs'] = req, obs
        _patch()
        try:
            resp = r.get_response(self.app)
            obs['status'] = resp.status_int
            cs = parse_set_cookie(resp, name)
            if len(cs) > 1:
                obs['outcome'] = ['multiple', len(cs)]
            elif cs:
                v, attrs = cs[0]
                attrs.pop('expires', None)
                obs['attrs_ok'] = (attrs == attrs_expected(self.opts))
                obs['attrs'] = attrs
                f = fstruct_of(v)
                cstruct = f[self.dsize:]
                pl = json.loads(cstruct.decode('utf-8'), object_pairs_hook=dict)
                payload = {'accessed': q_of(pl[0]), 'accInt': isinstance(pl[0], int), 'created': q_of(pl[1]),
                           'data': enc_data(pl[2]), 'size': len(v)}
                obs['outcome'] = ['cookie', payload]
                obs['sig_ok'] = (self.ser.dumps(tuple(pl)).decode('ascii') == v)
                self.issued.insert(0, {'text': v, 'fstruct': f, 'payload': payload,
                                       'meta': {'end_data': obs['end'] and obs['end']['data'], 'created': obs['start'] and obs['start']['created'],
                                                'stamp': obs['end'] and obs['end']['accessed'], 'req': len(self.trace)}})
        except ValueError as e:
            obs['outcome'] = 'error'
            obs['error'] = str(e)[:80]
        except Exception as e:      # noqa
            obs['outcome'] = ['raised', type(e).__name__, str(e)[:80]]
        finally:
            _unpatch()
        self.clock = CLOCK.q
        if obs['end'] is not None:
            try:
                obs['would_size'] = len(self.ser.dumps((obs.pop('accessed_py'), obs.pop('created_py'),
                                                        {k: dec(v) for k, v in obs['end']['data']})))
            except Exception as e:      # noqa
                obs['would_size'] = None
        self.trace.append(obs)
        self.info.append(info)
        self.mreqs.append({'dq': req['dq'], 'present': mpres, 'ops': req['ops'], 'raised': req['raised']})
        return obs


def run_case(case):
    rn = Runner(case['opts'], case['clock0'])
    for req in case['reqs']:
        rn.step(req)
    return rn


# ------------------------------------------------------------------------------------------------
# the property, judged on the implementation's observations

WRAPPED_CHANGED = {'set', 'del', 'update', 'pop', 'popitem', 'setdefault', 'clear', 'flash', 'pop_flash', 'new_csrf', 'invalidate'}
WRAPPED_ACCESSED = {'get', 'getitem', 'contains', 'len', 'keys', 'items', 'values', 'iter', 'peek_flash', 'get_csrf'}


def py_eq(a, b):
    return a == b


def ref_op(op, d):
    """ISession semantics of one call on an insertion-ordered dict `d` (mutated in place); returns the canonical
    result.  Written from the ISession / dict documentation, not from session.py."""
    k = op[0]
    if k == 'get': return ['val', enc(d.get(op[1]))] if len(op) == 2 else ['val', enc(d.get(op[1], dec(op[2])))]
    if k == 'getitem': return ['val', enc(d[op[1]])] if op[1] in d else 'keyerror'
    if k == 'contains': return ['bool', op[1] in d]
    if k == 'len': return ['nat', len(d)]
    if k in ('keys', 'iter'): return ['keys', list(d)]
    if k == 'items': return ['items', [[a, enc(b)] for a, b in d.items()]]
    if k == 'values': return ['vals', [enc(b) for b in d.values()]]
    if k == 'set': d[op[1]] = dec(op[2]); return 'unit'
    if k == 'del':
        if op[1] in d: del d[op[1]]; return 'unit'
        return 'keyerror'
    if k == 'update':
        for a, b in op[1]: d[a] = dec(b)
        return 'unit'
    if k == 'pop':
        if op[1] in d: return ['val', enc(d.pop(op[1]))]
        return ['val', op[2]] if len(op) == 3 else 'keyerror'
    if k == 'popitem':
        if not d: return 'keyerror'
        a = list(d)[-1]; return ['items', [[a, enc(d.pop(a))]]]
    if k == 'setdefault':
        if op[1] not in d: d[op[1]] = dec(op[2])
        return ['val', enc(d[op[1]])]
    if k in ('clear', 'invalidate'): d.clear(); return 'unit'
    if k == 'flash':
        key = '_f_' + op[2]
        q = d.setdefault(key, [])
        if not isinstance(q, list): return 'err'
        m = dec(op[1])
        if op[3] or not any(py_eq(x, m) for x in q): q.append(m)
        return 'unit'
    if k == 'pop_flash': return ['val', enc(d.pop('_f_' + op[1], []))]
    if k == 'peek_flash': return ['val', enc(d.get('_f_' + op[1], []))]
    if k == 'new_csrf': d['_csrft_'] = op[1]; return ['val', op[1]]
    if k == 'get_csrf':
        if d.get('_csrft_') is None: d['_csrft_'] = op[1]
        return ['val', enc(d['_csrft_'])]
    if k == 'changed': return 'unit'
    return ['badop', k]


def judge(case, rn):
    """list of violations of the STATEMENT (properties.jsonl C10) by the observed behaviour"""
    o = case['opts']
    T, R = o['timeout'], o['reissue']
    out = []

    def bad(i, detail, expected, finding=None):
        v = {'case': case, 'impl': {'request': i, 'obs': rn.trace[i]}, 'expected': expected, 'detail': 'request %d: %s' % (i, detail)}
        if finding:
            v['finding'] = finding
        out.append(v)

    prev = None     # index of the previous touching request
    for i, (req, obs, info) in enumerate(zip(case['reqs'], rn.trace, rn.info)):
        if req['ops'] is None:
            if obs['outcome'] != 'nocookie':
                bad(i, 'a request that never touches the session produced %r' % (obs['outcome'],), 'no cookie')
            continue
        kind = info['kind']
        if isinstance(obs['outcome'], list) and obs['outcome'][0] in ('raised', 'multiple'):
            bad(i, 'unexpected outcome %r' % (obs['outcome'],), 'a response')
            prev = None
            continue
        wire_meta = None
        if kind == 'wire' or (kind == 'otherkey' and info.get('cls') == 'samekey' and not info['differs']):
            # a value that DESERIALISES (signed by the real serialiser, or read by an unsigned one).  The statement: anything
            # that is not a well-formed (stamp, stamp, mapping) payload yields a NEW EMPTY session — no key of its state visible —
            # and never an exception; a well-formed one is loaded exactly (subject to the timeout).
            value = info['value']
            now = obs['load_clock']
            if well_formed_payload(value):
                a, b, c = list(value)
                wire_meta = {'end_data': enc_data(c), 'created': classify_fld(b), 'stamp': classify_fld(a)}
            else:
                finding = None          # F-C10c (non-mapping state) is repaired (f6dc9a1): no tolerance
                st = obs['start']
                if obs['loadRaised']:
                    bad(i, 'request.session raised %s on the deserialised value %s' % (obs['loadRaised'], json.dumps(value)[:80]),
                        'a new empty session, no exception', finding)
                    prev = None
                    continue
                if not (st['new'] and st['data'] == [] and st['created'] == now):
                    bad(i, 'the malformed deserialised value %s gave a session with new=%s data=%s created=%s' % (json.dumps(value)[:80], st['new'], json.dumps(st['data'])[:80], st['created']),
                        {'new': True, 'data': [], 'created': now}, finding)
                    prev = None
                    continue
                kind = 'absent'          # from here on it is judged like a request without a cookie
        now = obs['load_clock']
        if obs['loadRaised']:
            bad(i, 'request.session raised %s' % obs['loadRaised'], 'never raises')
            prev = None
            continue
        st = obs['start']
        # which abstract session does the statement say this request continues?
        if wire_meta is not None:
            meta = wire_meta
        elif kind in ('latest', 'issued'):
            meta = info['meta']
        elif kind == 'absent':
            meta = None
        else:
            meta = None          # edited / other secret, salt, algorithm: must be refused
        if kind in ('edit', 'otherkey') and info.get('cls') == 'noop':
            meta = info['orig']['meta']       # the cookie parser hands the session the unchanged value
        if meta is None:
            ok = st['new'] and st['data'] == [] and st['created'] == now
            if not ok:
                finding = None
                if kind == 'edit' and info.get('cls') == 'same':
                    finding = 'F-C10a'
                if kind == 'otherkey' and info.get('cls') == 'samekey':
                    finding = 'F-C10b'
                if kind == 'edit' and info.get('cls') == 'replay':
                    finding = 'replay-by-edit'   # never a known finding: reported
                bad(i, 'a cookie that is %s was not answered with a new empty session (new=%s data=%s)'
                    % ({'edit': 'altered (class %s)' % info.get('cls'), 'otherkey': 'signed with another secret/salt/algorithm',
                        'absent': 'absent'}.get(kind, kind), st['new'], json.dumps(st['data'])[:80]),
                    {'new': True, 'data': [], 'created': now}, finding)
        else:
            expired = T is not None and now - meta['stamp'] > 4 * T
            exp_data = [] if expired else meta['end_data']
            if st['data'] != exp_data:
                bad(i, 'session starts with %s, the request that set the presented cookie ended with %s (expired=%s)'
                    % (json.dumps(st['data'])[:120], json.dumps(meta['end_data'])[:120], expired), {'data': exp_data})
            if st['created'] != meta['created'] or st['new']:
                bad(i, 'creation time %s / new=%s, expected preserved creation time %s' % (st['created'], st['new'], meta['created']),
                    {'created': meta['created'], 'new': False})
            # direct form of persistence: consecutive requests that both present the latest cookie
            if kind == 'latest' and prev is not None and rn.info[prev]['kind'] == 'latest':
                p = rn.trace[prev]
                committed = not (p['outcome'] == 'error' or (req_raised(case, prev) and not o['soe']))
                if committed and p['end'] is not None and not expired and st['data'] != p['end']['data']:
                    bad(i, 'session starts with %s but the previous request ended with %s'
                        % (json.dumps(st['data'])[:120], json.dumps(p['end']['data'])[:120]), {'data': p['end']['data']})
        en = obs['end']
        # the calls behave as calls on a dictionary with flash queues and a CSRF token
        ref = {k: dec(v) for k, v in st['data']}
        for j, ((dq, op), got) in enumerate(zip(req['ops'], obs['results'])):
            want = ref_op(op, ref)
            if want != got:
                bad(i, 'call %d %s returned %s, a session holding %s returns %s' % (j, json.dumps(op)[:80], json.dumps(got)[:80], '…', json.dumps(want)[:80]), {'result': want})
                break
        else:
            if enc_data(ref) != en['data']:
                bad(i, 'after its calls the session holds %s, expected %s' % (json.dumps(en['data'])[:120], json.dumps(enc_data(ref))[:120]), {'data': enc_data(ref)})
        modified = en['data'] != st['data']
        due = False
        if R is not None:
            for (dq, op), t in zip(req['ops'], obs['times']):
                if (op[0] in WRAPPED_CHANGED or op[0] in WRAPPED_ACCESSED) and (t // 4) * 4 - st['renewed'] > 4 * R:
                    due = True
        need = modified or due
        excused = req['raised'] and not o['soe']
        ws = obs.get('would_size')
        cookie = obs['outcome'] if isinstance(obs['outcome'], list) and obs['outcome'][0] == 'cookie' else None
        if obs['outcome'] == 'error':
            if ws is None or ws <= LIMIT:
                bad(i, 'ValueError %r although the serialised cookie has %s characters' % (obs.get('error'), ws), 'no error')
        if need and not excused:
            if ws is not None and ws > LIMIT:
                if obs['outcome'] != 'error':
                    bad(i, 'serialised cookie of %d characters (> %d) was not refused: %r' % (ws, LIMIT, str(obs['outcome'])[:100]), 'ValueError, no cookie')
            elif cookie is None:
                bad(i, 'the session was %s but no cookie was set' % ('modified' if modified else 'accessed after the reissue time'), 'Set-Cookie')
        if cookie is not None:
            pl = cookie[1]
            if pl['data'] != en['data']:
                bad(i, 'the cookie carries %s, the session ended with %s' % (json.dumps(pl['data'])[:120], json.dumps(en['data'])[:120]), {'data': en['data']})
            if pl['created'] != st['created']:
                bad(i, 'the cookie carries creation time %s, the session had %s' % (pl['created'], st['created']), {'created': st['created']})
            if pl['accessed'] != en['accessed']:
                bad(i, 'the cookie carries access time %s, the session had %s' % (pl['accessed'], en['accessed']), {'accessed': en['accessed']})
            if pl['size'] > LIMIT:
                bad(i, 'a cookie of %d characters was set' % pl['size'], 'refused')
            if not obs.get('sig_ok'):
                bad(i, 'the cookie is not signed with the configured secret/salt/algorithm', 'valid signature')
        prev = i
    return out


def req_raised(case, i):
    return bool(case['reqs'][i]['raised'])


# ------------------------------------------------------------------------------------------------
# correspondence

def model_view(m):
    """the model's per-request answer in the shape of the implementation's observation"""
    out = m['outcome']
    if out in ('none', 'suppressed'):
        out = 'nocookie'
    elif out == 'oversize':
        out = 'error'
    st = m['start']
    en = m['end']
    return {'touched': m['touched'], 'loadRaised': bool(m['loadRaised']), 'start': st, 'results': m['results'], 'end': en, 'outcome': out}


def impl_view(o):
    return {'touched': o['touched'], 'loadRaised': bool(o['loadRaised']), 'start': o['start'], 'results': o['results'],
            'end': o['end'], 'outcome': o['outcome']}


def compare(case, rn, mo):
    if mo is None:
        return None
    if 'error' in mo:
        return {'case': case, 'impl': 'n/a', 'model': mo}
    for i, (o, m) in enumerate(zip(rn.trace, mo['model'])):
        a, b = impl_view(o), model_view(m)
        if a != b or not o['attrs_ok']:
            diff = [k for k in a if a[k] != b[k]] + ([] if o['attrs_ok'] else ['cookie attributes %r' % (o.get('attrs'),)])
            return {'case': case, 'impl': {'request': i, 'differs_in': diff, 'obs': a}, 'model': {'request': i, 'obs': b}}
    if len(mo['model']) != len(rn.trace):
        return {'case': case, 'impl': len(rn.trace), 'model': len(mo['model'])}
    # the driver's declarative spec against the model (both Lean): must agree wherever the spec speaks
    if mo.get('spec') is not None:
        for i, (m, s) in enumerate(zip(mo['model'], mo['spec'])):
            if not m['touched'] or m['loadRaised']:
                continue
            mv = {'start': m['start']['data'], 'created': m['start']['created'], 'new': m['start']['new'], 'results': m['results'],
                  'end': m['end']['data'], 'outcome': m['outcome']}
            sv = {k: s[k] for k in mv}
            if mv != sv:
                return {'case': case, 'impl': 'lean model vs lean spec, request %d' % i, 'model': {'model': mv, 'spec': sv}}
    return None


# ------------------------------------------------------------------------------------------------
# generation

KEYS = ['a', 'b', 'k', 'user', 'é', 'x y', '"q"', '\\', '😀', '', '_f_', '_f_q', '_csrft_', 'big']
VALS = [None, True, False, 0, 1, -5, 2 ** 40, 'v', '', 'é€', '😀\n', 'a"b\\c', [], [1, 'a'], [True, None, [2]],
        {'a': 1}, {}, {'z': [1, {'y': None}], 'a': 'b'}, 'x' * 40, '\x00\x7f\x1f', 'l\u2028s\x85']
# the small pool shared by stored values AND explicit defaults (pop / get / setdefault): singletons and interned objects, so
# that "stored value == default" and "stored value IS the default object" both occur often
SMALL = [None, True, False, 0, 1, '', 'a', []]
QUEUES = ['', 'q', 'err']
MSGS = ['m1', 'm2', 'm1', 1, True, 0, False, ['x'], {'a': 1}, None, 'é']
SECRETS = ['s3cret', 'another-secret', 'sécret', 'x' * 70]
SALTS = ['pyramid.session.', 'salt', '', 'sält']
ALGS = ['sha512', 'sha512', 'sha256', 'sha1', 'md5', 'sha3_256', 'sha384']
APPENDS = ['=', '==', '===', 'A', 'x', '!', '.', '€', 'é', '\\', '%3D', '/', '+', '~', 'AAAA', '!!!!', '====']


def tok(rng):
    return bytes([rng.randrange(256)] * 20).hex() if rng.random() < 0.7 else bytes(rng.randrange(256) for _ in range(20)).hex()


def gen_opts(rng):
    return {'timeout': rng.choice([None, 0, 1, 2, 3, 5, 10, 1200]), 'reissue': rng.choice([None, None, None, 0, 0, 1, 2, 5, 30, 99999]),
            'soe': rng.random() < 0.6, 'hashalg': rng.choice(ALGS), 'secret': rng.choice(SECRETS), 'salt': rng.choice(SALTS),
            'max_age': rng.choice([None, None, 0, 100, '50']), 'name': rng.choice(['session', 'session', 'sid']),
            'tform': rng.choice(['int', 'int', 'float', 'str']), 'secure': rng.random() < 0.3, 'httponly': rng.random() < 0.3,
            'samesite': rng.choice(['Lax', 'Lax', 'Strict', None]), 'path': rng.choice(['/', '/', '/app']),
            'domain': rng.choice([None, None, 'example.com']), 'unsigned': rng.random() < 0.15}


def pick_val(rng):
    return rng.choice(SMALL) if rng.random() < 0.5 else rng.choice(VALS)


def gen_op(rng, poisoned, held=None):
    """`held`: the items of the cookie in the jar ([[k, enc v]…]) — keys and defaults are aimed at them"""
    r = rng.random()
    k = rng.choice(KEYS)
    stored = None
    if held and rng.random() < 0.5:
        k, stored = rng.choice(held)
    def dflt():
        # an explicit default: often exactly the stored value (same object for None/bool/small int/interned str)
        if stored is not None or (held and k in [a for a, _ in held]):
            if rng.random() < 0.6:
                return [b for a, b in held if a == k][0]
        return enc(rng.choice(SMALL)) if rng.random() < 0.7 else enc(rng.choice(VALS))
    if r < 0.05: return ['get', k]
    if r < 0.09: return ['get', k, dflt()]
    if r < 0.12: return ['getitem', k]
    if r < 0.15: return ['contains', k]
    if r < 0.18: return [rng.choice(['len', 'keys', 'items', 'values', 'iter'])]
    if r < 0.36:
        v = pick_val(rng)
        if k.startswith('_f_') and not isinstance(v, list): poisoned.add(k[3:])
        return ['set', k, enc(v)]
    if r < 0.41: return ['del', k]
    if r < 0.46:
        kv = [[rng.choice(KEYS), enc(pick_val(rng))] for _ in range(rng.randrange(4))]
        for a, b in kv:
            if a.startswith('_f_') and not (isinstance(b, dict) and 'l' in b): poisoned.add(a[3:])
        return ['update', kv]
    if r < 0.55: return ['pop', k] if rng.random() < 0.3 else ['pop', k, dflt()]
    if r < 0.57: return ['popitem']
    if r < 0.63:
        v = dec(dflt())
        if k.startswith('_f_') and not isinstance(v, list): poisoned.add(k[3:])
        return ['setdefault', k, enc(v)]
    if r < 0.65: return ['clear']
    if r < 0.76:
        q = rng.choice(QUEUES)
        return ['flash', enc(rng.choice(MSGS)), q, True if q in poisoned else rng.random() < 0.5]
    if r < 0.80: return ['pop_flash', rng.choice(QUEUES)]
    if r < 0.84: return ['peek_flash', rng.choice(QUEUES)]
    if r < 0.88: return ['new_csrf', tok(rng)]
    if r < 0.94: return ['get_csrf', tok(rng)]
    if r < 0.96: return ['invalidate']
    return ['changed']


def gen_edit(rng):
    r = rng.random()
    if r < 0.22: return ['append', rng.choice(APPENDS)]
    if r < 0.30: return ['lastbits', rng.choice([1, 2, 3, 4, 8, 16, 32])]
    if r < 0.42: return ['sub', rng.randrange(10000), rng.choice(B64 + '!= ')]
    if r < 0.50: return ['del', rng.randrange(10000)]
    if r < 0.58: return ['ins', rng.randrange(10000), rng.choice(B64 + '!=.€')]
    if r < 0.64: return ['trunc', rng.choice([1, 2, 3, 4, 5, 8, 50])]
    if r < 0.70: return ['swapcase', rng.randrange(10000)]
    if r < 0.82: return ['payload', rng.randrange(10000), rng.choice([48, 49, 57, 32, 93, 125, 34, 0, 255])]
    if r < 0.90: return ['sig', rng.randrange(10000), rng.randrange(8)]
    if r < 0.93: return ['cutpayload', rng.choice([1, 2, 5, 1000])]
    if r < 0.96: return ['prepend', rng.choice(['A', '=', ' ', '"'])]
    if r < 0.98: return ['dup']
    return ['garbage', rng.choice(['', 'abc', '!!!!', 'é', '€', '=', 'A' * 200, 'e30', 'bnVsbA'])]


# deserialised values: the shape cube (arity 0-5; each stamp a number / numeric string / word / null / bool / list / dict /
# nested; the state an empty or non-empty dict / list / list of pairs / string / null / number)
W_STAMPS = [0, 5, 1200, '7', '12', 'x', '', None, True, False, [], [1], {'a': 1}, {}, [[2]]]
W_STATES = [{}, {'k': 1}, {'uid': 'admin', '_csrft_': 'tok', '_f_': ['m']}, {'n': {'d': [1, {'e': None}]}}, [], [['k', 1]], [['k', 1], ['k', 2], ['j', None]],
            [1], 'ab', 'xyz', '', None, 3, True]
W_OTHERS = [None, 0, 7, True, 'abc', '123', '12', '', [], [1], [1, 2], [1, 2, {'k': 1}, 4], [1, 2, {'k': 1}, 4, 5], {}, {'a': 1},
            {'a': 1, 'b': 2, 'c': 3}, {'1': 0, '2': 0, '3': 0}, {'1': 0, '2': 0, '': 0}, [[1, 2, {'k': 1}]], [None, None, None]]


def gen_wire(rng, clock):
    r = rng.random()
    sec = clock // 4
    if r < 0.15:
        return rng.choice(W_OTHERS)
    if r < 0.45:
        # well-formed, stamped around the clock (so that the timeout matters)
        return [max(0, sec - rng.choice([0, 1, 2, 3, 5, 10, 11, 1200])), rng.choice([sec, 7, '9', True]), rng.choice(W_STATES[:4])]
    if r < 0.75:
        # exactly one thing wrong
        v = [max(0, sec - rng.choice([0, 1, 5])), rng.choice([sec, 7]), rng.choice(W_STATES[1:4])]
        k = rng.randrange(3)
        v[k] = rng.choice(['x', '', None, [], [1], {'a': 1}, {}]) if k < 2 else rng.choice(W_STATES[4:])
        return v
    return [rng.choice(W_STAMPS), rng.choice(W_STAMPS), rng.choice(W_STATES)]


def alias_plan(rng, q, mode, have_queue):
    """requests that mutate a NESTED value of the session in place (a flash queue: `storage.append`) and end WITHOUT a
    Set-Cookie — withheld by set_on_exception=False after a raising view (mode 'exc'), refused for size (mode 'big'), or that do
    set a cookie while a second client still holds the old one (mode 'two') — followed by requests presenting the SAME cookie
    again.  The session a request starts with must be a function of the presented cookie alone."""
    plan = []
    if not have_queue:
        plan.append({'dq': 0, 'present': 'latest', 'ops': [[0, ['flash', enc(rng.choice(['m0', 0, ['n']])), q, True]]], 'raised': False})
    msg = 'x' * 4200 if mode == 'big' else rng.choice(['m1', 1, ['n', 2], {'d': None}])
    mut = [[0, ['peek_flash', q]]] * rng.randrange(2) + [[0, ['flash', enc(msg), q, True]]] + [[0, ['len']]] * rng.randrange(2)
    plan.append({'dq': rng.choice([0, 1]), 'present': 'latest', 'ops': mut, 'raised': mode == 'exc'})
    again = ['issued', 1] if mode == 'two' else 'latest'
    plan.append({'dq': rng.choice([0, 1]), 'present': again, 'ops': [[0, ['items']], [0, ['peek_flash', q]]], 'raised': False})
    if rng.random() < 0.5:
        plan.append({'dq': 0, 'present': again if mode != 'two' else ['issued', 1], 'ops': [[0, ['peek_flash', q]], [0, ['flash', enc('m2'), q, False]]], 'raised': mode == 'exc'})
        plan.append({'dq': 0, 'present': 'latest', 'ops': [[0, ['items']]], 'raised': False})
    return plan


def gen_req(rng, rn, st):
    """the next request, aimed at the boundaries of the cookie currently in the jar"""
    if st.get('plan'):
        return st['plan'].pop(0)
    if rng.random() < 0.06:
        latest0 = rn.issued[0] if rn.issued else None
        q = rng.choice(QUEUES[:2])
        have = bool(latest0) and any(k == '_f_' + q and isinstance(v, dict) and 'l' in v for k, v in latest0['payload']['data'])
        mode = rng.choice(['exc', 'exc', 'big', 'two'])
        st['plan'] = alias_plan(rng, q, mode, have)
        st['alias_plans'] = st.get('alias_plans', 0) + 1
        return st['plan'].pop(0)
    o = rn.opts
    T, R = o['timeout'], o['reissue']
    latest = rn.issued[0] if rn.issued else None
    r = rng.random()
    dq = rng.choice([0, 0, 1, 2, 3, 4, 5, 8, 13, 40])
    if latest is not None:
        stamp = latest['payload']['accessed']
        if T is not None and r < 0.35:
            dq = max(0, stamp + 4 * T + rng.choice([-4, -1, 0, 0, 1, 1, 2, 4]) - rn.clock)
            st['aimed_timeout'] += 1
        elif R is not None and r < 0.6:
            # a whole-second reading strictly above / exactly at stamp + 4R
            dq = max(0, stamp + 4 * R + rng.choice([-1, 0, 1, 3, 4, 5, 7]) - rn.clock)
            st['aimed_reissue'] += 1
    r = rng.random()
    if r < 0.62 or (latest is None and r < 0.8):
        present = 'latest'
    elif r < 0.68:
        present = 'absent'
    elif r < 0.73:
        present = ['issued', rng.randrange(3)]
    elif r < 0.88:
        present = ['edit', gen_edit(rng)]
    elif r < 0.92:
        if rng.random() < 0.15:
            # same salted secret split at another place (F-C10b class)
            whole = (o['salt'] or '') + o['secret']
            cut = rng.randrange(len(whole) + 1)
            k = {'secret': whole[cut:], 'salt': whole[:cut], 'hashalg': o['hashalg']}
        else:
            k = {'secret': rng.choice(SECRETS + [o['secret']]), 'salt': rng.choice(SALTS + [o['salt']]),
                 'hashalg': rng.choice(ALGS + [o['hashalg']] * 3)}
        present = ['otherkey', k]
    else:
        present = ['wire', enc(gen_wire(rng, rn.clock + dq))]
    held = latest['payload']['data'] if (latest is not None and present == 'latest') else None
    r = rng.random()
    if r < 0.06:
        ops = None
    elif held and r < 0.16:
        # the only modifying call removes a key with a default that is (often) the stored value itself; reads around it
        k, v = rng.choice(held)
        d = v if rng.random() < 0.7 else enc(rng.choice(SMALL))
        only = rng.choice([['pop', k, d], ['pop', k, d], ['pop', k], ['del', k], ['setdefault', rng.choice(KEYS), d], ['pop_flash', k[3:] if k.startswith('_f_') else 'q']])
        reads = [['get', k, d], ['contains', k], ['len'], ['peek_flash', ''], ['getitem', k]]
        ops = [[0, rng.choice(reads)] for _ in range(rng.randrange(2))] + [[0, only]] + [[0, rng.choice(reads)] for _ in range(rng.randrange(2))]
        st['single_modifier'] = st.get('single_modifier', 0) + 1
    else:
        n = rng.choice([0, 1, 1, 2, 2, 3, 3, 4, 5, 7])
        ops = []
        for _ in range(n):
            odq = 0 if rng.random() < 0.6 else rng.choice([1, 2, 3, 4, 5, 8])
            if R is not None and latest is not None and rng.random() < 0.1:
                odq = max(0, latest['payload']['accessed'] + 4 * R + rng.choice([0, 1, 4, 5]) - rn.clock - dq - sum(x[0] for x in ops))
            ops.append([odq, gen_op(rng, st['poisoned'], held)])
        if rng.random() < 0.06:
            # aim at the size limit: total JSON text of 3048 - dsize bytes is exactly 4064 characters
            base = latest['payload']['size'] if latest else 0
            target = (LIMIT // 4) * 3 - rn.dsize + rng.choice([-3, -1, 0, 0, 1, 1, 2, 40])
            have = (len(latest['fstruct']) - rn.dsize) if latest else 40
            old = 0
            if latest:
                for k, v in latest['payload']['data']:
                    if k == 'big' and isinstance(v, str):
                        old = len(v) + 9
            ops.append([0, ['set', 'big', 'x' * max(0, target - have + old - (0 if old else 9))]])
            st['aimed_size'] += 1
    return {'dq': dq, 'present': present, 'ops': ops, 'raised': rng.random() < 0.12}


def gen_case(rng, st):
    """generates AND runs (generation looks at the jar); returns (case, runner)"""
    opts = gen_opts(rng)
    clock0 = rng.choice([400, 401, 402, 403, 4000, 39999, 4 * 1700000000 + rng.randrange(4)])
    rn = Runner(opts, clock0)
    st['poisoned'] = set()
    st['plan'] = []
    reqs = []
    n = rng.choice([1, 2, 3, 3, 4, 4, 5, 6, 7])
    while len(reqs) < n or (st['plan'] and len(reqs) < n + 6):
        req = gen_req(rng, rn, st)
        reqs.append(req)
        rn.step(req)
    st['plan'] = []
    return {'opts': opts, 'clock0': clock0, 'reqs': reqs}, rn


# ------------------------------------------------------------------------------------------------

def well_formed(case):
    try:
        o = case['opts']
        for k in ('timeout', 'reissue', 'soe', 'hashalg', 'secret', 'salt', 'max_age', 'name', 'tform', 'secure', 'httponly', 'samesite', 'path', 'domain'):
            o[k]
        hashlib.new(o['hashalg'])
        if not (o['name'] in ('session', 'sid') and o['tform'] in ('int', 'float', 'str') and o['samesite'] in ('Lax', 'Strict', None)
                and o['path'] in ('/', '/app') and o['domain'] in (None, 'example.com') and o['max_age'] in (None, 0, 100, '50')
                and isinstance(o['secret'], str) and o['secret'] and isinstance(o['salt'], str)
                and all(isinstance(o[k], bool) for k in ('soe', 'secure', 'httponly')) and isinstance(o.get('unsigned', False), bool)
                and all(o[k] is None or (isinstance(o[k], int) and not isinstance(o[k], bool) and 0 <= o[k] < 10 ** 6) for k in ('timeout', 'reissue'))):
            return False
        if not (isinstance(case['clock0'], int) and case['clock0'] >= 0 and isinstance(case['reqs'], list)):
            return False
        for r in case['reqs']:
            if not (isinstance(r['dq'], int) and r['dq'] >= 0 and isinstance(r['raised'], bool)):
                return False
            if r['ops'] is not None:
                for dq, op in r['ops']:
                    if not (isinstance(dq, int) and dq >= 0 and isinstance(op, list) and op):
                        return False
                    if op[0] in ('new_csrf', 'get_csrf'):
                        if len(bytes.fromhex(op[1])) != 20:
                            return False
            p = r['present']
            if not (p in ('latest', 'absent') or (isinstance(p, list) and p[0] in ('issued', 'edit', 'otherkey', 'wire', 'raw'))):
                return False
        return True
    except Exception:
        return False


def evaluate(ctx_or_none, case, rn=None, model_out=None, use_model=True, run_model=None):
    if rn is None:
        rn = run_case(case)
    viol = judge(case, rn)
    mism = None
    if use_model and run_model is not None and model_out is None:
        model_out = run_model([rn.mcase()])[0]
    if model_out is not None:
        mism = compare(case, rn, model_out)
    return rn, viol, mism


def fails_unknown(case):
    if not well_formed(case):
        return False
    try:
        rn = run_case(case)
        return any(not v.get('finding') or v['finding'] not in KNOWN for v in judge(case, rn))
    except Exception:
        return False


KNOWN = {'F-C10a', 'F-C10b'}


def shrink_case(case, pred):
    def still(c):
        return well_formed(c) and len(c['reqs']) >= 1 and pred(c)
    return vfutil.shrink(case, still, max_steps=600)


def describe(case, rn, dist, st):
    nontrivial = False
    for req, obs, info in zip(case['reqs'], rn.trace, rn.info):
        vfutil.bump(dist['present'], info['kind'] + (':' + info['cls'] if 'cls' in info else ''))
        if req['ops'] is None:
            vfutil.bump(dist['outcome'], 'untouched'); continue
        vfutil.bump(dist['ops_per_request'], min(len(req['ops']), 8))
        for _, op in req['ops']:
            vfutil.bump(dist['op'], op[0])
        for r in obs['results']:
            if isinstance(r, str) and r != 'unit':
                vfutil.bump(dist['op_errors'], r)
        oc = obs['outcome'] if isinstance(obs['outcome'], str) else obs['outcome'][0]
        if oc == 'nocookie' and obs['end'] and obs['end']['dirty']:
            oc = 'suppressed'
        vfutil.bump(dist['outcome'], oc)
        if obs['loadRaised']:
            vfutil.bump(dist['load_raised'], obs['loadRaised'])
        stt = obs['start']
        if stt:
            meta = info.get('meta')
            if meta and stt['data'] and not stt['new']:
                nontrivial = True
                dist['loaded_nonempty'] += 1
            if meta and case['opts']['timeout'] is not None:
                d = obs['load_clock'] - meta['stamp'] - 4 * case['opts']['timeout']
                if d == 0: dist['at_timeout_exactly'] += 1
                if d == 1: dist['one_quarter_past_timeout'] += 1
                if d > 0:
                    dist['expired'] += 1; nontrivial = True
            if info['kind'] in ('edit', 'otherkey', 'wire'):
                nontrivial = True
        if obs['outcome'] == 'error':
            nontrivial = True
        if isinstance(obs['outcome'], list) and obs['outcome'][0] == 'cookie':
            if obs['outcome'][1]['size'] == LIMIT: dist['cookie_exactly_at_limit'] += 1
        if obs.get('would_size') in (LIMIT + 1, LIMIT + 2) and obs['outcome'] == 'error': dist['refused_just_above_limit'] += 1
        if req['raised']:
            vfutil.bump(dist['raised_views'], 'set_on_exception=%s' % case['opts']['soe'])
        if obs['end'] and obs['start'] and case['opts']['reissue'] is not None and obs['times']:
            for t in obs['times']:
                d = (t // 4) * 4 - obs['start']['renewed'] - 4 * case['opts']['reissue']
                if d == 0: dist['at_reissue_exactly'] += 1
                if 0 < d <= 4: dist['just_past_reissue'] += 1
    return nontrivial


def excluded_points():
    """values outside JsonNormal, run on the real code (documented, not judged)"""
    notes = []
    opts = {'timeout': 1200, 'reissue': 0, 'soe': True, 'hashalg': 'sha512', 'secret': 's', 'salt': 'pyramid.session.', 'max_age': None,
            'name': 'session', 'tform': 'int', 'secure': False, 'httponly': False, 'samesite': 'Lax', 'path': '/', 'domain': None}
    from pyramid.request import Request
    import pyramid.session as S
    factory = S.SignedCookieSessionFactory('s')
    for label, value in (('tuple value', (1, 2)), ('int key dict', {1: 'a'}), ('float', 1.5), ('set', {1})):
        _patch()
        try:
            CLOCK.q = 400
            req = Request.blank('/')
            cbs = []
            req.add_response_callback = lambda cb: cbs.append(cb)
            s = factory(req)
            s['v'] = value
            from pyramid.response import Response
            resp = Response()
            try:
                s._set_cookie(resp)
                ck = parse_set_cookie(resp, 'session')[0][0]
                req2 = Request.blank('/'); req2.environ['HTTP_COOKIE'] = 'session=' + ck
                s2 = factory(req2)
                back = dict.get(s2, 'v')
                notes.append('excluded point (%s): stored %r, next request reads %r (%s)' % (label, value, back, 'same' if back == value and type(back) is type(value) else 'changed by JSON'))
            except Exception as e:      # noqa
                notes.append('excluded point (%s): _set_cookie raises %s' % (label, type(e).__name__))
        finally:
            _unpatch()
    # an in-place dict method that is not in the statement's operation list and is not wrapped
    _patch()
    try:
        req = Request.blank('/'); cbs = []
        req.add_response_callback = lambda cb: cbs.append(cb)
        s = factory(req)
        try:
            s |= {'a': 1}
            notes.append('outside the statement\'s operation list: `session |= {...}` (dict.__ior__) changes the dict, dirty=%s, callbacks=%d' % (s._dirty, len(cbs)))
        except Exception as e:      # noqa
            notes.append('`session |= {...}`: %s' % type(e).__name__)
    finally:
        _unpatch()
    return notes


def run(ctx):
    rng = ctx.rng
    n = ctx.n(1500, 25000)
    st = {'poisoned': set(), 'aimed_timeout': 0, 'aimed_reissue': 0, 'aimed_size': 0}
    items = []      # (case, runner)
    ncorpus = 0
    for _, c in ctx.corpus():
        if well_formed(c):
            items.append((c, run_case(c))); ncorpus += 1
    for c in scope_cases(ctx.n(1, 2)):
        items.append((c, run_case(c))); ncorpus += 1
    for c in default_scope(ctx.n(1, 2)):
        items.append((c, run_case(c))); ncorpus += 1
    for c in shape_scope(ctx.tier != 'quick'):
        items.append((c, run_case(c))); ncorpus += 1
    for c in alias_scope():
        items.append((c, run_case(c))); ncorpus += 1
    t_gen = 0
    for _ in range(n):
        items.append(gen_case(rng, st))
        if ctx.time_left() < 120:
            break
    model = ctx.run_model([rn.mcase() for _, rn in items]) if ctx.driver_path else [None] * len(items)
    mism, viol, agree = [], [], 0
    seen, nontriv = set(), set()
    dist = {'present': {}, 'outcome': {}, 'ops_per_request': {}, 'op': {}, 'op_errors': {}, 'load_raised': {}, 'raised_views': {},
            'requests_per_history': {}, 'loaded_nonempty': 0, 'at_timeout_exactly': 0, 'one_quarter_past_timeout': 0, 'expired': 0,
            'cookie_exactly_at_limit': 0, 'refused_just_above_limit': 0, 'at_reissue_exactly': 0, 'just_past_reissue': 0,
            'aimed': {k: st.get(k, 0) for k in ('aimed_timeout', 'aimed_reissue', 'aimed_size', 'single_modifier', 'alias_plans')}, 'same_cookie_again_after_inplace_mutation': 0, 'known': {}, 'hashalg': {},
            'spec_compared': 0, 'wire': {}, 'unsigned_histories': 0, 'pop_default_equals_stored': 0, 'pop_default_equals_stored_only_modifier_no_reissue': 0, 'reissue_option': {}}
    for (case, rn), mo in zip(items, model):
        vs = judge(case, rn)
        viol.extend(vs)
        for v in vs:
            if v.get('finding'): vfutil.bump(dist['known'], v['finding'])
        m = compare(case, rn, mo)
        if m: mism.append(m)
        elif mo is not None: agree += 1
        if mo is not None and mo.get('spec') is not None: dist['spec_compared'] += 1
        vfutil.bump(dist['requests_per_history'], len(case['reqs']))
        vfutil.bump(dist['hashalg'], case['opts']['hashalg'])
        vfutil.bump(dist['reissue_option'], str(case['opts']['reissue']))
        if case['opts'].get('unsigned'): dist['unsigned_histories'] += 1
        seen_prev = None
        for req, obs, inf in zip(case['reqs'], rn.trace, rn.info):
            if req['ops'] is None:
                continue
            if seen_prev is not None and inf.get('seen') is not None and inf['seen'] == seen_prev[0] and seen_prev[1]:
                dist['same_cookie_again_after_inplace_mutation'] += 1
            inplace = (obs['start'] is not None and any(op[0] == 'flash' and any(k == '_f_' + op[2] for k, _ in obs['start']['data']) for _, op in req['ops']))
            seen_prev = (inf.get('seen'), inplace)
        for inf, mreq in zip(rn.info, rn.mreqs):
            if inf['kind'] == 'wire' and 'value' in inf:
                v = inf['value']
                vfutil.bump(dist['wire'], ('well-formed' if well_formed_payload(v) else 'non-mapping-state' if non_mapping_state(v) else 'bad-stamp'
                                           if isinstance(v, (list, str, dict)) and len(v) == 3 else 'not-a-triple') + (':raw' if mreq['present'][0] == 'raw' else ':classified'))
        for req, obs in zip(case['reqs'], rn.trace):
            if req['ops'] and obs['start'] is not None:
                cur = {k: v for k, v in obs['start']['data']}
                hit = False
                for _, op in req['ops']:
                    if op[0] == 'pop' and len(op) == 3 and op[1] in cur and cur[op[1]] == op[2]:
                        hit = True
                    ref_tmp = {k: dec(v) for k, v in cur.items()}
                    try:
                        ref_op(op, ref_tmp)
                    except Exception:      # noqa
                        pass
                    cur = {k: enc(v) for k, v in ref_tmp.items()}
                if hit:
                    dist['pop_default_equals_stored'] += 1
                    mods = [op for _, op in req['ops'] if op[0] in WRAPPED_CHANGED or op[0] == 'changed']
                    if len(mods) == 1 and case['opts']['reissue'] in (None, 99999):
                        dist['pop_default_equals_stored_only_modifier_no_reissue'] += 1
        nt = describe(case, rn, dist, st)
        key = vfutil.canon(case)
        if key not in seen:
            seen.add(key)
            if nt: nontriv.add(key)
    unknown = [v for v in viol if v.get('finding') not in KNOWN]
    if unknown:
        unknown.sort(key=lambda v: len(json.dumps(v['case'])))
        small = shrink_case(unknown[0]['case'], fails_unknown)
        rn = run_case(small)
        sv = [v for v in judge(small, rn) if v.get('finding') not in KNOWN]
        if sv:
            viol = [sv[0]] + viol
    if mism:
        mism.sort(key=lambda m: len(json.dumps(m['case'])))
        mism = [shrink_mismatch(ctx, mism[0])] + mism
    notes = excluded_points()
    return {'evaluations': len(items), 'distinct_nontrivial': len(nontriv), 'rule': RULE, 'agreeing': agree,
            'samples': [c for c, _ in items[ncorpus:ncorpus + 2]] + [c for c, _ in items[-1:]], 'mismatches': mism[:10], 'violations': viol[:40],
            'distribution': dist, 'notes': notes, 'exhaustive': False,
            'assumptions': ['WebOb SignedSerializer, hmac/hashlib, base64, json are modelled-not-verified: the model\'s codec is symbolic; the '
                            'harness classifies every presented cookie on the real bytes (same decoded bytes / different / undecodable)',
                            'unforgeability of HMAC is a named hypothesis of the Lean tamper theorems',
                            'time.time and os.urandom are replaced in pyramid.session by a fake clock / fixed bytes while a case runs',
                            'values are JSON-normal (no floats, tuples, non-string keys); excluded points are run and noted'],
            'trusted_base': ['WebOb (cookie parsing, SignedSerializer), Python json/base64/hmac/hashlib: tied by the correspondence run only',
                             'extract/c10.py (behavioural tables obtained by running the session code of the tree under test over finite probe domains)']}


def shrink_mismatch(ctx, m):
    def pred(c):
        try:
            rn = run_case(c)
            mo = ctx.run_model([rn.mcase()])[0]
            return compare(c, rn, mo) is not None
        except Exception:
            return False
    try:
        small = vfutil.shrink(m['case'], lambda c: well_formed(c) and pred(c), max_steps=300)
        rn = run_case(small)
        mo = ctx.run_model([rn.mcase()])[0]
        return compare(small, rn, mo) or m
    except Exception:
        return m


# ------------------------------------------------------------------------------------------------
# small-scope enumeration (also used by the search after a break)

def base_opts(**kw):
    o = {'timeout': 2, 'reissue': 1, 'soe': True, 'hashalg': 'sha1', 'secret': 'k', 'salt': 'pyramid.session.', 'max_age': None,
         'name': 'session', 'tform': 'int', 'secure': False, 'httponly': False, 'samesite': 'Lax', 'path': '/', 'domain': None}
    o.update(kw)
    return o


SCOPE_OPS = [['get', 'a'], ['set', 'a', 1], ['del', 'a'], ['pop', 'a', None], ['setdefault', 'a', 2], ['update', [['b', 1]]], ['clear'],
             ['flash', 'm', '', True], ['flash', 'm', '', False], ['pop_flash', ''], ['peek_flash', ''], ['new_csrf', '01' * 20],
             ['get_csrf', '02' * 20], ['invalidate'], ['changed'], ['popitem'], ['len']]


def scope_cases(depth):
    """all op sequences of length <= depth in a first request, followed by a reading request at each side of the timeout
    and reissue boundaries; plus every option corner for one fixed sequence"""
    seqs = [[]] + [[a] for a in SCOPE_OPS]
    if depth >= 2:
        seqs += [[a, b] for a in SCOPE_OPS for b in SCOPE_OPS]
    for seq in seqs:
        for dq2 in (4, 8, 9):
            yield {'opts': base_opts(), 'clock0': 401,
                   'reqs': [{'dq': 0, 'present': 'latest', 'ops': [[0, op] for op in seq], 'raised': False},
                            {'dq': dq2, 'present': 'latest', 'ops': [[0, ['items']], [0, ['get_csrf', '03' * 20]]], 'raised': False},
                            {'dq': 3, 'present': 'latest', 'ops': [[1, ['items']]], 'raised': False}]}
    for T in (None, 0, 1):
        for R in (None, 0, 1):
            for soe in (True, False):
                for raised in (True, False):
                    yield {'opts': base_opts(timeout=T, reissue=R, soe=soe), 'clock0': 400,
                           'reqs': [{'dq': 0, 'present': 'latest', 'ops': [[0, ['set', 'a', 1]], [0, ['flash', 'm', 'q', True]]], 'raised': False},
                                    {'dq': 4, 'present': 'latest', 'ops': [[0, ['get', 'a']], [1, ['set', 'b', 2]]], 'raised': raised},
                                    {'dq': 1, 'present': 'latest', 'ops': [[0, ['items']]], 'raised': False},
                                    {'dq': 4, 'present': 'latest', 'ops': [[0, ['items']]], 'raised': False}]}


def default_scope(depth):
    """stored value x explicit default over the SAME small pool: request 1 stores session['a'] = v, request 2 runs every
    sequence of <= depth calls from an alphabet of pop / get / setdefault with every default of the pool (plus a few reads and
    writes), request 3 reads; no reissue (None and a very large reissue_time), no timeout — so the only reason for a
    Set-Cookie in request 2 is the modification itself"""
    alpha = ([['pop', 'a', enc(d)] for d in SMALL] + [['pop', 'a'], ['pop', 'b', None], ['del', 'a'], ['pop_flash', ''], ['peek_flash', ''],
             ['len'], ['set', 'b', 0], ['clear']]
             + [['get', 'a', enc(d)] for d in (None, 0, 'a')] + [['setdefault', 'a', enc(d)] for d in (None, 1)] + [['setdefault', 'b', None]])
    seqs = [[a] for a in alpha]
    if depth >= 2:
        seqs += [[a, b] for a in alpha for b in alpha]
    if depth >= 3:
        pops = [a for a in alpha if a[0] in ('pop', 'get', 'setdefault')]
        seqs += [[a, b, c] for a in pops for b in pops[:6] for c in pops[:6]]
    for i, v in enumerate(SMALL):
        for seq in seqs:
            for R in ((None,) if (depth >= 2 and len(seq) >= 2) else (None, 99999)):
                yield {'opts': base_opts(timeout=None, reissue=R), 'clock0': 400 + i % 4,
                       'reqs': [{'dq': 0, 'present': 'latest', 'ops': [[0, ['set', 'a', enc(v)]]], 'raised': False},
                                {'dq': 5, 'present': 'latest', 'ops': [[0, op] for op in seq], 'raised': False},
                                {'dq': 5, 'present': 'latest', 'ops': [[0, ['items']]], 'raised': False}]}


def shape_scope(full):
    """the payload-shape cube through the real application: one request presenting the deserialisable value (signed with the
    real key, and under an unsigned BaseCookieSessionFactory), reading the session; with and without an expired timeout"""
    stamps = W_STAMPS if full else [5, '7', 'x', None, True, [], {'a': 1}]
    states = W_STATES if full else [{}, {'k': 1}, [], [['k', 1]], 'ab', '', None, 3]
    values = [[a, b, c] for a in stamps for b in stamps for c in states] + W_OTHERS
    for unsigned in (False, True):
        for T in ((None, 10) if full else (None,)):
            for v in values:
                yield {'opts': base_opts(timeout=T, reissue=None, unsigned=unsigned), 'clock0': 4000,
                       'reqs': [{'dq': 0, 'present': ['wire', enc(v)], 'ops': [[0, ['items']], [0, ['len']]], 'raised': False}]}


def alias_scope():
    """in-place mutation of a nested value without a Set-Cookie, then the same cookie again (see alias_plan) — every mode x
    set_on_exception x signed/unsigned x reissue None/0, deterministic"""
    class R:
        def __init__(self, seq): self.seq, self.i = seq, 0
        def choice(self, xs): self.i += 1; return xs[self.seq[self.i % len(self.seq)] % len(xs)]
        def randrange(self, n): self.i += 1; return self.seq[self.i % len(self.seq)] % n
        def random(self): self.i += 1; return (self.seq[self.i % len(self.seq)] % 10) / 10.0
    for mode in ('exc', 'big', 'two'):
        for soe in (False, True):
            for unsigned in (False, True):
                for R0 in (None, 0):
                    for seq in ((0, 0, 0, 7, 1), (1, 2, 3, 4, 5, 6)):
                        yield {'opts': base_opts(timeout=None, reissue=R0, soe=soe, unsigned=unsigned, hashalg='sha256'), 'clock0': 400,
                               'reqs': alias_plan(R(seq), 'q', mode, False)}


def edit_scope():
    """every single-character substitution / deletion / insertion and every short append of one valid cookie"""
    base = [{'dq': 0, 'present': 'latest', 'ops': [[0, ['set', 'a', 1]], [0, ['flash', 'm', '', True]]], 'raised': False}]
    rn = run_case({'opts': base_opts(), 'clock0': 400, 'reqs': base})
    n = len(rn.issued[0]['text'])
    read = [[0, ['items']]]
    for i in range(n):
        for ch in B64[::7] + '=!':
            yield ['sub', i, ch]
        yield ['del', i]
        yield ['ins', i, 'A']
        yield ['ins', i, '=']
    for s in APPENDS:
        yield ['append', s]
    for d in (1, 2, 3, 4, 8, 16, 32):
        yield ['lastbits', d]
    for i in range(20):
        for b in (0, 7):
            yield ['sig', i, b]
    for i in range(0, 40):
        yield ['payload', i, 49]


def search(ctx):
    """after a proof / translator / correspondence break: look for a history on which the IMPLEMENTATION violates the
    statement — small-scope enumeration first, then the random stream at thorough volume"""
    viol, searched = [], 0

    def consider(case):
        nonlocal searched
        searched += 1
        rn = run_case(case)
        for v in judge(case, rn):
            if v.get('finding') not in KNOWN:
                viol.append(v)
                return True
        return False

    exhaustive = True
    for c in itertools.chain(alias_scope(), shape_scope(True), default_scope(3), scope_cases(2)):
        consider(c)
        if len(viol) >= 3 or ctx.time_left() < 60:
            exhaustive = False
            break
    if not viol:
        base = [{'dq': 0, 'present': 'latest', 'ops': [[0, ['set', 'a', 1]], [0, ['flash', 'm', '', True]]], 'raised': False}]
        for e in edit_scope():
            consider({'opts': base_opts(), 'clock0': 400,
                      'reqs': base + [{'dq': 1, 'present': ['edit', e], 'ops': [[0, ['items']]], 'raised': False}]})
            if len(viol) >= 3 or ctx.time_left() < 60:
                exhaustive = False
                break
    if not viol:
        st = {'poisoned': set(), 'aimed_timeout': 0, 'aimed_reissue': 0, 'aimed_size': 0}
        for _ in range(20000):
            case, rn = gen_case(ctx.rng, st)
            searched += 1
            vs = [v for v in judge(case, rn) if v.get('finding') not in KNOWN]
            if vs:
                viol.append(vs[0])
                break
            if ctx.time_left() < 60:
                break
    if viol:
        viol.sort(key=lambda v: len(json.dumps(v['case'])))
        small = shrink_case(viol[0]['case'], fails_unknown)
        rn = run_case(small)
        sv = [v for v in judge(small, rn) if v.get('finding') not in KNOWN]
        if sv:
            viol = [sv[0]] + viol
    return {'violations': viol[:5], 'searched': searched, 'exhaustive': exhaustive and not viol,
            'scope': 'payload-shape cube (15 stamp kinds ^2 x 14 state kinds + 20 other arities/kinds, signed and unsigned, with and without expiry); stored value x default over the same 8-value pool: all sequences <= 2 (and pop/get/setdefault sequences of 3) of 27 calls in the middle of 3 requests, no reissue; all sequences of <= 2 of %d calls x 3 clock advances around timeout/reissue; option cube; every single-character edit of one cookie; 20000 random histories' % len(SCOPE_OPS)}


def replay(ctx, rep):
    case = rep.get('case')
    if case is None:
        return {'violates': False, 'note': 'replay names broken obligations only', 'broken': rep.get('broken_obligations')}
    rn = run_case(case)
    vs = judge(case, rn)
    mo = ctx.run_model([rn.mcase()])[0] if ctx.driver_path else None
    m = compare(case, rn, mo) if mo is not None else None
    return {'case': case, 'impl': [impl_view(o) for o in rn.trace], 'classification': [{k: v for k, v in i.items() if k in ('kind', 'cls', 'seen')} for i in rn.info],
            'model': mo and mo.get('model'), 'spec': mo and mo.get('spec'),
            'violations': [{'detail': v['detail'], 'finding': v.get('finding')} for v in vs], 'mismatch': m,
            'violates': bool(vs)}
