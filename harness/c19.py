"""C19 — correspondence of lean/PyramidModel/HttpExc.lean with pyramid.httpexceptions (HTTPException.prepare,
__call__, the router's not-found path) and the property itself evaluated on the implementation:

  * the response is rendered in the best acceptable of HTML / JSON / plain text, with the matching content type
  * HTML: supplied text appears only with & < > and quotes replaced by character references
  * JSON: the body is valid JSON whose message contains the text verbatim
  * `$`-placeholders inside supplied text are never expanded

The property oracle is metamorphic and does not use the Lean side: the same exception is rendered once more with
every supplied text replaced by an inert alphanumeric token; the real body must be that skeleton with each token
replaced by the (escaped / verbatim) text — nothing else may depend on the text.
"""
import html as _html, io, json, re, sys

import vfutil
from vfutil import bump

from pyramid import httpexceptions as HX
from string import Template
from webob.acceptparse import create_accept_header

FORMS = ['text/html', 'application/json', 'text/plain']
FORM_NAME = {'text/html': 'html', 'application/json': 'json', 'text/plain': 'plain'}

RULE = ('one case = one HTTP exception (any of the module\'s classes, or an ad-hoc subclass with its own title / '
        'explanation / templates) x detail / comment / explanation texts x Accept header x default or custom body '
        'template x extra environ and header values, rendered by exc.prepare(environ), by calling the exception as a '
        'WSGI app, by raising it from a view under the real Router, or as the Router\'s own 404 for a request path; a '
        'case is non-trivial when the response gets a body and at least one supplied text that the body shows '
        'contains an HTML metacharacter, a `$`, a non-ASCII or a control character; distinct = distinct canonical case JSON')

# ------------------------------------------------------------------------------------------------ vocabulary

MOVE_CLASSES = None
ALL_CLASSES = None


def classes():
    global ALL_CLASSES, MOVE_CLASSES
    if ALL_CLASSES is None:
        ALL_CLASSES = sorted(n for n, v in vars(HX).items()
                             if isinstance(v, type) and issubclass(v, HX.HTTPException) and v.__module__ == HX.__name__ and v.__name__ == n)
        MOVE_CLASSES = {n for n in ALL_CLASSES if issubclass(getattr(HX, n), HX._HTTPMove)}
    return ALL_CLASSES


ATTACK = ['<script>alert(1)</script>', '"><img src=x onerror=alert(1)>', "' onmouseover='x", '<b>', '</title>', '-->', '--!>', '<!--',
          '&lt;', '&amp;amp;', '&#60;', '&#x3c;', '&', '<', '>', '"', "'", '<br/>', '&#x27;', '&quot', '&#', '&#;', '&#12', 'a&b<c>d"e\'f']
DOLLAR = ['${detail}', '$detail', '$$', '$', '${', '${br}', '$x', '${status}', '${body}', '$body', '${html_comment}', '${explanation}',
          '$$$', '${detail', '$}', '${}', '$1', '${REQUEST_METHOD}', '$comment', '$_', '$ſ', '${K}', '$é']
NONASCII = ['\u00e9', '\u65e5\u672c', '\U0001f600', '\u017f', '\u212a', '\u2028', '\uffff', '\U0010ffff', '\x80', '\x7f', '\u0130', '\U00010000', '\ud7ff', '\ue000']
CONTROL = ['\n', '\r', '\t', '\x00', '\x08', '\x0c', '\x1b', '\x1f', '\r\n', '\x0b', '\x85', '\u2029', '\x00\x00']
# lone surrogates: a Python str can hold them (json.loads('"\\ud83d"'), os.fsdecode, surrogateescape); Lean's Char cannot, so
# such cases are checked by the oracle only.  high, low, reversed pair, a pair given as two code points, with text around
SURROGATES = ['\ud83d', '\ude00', '\ude00\ud83d', '\ud83d\ude00', 'bob\ud83d', '\udc80x', '<\udfff>', '$\ud800{detail}']


def has_surrogate(x):
    if isinstance(x, str):
        return any(0xD800 <= ord(c) <= 0xDFFF for c in x)
    if isinstance(x, dict):
        return any(has_surrogate(k) or has_surrogate(v) for k, v in x.items())
    if isinstance(x, (list, tuple)):
        return any(has_surrogate(v) for v in x)
    return False


def units(t):
    """UTF-16 code units: the level at which a JSON string carries text"""
    return t.encode('utf-16-le', 'surrogatepass')

JSONISH = ['\\', '\\u0041', '\\"', '/', '"}', '{"message": "x"}', '\\n']
WORDS = ['not found', 'x', 'abc', '/a/b', 'index.html', 'The thing', '42', 'a b', 'id=1', 'q?x=1&y=2', '']

ACCEPTS = [None, '', '*/*', 'text/html', 'application/json', 'text/plain', 'text/*', 'application/*',
           'text/plain, text/html;q=0.5', 'application/json;q=0.9, text/html;q=0.8', 'text/html;q=0, */*', 'text/html;q=0',
           'text/*;q=0.5, application/json;q=0.5', 'image/png', 'garbage;;', 'text/html;level=1', 'TEXT/HTML', ' text/plain ',
           'text/plain;q=0.5, text/html;q=0.5, application/json;q=0.5', 'text/plain;q=0.001', 'q=1', ',', 'text/html, text/plain',
           'text/plain, application/json', 'application/json, text/plain;q=0.999', '*/*;q=0.1, text/plain', 'text/*, text/html;q=0.2',
           'text/plain;q=0.3, application/json;q=0.3', 'application/xml', 'text/html;q=0.5, text/plain;q=0.5', 'text/html;q=1.5',
           'text/html; q=0.5', 'text/html;level="<b>"', 'application/json;q=0, text/html;q=0, text/plain;q=0', '*/*;q=0']
RANGES = ['text/html', 'application/json', 'text/plain', 'text/*', 'application/*', '*/*', 'image/png', 'text/xml', 'TEXT/Plain', 'Application/JSON']
QS = [None, '0', '0.001', '0.3', '0.5', '0.8', '1', '1.0', '0.999', '0.0', '0.50']

TEMPLATE_VARS = ['detail', 'explanation', 'comment', 'html_comment', 'br', 'REQUEST_METHOD', 'HTTP_X_FOO', 'location', 'missing',
                 'x_hdr', 'HTTP_ACCEPT', 'status', 'body', 'PATH_INFO', 'dEtail', 'Detail']
TEMPLATE_LITS = ['', ' ', 'see ', '<b>', '</b>', '\n', 'a&b', '$$', ': ', '<p class="x">', '</p>', 'x', '\u00e9', '.', '}', '{', '$$$$']
TEMPLATE_BAD = ['$', '${', '${1}', '$\u00e9', '${detail', '${}', '$ ', '$-', '${de tail}', '$ſ', '${K}']


def rand_text(rng, p_empty=0.05):
    r = rng.random()
    if r < p_empty:
        return ''
    n = rng.choice([1, 1, 1, 2, 2, 3, 4])
    parts = []
    for _ in range(n):
        k = rng.random()
        if k < 0.015:
            parts.append(rng.choice(SURROGATES))
        elif k < 0.3:
            parts.append(rng.choice(ATTACK))
        elif k < 0.5:
            parts.append(rng.choice(DOLLAR))
        elif k < 0.62:
            parts.append(rng.choice(NONASCII))
        elif k < 0.7:
            parts.append(rng.choice(CONTROL))
        elif k < 0.76:
            parts.append(rng.choice(JSONISH))
        elif k < 0.9:
            parts.append(rng.choice(WORDS))
        else:
            parts.append(vfutil.rand_text(rng, 6, p_special=0.4, p_nonascii=0.2, p_control=0.1))
    return ''.join(parts)


def rand_accept(rng):
    r = rng.random()
    if r < 0.45:
        return rng.choice(ACCEPTS)
    if r < 0.92:
        items = []
        for _ in range(rng.choice([1, 1, 2, 2, 3, 4])):
            m = rng.choice(RANGES)
            q = rng.choice(QS)
            sep = rng.choice([';', '; ', ' ;'])
            items.append(m if q is None else '%s%sq=%s' % (m, sep, q))
        return rng.choice([', ', ',', ' , ']).join(items)
    return vfutil.rand_text(rng, 8, p_special=0.5, p_nonascii=0.1, p_control=0.05)


def rand_template(rng, bad=False):
    parts = []
    for _ in range(rng.choice([1, 2, 3, 3, 4, 5, 6])):
        k = rng.random()
        if k < 0.4:
            parts.append(rng.choice(TEMPLATE_LITS))
        elif k < 0.8:
            v = rng.choice(TEMPLATE_VARS[:6] if rng.random() < 0.7 else TEMPLATE_VARS)
            parts.append('${%s}' % v if rng.random() < 0.75 else '$%s' % v)
        elif k < 0.9:
            parts.append(rng.choice(['${detail}', '${detail}${detail}', '$detail$comment', '${br}${br}']))
        else:
            parts.append(rng.choice(TEMPLATE_BAD) if bad else rng.choice(TEMPLATE_LITS))
    return ''.join(parts)


def rand_req_text(rng, sep=''):
    parts = []
    for _ in range(rng.choice([1, 1, 2, 3])):
        k = rng.random()
        parts.append(rng.choice(ATTACK) if k < 0.45 else rng.choice(DOLLAR) if k < 0.6 else rng.choice(NONASCII[:6]) if k < 0.75 else rng.choice(WORDS))
    t = sep.join(parts)
    return ''.join(c for c in t if ord(c) >= 32 and ord(c) != 127 and c != '\u2028')


def gen_router_app(rng):
    st = {'dn': rng.random() < 0.6, 'da': rng.random() < 0.5, 'dr': rng.random() < 0.3, 'slash': rng.random() < 0.35}
    kinds = ROUTER_KINDS if st['slash'] else ROUTER_KINDS[:-1]
    case = {'mode': 'router_app', 'settings': st, 'kind': rng.choice(kinds + ['notfound', 'forbidden']), 'accept': rand_accept(rng)}
    if rng.random() < 0.8:
        case['extra'] = '/'.join(rng.choice(['c', 'c', 'v', '']) + rand_req_text(rng).replace('/', '|') for _ in range(rng.choice([1, 1, 2, 3])))
    if rng.random() < 0.8:
        case['query'] = rng.choice(['a=1&b=2', 'q=<script>alert(1)</script>', rand_req_text(rng, '&'), 'x=' + rand_req_text(rng), '"\'>'])
    if rng.random() < 0.3:
        case['host'] = rng.choice(['example.com', 'ex<b>.com:80', 'h"&\':8080', rand_req_text(rng).replace(' ', '')]) or 'x'
    if case['kind'] == 'csrf_origin' and rng.random() < 0.7:
        case['origin'] = rng.choice(['/<b>', '.evil"&', ':1/' + rand_req_text(rng)])
    return case


def gen_case(rng, i=0):
    names = classes()
    if rng.random() < 0.12:
        return gen_router_app(rng)
    r = rng.random()
    mode = 'prepare' if r < 0.45 else 'wsgi' if r < 0.7 else 'router_404' if r < 0.8 else 'router_raise' if r < 0.93 else 'twice'
    case = {'mode': mode, 'accept': rand_accept(rng)}
    if mode == 'router_404':
        # PATH_INFO is bytes decoded strictly as UTF-8 by the request: it cannot carry a lone surrogate
        segs = [''.join(c for c in rand_text(rng, 0.1) if not 0xD800 <= ord(c) <= 0xDFFF) for _ in range(rng.choice([0, 1, 1, 2, 3]))]
        case['path'] = '/' + '/'.join(segs) if rng.random() < 0.95 else ''.join(segs)
        return case
    k = rng.random()
    if k < 0.25:
        cls = rng.choice(['HTTPNotFound', 'HTTPForbidden', 'HTTPBadRequest', 'HTTPFound', 'HTTPMethodNotAllowed', 'HTTPException'])
    else:
        cls = rng.choice(names)
    case['cls'] = cls
    case['detail'] = None if rng.random() < 0.12 else rand_text(rng)
    case['comment'] = None if rng.random() < 0.45 else rand_text(rng)
    if rng.random() < 0.15:
        case['explanation'] = rand_text(rng)
    if rng.random() < 0.22:
        case['body_template'] = rand_template(rng, bad=rng.random() < 0.3)
    if rng.random() < 0.12:
        sub = {}
        if rng.random() < 0.5: sub['title'] = rng.choice(['Odd Title', 'T<i>tle', 'Ti$tle', 'T\u00eftle', 'x'])
        if rng.random() < 0.5: sub['explanation'] = rand_text(rng)
        if rng.random() < 0.4: sub['body'] = rand_template(rng, bad=rng.random() < 0.2)
        if rng.random() < 0.3: sub['html'] = rng.choice(['<div>${body}</div>', '${status}|${body}|$$', '<p>$status</p>${body}${body}', '${body}${nope}', 'no body'])
        if rng.random() < 0.3: sub['plain'] = rng.choice(['${body}', '$status: ${body}', '[${body}] $$', '${body}${nope}'])
        case['sub'] = sub
    if cls in MOVE_CLASSES and rng.random() < 0.8:
        loc = rand_text(rng)
        if rng.random() < 0.9:
            loc = ''.join(c for c in loc if ord(c) >= 32 and ord(c) != 127)
        case['location'] = rng.choice(['http://example.com/', '/rel', 'http://e.com/?a=1&b=<2>', loc, loc])
    hdrs = []
    for _ in range(rng.choice([0, 0, 0, 1, 1, 2])):
        hdrs.append([rng.choice(['X-Foo', 'x_hdr', 'X_Hdr', 'Detail', 'Location', 'BR', 'Server', 'location']), rand_text(rng)])
    case['headers'] = hdrs
    env = []
    for _ in range(rng.choice([0, 0, 1, 1, 2, 3])):
        key = rng.choice(['REQUEST_METHOD', 'HTTP_X_FOO', 'PATH_INFO', 'QUERY_STRING', 'detail', 'br', 'html_comment', 'a.b', 'wsgi.foo',
                          'location', 'x_hdr', 'explanation', 'comment', 'HTTP_USER_AGENT'])
        if mode == 'router_raise' and key in ('PATH_INFO',):
            continue
        val = rand_text(rng)
        if mode in ('wsgi', 'router_raise'):
            val = val.encode('utf-8', 'ignore').decode('latin-1')      # a WSGI server hands over bytes as latin-1 text
        env.append([key, val])
    case['environ'] = env
    if mode == 'twice':
        case['accept2'] = rand_accept(rng)
    if rng.random() < 0.3:
        surface(rng, case)
    if rng.random() < 0.06:
        for k in ('detail', 'comment', 'explanation'):
            if rng.random() < 0.5:
                case[k + '_html'] = rng.choice(['<i>m</i>', '<br/>', 'a&b', '', '${detail}<u>$$</u>', rand_text(rng)])
                if k == 'explanation' and case.get(k) is None:
                    case[k] = rand_text(rng)
    return case


CONTENT_TYPES = ['text/html', 'application/json', 'text/plain', 'image/png', 'application/xml', 'text/plain; charset=latin-1',
                 'application/json; charset=utf-8', 'TEXT/HTML', 'text/html; charset=iso-8859-1', 'application/vnd.api+json', 'x']
CHARSETS = ['latin-1', 'utf-8', 'utf-16', '<None>']


def surface(rng, case):
    """the rest of the caller-visible surface that survives into prepare(): Response keywords, a Content-Type header,
    attribute assignment after construction, exception_response()"""
    ctor, after = {}, []
    r = rng.random()
    if r < 0.45:
        ctor['content_type'] = rng.choice(CONTENT_TYPES)
    elif r < 0.55:
        case['headers'] = (case.get('headers') or []) + [[rng.choice(['Content-Type', 'content-type', 'CONTENT-TYPE']), rng.choice(CONTENT_TYPES)]]
    elif r < 0.8:
        after.append(['content_type', rng.choice(CONTENT_TYPES + ['<del>'])])
    if rng.random() < 0.2:
        if rng.random() < 0.5:
            ctor['charset'] = rng.choice(CHARSETS)
        else:
            after.append(['charset', rng.choice(CHARSETS)])
    k = rng.random()
    if k < 0.08:
        ctor['body'] = rng.choice(['given', '', '<b>given</b>'])
    elif k < 0.12:
        ctor['text'] = rng.choice(['given', ''])
    elif k < 0.16:
        ctor['app_iter'] = rng.choice([['given'], ['a', 'b'], [''], []])
    elif k < 0.19:
        ctor['json_body'] = {'a': 1}
    if rng.random() < 0.1:
        ctor['json_formatter'] = True
    if rng.random() < 0.15:
        after.append([rng.choice(['detail', 'comment']), rand_text(rng)])
    if rng.random() < 0.05:
        after.append(['status', rng.choice(['499 Custom', '404 <Not> Found', '200 OK'])])
    if ctor:
        case['ctor'] = ctor
    if after:
        case['after'] = after
    if not case.get('sub') and rng.random() < 0.25 and HX.status_map.get(getattr(HX, case['cls']).code) is getattr(HX, case['cls']):
        case['via'] = 'exception_response'


# ------------------------------------------------------------------------------------------------ implementation side

def base_environ(case):
    env = {'REQUEST_METHOD': 'GET', 'SCRIPT_NAME': '', 'PATH_INFO': '/', 'QUERY_STRING': '', 'SERVER_NAME': 'localhost',
           'SERVER_PORT': '80', 'HTTP_HOST': 'localhost:80', 'SERVER_PROTOCOL': 'HTTP/1.0'}
    seen = set()
    for k, v in case.get('environ') or []:
        if k in seen:
            continue
        seen.add(k)
        env[k] = v
    if case.get('accept') is not None:
        env['HTTP_ACCEPT'] = case['accept']
    return env


def wsgi_extras(env):
    env.update({'wsgi.version': (1, 0), 'wsgi.url_scheme': 'http', 'wsgi.input': io.BytesIO(b''), 'wsgi.errors': sys.stderr,
                'wsgi.multithread': False, 'wsgi.multiprocess': False, 'wsgi.run_once': False})
    return env


class Markup(str):
    """a value with __html__ (a str subclass, like markupsafe.Markup): webob.html_escape returns __html__() verbatim"""
    def __new__(cls, text, html):
        self = str.__new__(cls, text)
        self._h = html
        return self

    def __html__(self):
        return self._h


def _val(case, key):
    v = case.get(key)
    h = case.get(key + '_html')
    return Markup(v or '', h) if h is not None else v


def _alt_formatter(status, body, title, environ):
    return {'error': body, 'status': status, 'n': 1}


def make_exc(case):
    cls = getattr(HX, case['cls'])
    sub = case.get('sub')
    if sub:
        attrs = {}
        if 'title' in sub: attrs['title'] = sub['title']
        if 'explanation' in sub: attrs['explanation'] = sub['explanation']
        if 'body' in sub: attrs['body_template_obj'] = Template(sub['body'])
        if 'html' in sub: attrs['html_template_obj'] = Template(sub['html'])
        if 'plain' in sub: attrs['plain_template_obj'] = Template(sub['plain'])
        cls = type('Adhoc' + case['cls'], (cls,), attrs)
    kw = {}
    if case.get('location') is not None and issubclass(cls, HX._HTTPMove):
        kw['location'] = case['location']
    if case.get('body_template') is not None:
        kw['body_template'] = case['body_template']
    # the rest of the caller-visible constructor surface (Response keywords)
    for k, v in (case.get('ctor') or {}).items():
        if k in ('content_type', 'charset'):
            kw[k] = None if v == '<None>' else v
        elif k == 'body':
            kw['body'] = v.encode('utf-8')
        elif k == 'text':
            kw['text'] = v
        elif k == 'app_iter':
            kw['app_iter'] = [x.encode('utf-8') for x in v]
        elif k == 'json_body':
            kw['json_body'] = v
        elif k == 'json_formatter' and v:
            kw['json_formatter'] = _alt_formatter
    hdrs = [tuple(h) for h in case.get('headers') or []]
    if case.get('via') == 'exception_response':
        exc = HX.exception_response(cls.code, detail=_val(case, 'detail'), comment=_val(case, 'comment'), headers=hdrs or None, **kw)
        if type(exc) is not cls:
            raise RuntimeError('exception_response(%s) is not %s' % (cls.code, cls.__name__))
    else:
        exc = cls(detail=_val(case, 'detail'), comment=_val(case, 'comment'), headers=hdrs or None, **kw)
    if case.get('explanation') is not None or case.get('explanation_html') is not None:
        exc.explanation = _val(case, 'explanation')
    for attr, val in case.get('after') or []:
        if attr not in ('content_type', 'charset', 'detail', 'comment', 'explanation', 'status'):
            raise ValueError('unsupported attribute %s' % attr)
        if val == '<del>':
            delattr(exc, attr)
        else:
            setattr(exc, attr, None if val == '<None>' else val)
    return exc


def pre_state(exc):
    """what prepare() finds: the header list, whether there is a body, and a way to see that nothing was touched"""
    it = exc.app_iter
    return {'headers': [[k, v] for k, v in exc.headers.items()], 'has_body': bool(exc.has_body),
            '_iter': it, '_copy': list(it) if isinstance(it, list) else None}


def untouched(exc, pre):
    return (exc.app_iter is pre['_iter'] and (pre['_copy'] is None or list(exc.app_iter) == pre['_copy'])
            and [[k, v] for k, v in exc.headers.items()] == pre['headers'])


_APP = None
_CURRENT = {}


def app():
    global _APP
    if _APP is None:
        from pyramid.config import Configurator

        def raiser(request):
            try:
                exc = make_exc(_CURRENT['case'])
            except Exception:
                _CURRENT['construct_failed'] = True
                raise
            _CURRENT['pre'] = pre_state(exc)
            raise exc

        config = Configurator()
        config.add_view(raiser, name='__raise__')
        _APP = config.make_wsgi_app()
    return _APP


def _obs(exc_or_none, ctype, body, header=None):
    if not body and ctype is None:
        return {'r': 'untouched'}
    try:
        text = body.decode('utf-8')
    except UnicodeDecodeError:
        return {'r': 'raised', 'type': 'undecodable-body'}
    return {'r': 'ok', 'ctype': ctype, 'ctype_header': header, 'body': text}


def _err(e):
    if isinstance(e, KeyError):
        return {'r': 'err', 'err': 'key', 'name': e.args[0] if e.args and isinstance(e.args[0], str) else repr(e.args)}
    if isinstance(e, ValueError) and 'Invalid placeholder' in str(e):
        return {'r': 'err', 'err': 'invalid'}
    return {'r': 'raised', 'type': type(e).__name__, 'msg': str(e)[:120]}


EMPTY_PRE = {'headers': [], 'has_body': False}

ROUTER_KINDS = ['notfound', 'forbidden', 'mismatch', 'multiview_mismatch', 'route_without_view', 'csrf_origin', 'append_slash']
_RAPPS = {}
_SEEN = {}


def _tween_factory(handler, registry):
    def tween(request):
        resp = handler(request)
        _SEEN['resp'] = resp
        if isinstance(resp, HX.HTTPException):
            _SEEN['pre'] = pre_state(resp)
        return resp
    return tween


class _Res:
    """a resource whose repr shows the (request-derived) name it was reached by"""
    def __init__(self, name):
        self.name = name

    def __getitem__(self, k):
        if k.startswith('c'):
            return _Res(k)
        raise KeyError(k)

    def __repr__(self):
        return '<Res %s>' % self.name


class _Deny:
    def identity(self, request): return None
    def authenticated_userid(self, request): return None

    def permits(self, request, context, permission):
        from pyramid.security import Denied
        return Denied('no <b>%s</b> for you', permission)

    def remember(self, request, userid, **kw): return []
    def forget(self, request, **kw): return []


def _ok_view(request):
    from pyramid.response import Response
    return Response('ok')


def _ok_view2(request):
    from pyramid.response import Response
    return Response('ok2')


def router_app(settings):
    key = tuple(bool(settings.get(k)) for k in ('dn', 'da', 'dr', 'slash'))
    if key not in _RAPPS:
        import types
        from pyramid.config import Configurator
        if '_c19_harness_tween' not in sys.modules:
            mod = types.ModuleType('_c19_harness_tween')
            mod.factory = _tween_factory
            sys.modules['_c19_harness_tween'] = mod
        config = Configurator(settings={'pyramid.debug_notfound': key[0], 'pyramid.debug_authorization': key[1], 'pyramid.debug_routematch': key[2]},
                              root_factory=lambda request: _Res('root'))
        config.set_security_policy(_Deny())
        config.add_tween('_c19_harness_tween.factory')
        config.add_view(_ok_view, name='secret', permission='p<erm>')
        config.add_view(_ok_view, name='pm', request_method='POST')
        config.add_view(_ok_view, name='pm2', request_method='POST')
        config.add_view(_ok_view2, name='pm2', request_method='PUT')
        config.add_view(_ok_view, name='csrf', require_csrf=True)
        config.add_route('item', '/items/{id}')
        config.add_route('slash', '/slash/')
        config.add_view(_ok_view, route_name='slash')
        if key[3]:
            config.add_notfound_view(append_slash=True)
        _RAPPS[key] = config.make_wsgi_app()
    return _RAPPS[key]


def router_environ(case):
    kind, extra = case['kind'], case.get('extra') or ''
    path = {'notfound': '/c1/' + extra + '/nothing', 'forbidden': '/c1/secret/' + extra, 'mismatch': '/pm/' + extra,
            'multiview_mismatch': '/pm2/' + extra, 'route_without_view': '/items/x' + extra.replace('/', '_'),
            'csrf_origin': '/csrf', 'append_slash': '/slash'}[kind]
    env = wsgi_extras(base_environ({'accept': case.get('accept')}))
    env['wsgi.errors'] = io.StringIO()
    l1 = lambda t: t.encode('utf-8').decode('latin-1')
    env['PATH_INFO'] = l1(path)
    env['QUERY_STRING'] = l1(case.get('query') or '')
    env['HTTP_HOST'] = l1(case.get('host') or 'localhost:80')
    if kind == 'csrf_origin':
        env['REQUEST_METHOD'] = 'POST'
        env['wsgi.url_scheme'] = 'https'
        env['HTTP_ORIGIN'] = l1('https://evil.example' + (case.get('origin') or ''))
    return env


def _plain(v):
    """(text, html) of a value found on an exception"""
    if v is not None and hasattr(v, '__html__'):
        return (str.__str__(v) if isinstance(v, str) else str(v)), v.__html__()
    return (v if v is None or isinstance(v, str) else str(v)), None


def impl_router_app(case):
    env = router_environ(case)
    _SEEN.clear()
    got = {}

    def start_response(status, headers, exc_info=None):
        got['status'], got['headers'] = status, headers
    try:
        body = b''.join(router_app(case.get('settings') or {})(env, start_response))
    except Exception as e:
        return _err(e), dict(_SEEN.get('pre', EMPTY_PRE)), None
    resp = _SEEN.get('resp')
    pre = dict(_SEEN.get('pre', EMPTY_PRE))
    if not isinstance(resp, HX.HTTPException):
        return {'r': 'raised', 'type': 'not-an-http-exception:%s' % type(resp).__name__}, pre, None
    cls = type(resp)
    d, dh = _plain(resp.detail)
    c, ch = _plain(resp.comment)
    x, xh = _plain(resp.explanation)
    # what pyramid put into the exception: the model renders from exactly this
    pre['exc'] = {'cls': {'name': cls.__name__, 'code': cls.code, 'title': cls.title, 'explanation': str.__str__(cls.explanation) if isinstance(cls.explanation, str) else '',
                          'body': cls.body_template_obj.template, 'html': cls.html_template_obj.template, 'plain': cls.plain_template_obj.template,
                          'custom': cls.body_template_obj is not HX.HTTPException.body_template_obj, 'empty': bool(cls.empty_body)},
                  'detail': d, 'detail_html': dh, 'comment': c, 'comment_html': ch, 'explanation': x, 'explanation_html': xh,
                  'environ': [[k, v] for k, v in env.items() if isinstance(v, str)],
                  'plain_values': all(v is None or type(v) is str for v in (resp.detail, resp.comment, getattr(resp, 'message', None), resp.explanation))}
    ct = [v for k, v in got['headers'] if k.lower() == 'content-type']
    hct = ct[0] if ct else None
    return _obs(None, hct.split(';')[0] if hct else None, body, hct), pre, hct



def impl(case):
    """-> (observation, state of the exception before prepare, Content-Type header sent or None)"""
    mode = case['mode']
    try:
        if mode == 'router_app':
            return impl_router_app(case)
        if mode in ('prepare', 'twice', 'wsgi'):
            try:
                make_exc(case)
            except Exception as e:      # e.g. WebOb refuses control characters in a header value: no response to render
                return {'r': 'construct-failed', 'type': type(e).__name__}, EMPTY_PRE, None
        if mode in ('prepare', 'twice'):
            exc = make_exc(case)
            pre = pre_state(exc)
            env = base_environ(case)
            try:
                exc.prepare(env)
                if pre['has_body']:
                    return ({'r': 'untouched'} if untouched(exc, pre) else {'r': 'raised', 'type': 'prepare-touched-a-response-with-body'}), pre, None
                if mode == 'twice':
                    first = exc.body
                    env2 = dict(env)
                    env2.pop('HTTP_ACCEPT', None)
                    if case.get('accept2') is not None:
                        env2['HTTP_ACCEPT'] = case['accept2']
                    exc.prepare(env2)
                    if not first and not exc.empty_body:
                        # the first rendering was empty, so has_body is still false and the second prepare renders afresh
                        second = _obs(exc, exc.content_type, exc.body, exc.headers.get('Content-Type'))
                        second['eff_accept'] = case.get('accept2')
                        return second, pre, exc.headers.get('Content-Type')
                    if exc.body != first:
                        return {'r': 'raised', 'type': 'second-prepare-changed-body'}, pre, None
            except Exception as e:
                return _err(e), pre, None
            if exc.empty_body:
                return ({'r': 'untouched'} if not exc.body else {'r': 'raised', 'type': 'empty-body-class-has-body'}), pre, None
            return _obs(exc, exc.content_type, exc.body, exc.headers.get('Content-Type')), pre, exc.headers.get('Content-Type')
        if mode == 'wsgi':
            exc = make_exc(case)
            pre = pre_state(exc)
            given = b''.join(pre['_copy']) if pre['has_body'] and pre['_copy'] is not None else None
            env = wsgi_extras(base_environ(case))
            got = {}

            def start_response(status, headers, exc_info=None):
                got['status'], got['headers'] = status, headers
            try:
                body = b''.join(exc(env, start_response))
            except Exception as e:
                return _err(e), pre, None
            if pre['has_body']:
                return ({'r': 'untouched'} if given is None or body == given else {'r': 'raised', 'type': 'caller-body-replaced'}), pre, None
            if exc.empty_body:
                return ({'r': 'untouched'} if not body else {'r': 'raised', 'type': 'empty-body-class-has-body'}), pre, None
            ct = [v for k, v in got['headers'] if k.lower() == 'content-type']
            return _obs(exc, exc.content_type, body, ct[0] if ct else None), pre, (ct[0] if ct else None)
        # router modes
        env = wsgi_extras(base_environ(case))
        if mode == 'router_404':
            env['PATH_INFO'] = case['path'].encode('utf-8').decode('latin-1')
            _CURRENT.clear()
        else:
            env['PATH_INFO'] = '/__raise__'
            _CURRENT.clear()
            _CURRENT['case'] = case
        got = {}

        def start_response(status, headers, exc_info=None):
            got['status'], got['headers'] = status, headers
        try:
            body = b''.join(app()(env, start_response))
        except Exception as e:
            if _CURRENT.get('construct_failed'):
                return {'r': 'construct-failed', 'type': type(e).__name__}, EMPTY_PRE, None
            return _err(e), _CURRENT.get('pre', EMPTY_PRE), None
        pre = _CURRENT.get('pre', EMPTY_PRE)
        ct = [v for k, v in got['headers'] if k.lower() == 'content-type']
        hct = ct[0] if ct else None
        if pre['has_body']:
            given = b''.join(pre['_copy']) if pre.get('_copy') is not None else None
            return ({'r': 'untouched'} if given is None or body == given else {'r': 'raised', 'type': 'caller-body-replaced'}), pre, None
        if mode == 'router_raise' and getattr(HX, case['cls']).empty_body:
            return ({'r': 'untouched'} if not body else {'r': 'raised', 'type': 'empty-body-class-has-body'}), pre, None
        mime = hct.split(';')[0] if hct else None
        return _obs(None, mime, body, hct), pre, hct
    except Exception as e:           # construction failures etc.
        return {'r': 'raised', 'type': type(e).__name__, 'msg': str(e)[:120]}, EMPTY_PRE, None


# ------------------------------------------------------------------------------------------------ model side

_CLASS_TABLE = None


def class_table(ctx):
    global _CLASS_TABLE
    if _CLASS_TABLE is None:
        rows = ctx.run_model([{'op': 'classes'}])[0]
        _CLASS_TABLE = {r['name']: r for r in rows}
    return _CLASS_TABLE


def q_values(accept):
    """what prepare() gets from WebOb: `environ.get('HTTP_ACCEPT', '')`, so an absent header is read as an empty one"""
    offers = create_accept_header(accept if accept is not None else '').acceptable_offers(FORMS)
    return {m: int(round(q * 1000)) for m, q in offers}


def eff_accept(case, obs):
    return obs['eff_accept'] if obs is not None and 'eff_accept' in obs else case.get('accept')


def to_model(ctx, case, pre, obs=None):
    """the driver's input for a case; `pre` = exc.headers.items() and exc.has_body as they were before prepare"""
    hdrs = pre['headers']
    if case['mode'] == 'router_app':
        x = pre.get('exc')
        if x is None:
            return {'cls': 'HTTPNotFound', 'detail': None, 'comment': None, 'headers': [], 'environ': [], 'q': {}, 'has_body': True}
        return {'cls': x['cls'], 'detail': x['detail'], 'detail_html': x['detail_html'], 'comment': x['comment'], 'comment_html': x['comment_html'],
                'explanation': x['explanation'], 'explanation_html': x['explanation_html'], 'headers': hdrs, 'has_body': pre['has_body'],
                'environ': x['environ'], 'q': q_values(case.get('accept'))}
    if obs is not None and 'eff_accept' in obs:
        case = dict(case, accept=obs['eff_accept'])
    if case['mode'] == 'router_404':
        return {'cls': 'HTTPNotFound', 'detail': case['path'], 'comment': None, 'headers': [], 'environ': [],
                'q': q_values(case.get('accept'))}
    env = base_environ(case)
    if case['mode'] in ('wsgi', 'router_raise'):
        for k in ('wsgi.version', 'wsgi.url_scheme', 'wsgi.input', 'wsgi.errors', 'wsgi.multithread', 'wsgi.multiprocess', 'wsgi.run_once'):
            env[k] = 'n/a'          # dotted keys can never be referred to by a placeholder
    if case['mode'] == 'router_raise':
        env['PATH_INFO'] = '/__raise__'
    late = {}
    for attr, val in case.get('after') or []:
        if attr in ('detail', 'comment', 'explanation', 'status'):
            late[attr] = None if val in ('<None>', '<del>') else val
    m = {'detail': late.get('detail', case.get('detail')), 'comment': late.get('comment', case.get('comment')),
         'explanation': late.get('explanation', case.get('explanation') if case.get('explanation_html') is None else (case.get('explanation') or '')), 'status': late.get('status'), 'has_body': pre['has_body'],
         'detail_html': case.get('detail_html') if 'detail' not in late else None,
         'comment_html': case.get('comment_html') if 'comment' not in late else None,
         'explanation_html': case.get('explanation_html') if 'explanation' not in late else None,
         'body_template': case.get('body_template'), 'headers': hdrs, 'environ': [[k, v] for k, v in env.items()],
         'q': q_values(case.get('accept'))}
    sub = case.get('sub')
    if sub:
        base = class_table(ctx)[case['cls']]
        m['cls'] = {'code': base['code'], 'title': sub.get('title', base['title']),
                    'explanation': sub.get('explanation', base['explanation']), 'body': sub.get('body', base['body']),
                    'html': sub.get('html', base['html']), 'plain': sub.get('plain', base['plain']),
                    'custom': True if 'body' in sub else base['custom'], 'empty': base['empty']}
    else:
        m['cls'] = case['cls']
    return m


def model_view(mo):
    if mo is None:
        return None
    if mo.get('r') == 'ok':
        return {'r': 'ok', 'ctype': mo['ctype'], 'ctype_header': mo.get('ctype_header'), 'body': mo['body']}
    return {k: mo[k] for k in ('r', 'err', 'name') if k in mo} if 'r' in mo else mo


# ------------------------------------------------------------------------------------------------ property oracle

ESC = {'&': '&amp;', '<': '&lt;', '>': '&gt;', '"': '&quot;', "'": '&#x27;'}


def esc_html(t):
    return ''.join(ESC.get(c, c) if ord(c) < 128 else '&#%d;' % ord(c) for c in t)


def supplied_texts(case):
    """[(path in the case, text)] for every non-empty supplied text"""
    out = []
    if case['mode'] == 'router_404':
        return [(('path',), case['path'])] if case['path'] else []
    if case['mode'] == 'router_app':
        return [((k,), case[k]) for k in ('extra', 'query', 'host', 'origin') if case.get(k)]
    for k in ('detail', 'comment', 'explanation', 'location'):
        if case.get(k):
            out.append(((k,), case[k]))
    for k in ('detail_html', 'comment_html', 'explanation_html'):
        if case.get(k):
            out.append(((k,), case[k]))            # what a markup object's __html__ returns: shown verbatim in the HTML form (by design)
    if case.get('sub') and case['sub'].get('explanation'):
        out.append((('sub', 'explanation'), case['sub']['explanation']))
    for i, (k, v) in enumerate(case.get('after') or []):
        if k in ('detail', 'comment', 'explanation') and v and v not in ('<None>', '<del>'):
            out.append((('after', i, 1), v))
    for i, (k, v) in enumerate(case.get('headers') or []):
        if v:
            out.append((('headers', i, 1), v))
    for i, (k, v) in enumerate(case.get('environ') or []):
        if v and k not in ('PATH_INFO', 'SCRIPT_NAME', 'HTTP_HOST', 'SERVER_NAME', 'SERVER_PORT', 'HTTP_ACCEPT'):
            out.append((('environ', i, 1), v))
    return out


def _set(obj, path, val):
    obj = json.loads(json.dumps(obj))
    cur = obj
    for p in path[:-1]:
        cur = cur[p]
    cur[path[-1]] = val
    return obj


def tokenised(case):
    texts = supplied_texts(case)
    blob = json.dumps(case, ensure_ascii=False)
    stem = 'QZ'
    while stem in blob:
        stem += 'Q'
    toks = []
    c2 = case
    for i, (path, t) in enumerate(texts):
        tok = '%s%dZ' % (stem, i)
        if path == ('path',):
            tok = '/' + tok
        toks.append((tok, t, path[-1] in ('detail_html', 'comment_html', 'explanation_html')))
        c2 = _set(c2, list(path), tok)
    return c2, toks


def replace_all(s, toks, f):
    """simultaneous replacement of the tokens in s"""
    if not toks:
        return s
    out, i = [], 0
    toks = sorted(toks, key=lambda p: -len(p[0]))
    while i < len(s):
        for tok, t, raw in toks:
            if s.startswith(tok, i):
                out.append(t if raw else f(t)); i += len(tok)
                break
        else:
            out.append(s[i]); i += 1
    return ''.join(out)


def best_forms(accept):
    """the forms that are a best acceptable one: largest q among the acceptable of the three (an absent header accepts
    everything, RFC 7231 5.3.2); plain text when none is acceptable"""
    offers = create_accept_header(accept).acceptable_offers(FORMS)
    if not offers:
        return ['text/plain']
    top = max(q for _, q in offers)
    return [m for m, q in offers if q == top]


META = '<>"\''


REF_RE = re.compile(r'&(?:amp|lt|gt|quot|#x27|#[0-9]+);')


_NAMED = {'amp': '&', 'lt': '<', 'gt': '>', 'quot': '"', '#x27': "'"}


def unescape_strict(t):
    """the five references html_escape writes and decimal references, nothing else (html.unescape remaps &#128;..&#159;)"""
    return re.sub(r'&(amp|lt|gt|quot|#x27|#[0-9]+);', lambda m: _NAMED.get(m.group(1)) or chr(int(m.group(1)[1:])), t)


def benign_request(case):
    """the same request with inert alphanumeric texts in place of everything the requester chose"""
    c = dict(case)
    if case.get('extra'):
        c['extra'] = '/'.join((seg[:1] if seg[:1].isalnum() and seg[:1].isascii() else '') + 'QZs%dZ' % i for i, seg in enumerate(case['extra'].split('/')))
    if case.get('query'):
        c['query'] = 'QZq=QZv'
    if case.get('host'):
        c['host'] = 'QZh:80'
    if case.get('origin'):
        c['origin'] = '/QZo'
    return c


def check_router_app(case, obs, hct):
    """the property on a page the Router itself produced (debug settings on or off): requester-chosen text (path, query
    string, Host, Origin, and what reprs of contexts / match values show of them) occurs in the HTML form only escaped"""
    sk, _, _ = impl(benign_request(case))
    if obs['r'] != 'ok' or sk['r'] != 'ok':
        if obs['r'] == sk['r'] and obs.get('type') == sk.get('type') and obs.get('err') == sk.get('err'):
            return None
        return {'case': case, 'impl': obs, 'expected': sk, 'detail': 'the outcome depends on the request text: an inert request to the same view gives a different kind of result'}
    wants = best_forms(case.get('accept'))
    want = obs['ctype']
    if want not in wants or (hct or '').split(';')[0].strip().lower() != want:
        return {'case': case, 'impl': {'ctype': obs['ctype'], 'header': hct}, 'expected': {'ctype_one_of': wants},
                'detail': 'not rendered in the best acceptable of text/html, application/json, text/plain'}
    env = router_environ(case)
    body = obs['body']
    st = case.get('settings') or {}
    shows_url = bool(env['QUERY_STRING']) and ((st.get('dn') and case['kind'] == 'notfound') or (st.get('da') and case['kind'] == 'forbidden')
                                               or case['kind'] == 'append_slash')
    if want == 'text/html':
        for ch in META:
            if body.count(ch) != sk['body'].count(ch):
                return {'case': case, 'impl': {'body': body}, 'expected': {'count of %r' % ch: sk['body'].count(ch)},
                        'detail': 'the HTML page has a different number of raw %r than the same page for an inert request: markup chosen by the requester' % ch}
        bad = [m.start() for m in re.finditer('&', body) if not REF_RE.match(body, m.start())]
        if bad:
            return {'case': case, 'impl': {'body': body, 'at': bad[:3]}, 'expected': 'every & begins a character reference',
                    'detail': 'a bare & in the HTML page (request text inserted unescaped)'}
        if shows_url and env['QUERY_STRING'] not in unescape_strict(body):
            return {'case': case, 'impl': {'body': body}, 'expected': {'unescaped body contains': env['QUERY_STRING']},
                    'detail': 'reading the character references of the HTML page back does not give the query string: it was not escaped exactly once'}
        return None
    if want == 'application/json':
        try:
            got = json.loads(body)
        except ValueError as e:
            return {'case': case, 'impl': {'body': body}, 'expected': 'valid JSON', 'detail': 'JSON body does not parse: %s' % e}
        if not isinstance(got, dict) or not isinstance(got.get('message'), str):
            return {'case': case, 'impl': {'body': body}, 'expected': 'object with a string message', 'detail': 'JSON body has no message'}
        shown_text = got['message']
    else:
        shown_text = body
    if shows_url and env['QUERY_STRING'] not in shown_text:
        return {'case': case, 'impl': {'text': shown_text}, 'expected': {'contains': env['QUERY_STRING']},
                'detail': 'the message does not show the URL verbatim in the %s form' % want}
    return None


def check_property(case, obs, hct=None):
    """None, or a violation dict.  Uses only the implementation (twice) and Python's html/json modules."""
    if obs['r'] in ('untouched', 'construct-failed'):
        return None
    if case['mode'] == 'router_app':
        return check_router_app(case, obs, hct)
    sk_case, toks = tokenised(case)
    sk, _, _ = impl(sk_case)
    eff = eff_accept(case, obs)
    obs = {k: v for k, v in obs.items() if k != 'eff_accept'}
    sk = {k: v for k, v in sk.items() if k != 'eff_accept'}
    if obs['r'] == 'raised' and obs.get('type') == 'UnicodeEncodeError' and sk['r'] == 'ok' and (
            (sk.get('ctype') == 'text/plain' and any(has_surrogate(t) for _, t, raw in toks if not raw))
            or (sk.get('ctype') == 'text/html' and any(has_surrogate(t) for _, t, raw in toks if raw))):
        # carried outcome (see notes, "lone surrogates"): the page is UTF-8 and UTF-8 cannot represent a lone surrogate, so no
        # plain-text body can contain such a text verbatim (nor an HTML body the verbatim __html__() of a markup object that
        # holds one); the unchanged code refuses with UnicodeEncodeError
        return None
    if obs['r'] != 'ok' or sk['r'] != 'ok':
        if obs == sk:
            return None      # same failure with inert text: a template problem, not caused by the supplied text
        if obs['r'] == 'err' and sk['r'] == 'err' and obs.get('err') == sk.get('err') == 'key':
            return None
        return {'case': case, 'impl': obs, 'expected': sk, 'detail': 'the outcome depends on the supplied text: with inert tokens in place of the texts the rendering gives a different kind of result'}
    wants = best_forms(eff)
    want = obs['ctype']
    if want not in wants:
        return {'case': case, 'impl': {'ctype': obs['ctype']}, 'expected': {'ctype_one_of': wants},
                'detail': 'not rendered in the best acceptable of text/html, application/json, text/plain'}
    if hct is not None and hct.split(';')[0].strip().lower() != want:
        return {'case': case, 'impl': {'content_type_header': hct}, 'expected': {'ctype': want}, 'detail': 'Content-Type header does not match the form'}
    body = obs['body']
    if want == 'text/html':
        exp = replace_all(sk['body'], toks, esc_html)
        if body == exp:
            return None
        # lenient reading of the statement: any character references will do
        un = replace_all(_html.unescape(sk['body']), toks, lambda t: t)
        if _html.unescape(body) == un and all(body.count(c) == sk['body'].count(c) for c in META):
            return None
        return {'case': case, 'impl': {'body': body}, 'expected': {'body': exp},
                'detail': 'HTML body is not the template skeleton with each supplied text escaped (markup or placeholder expansion caused by the text)'}
    if want == 'application/json':
        try:
            got = json.loads(body)
            skj = json.loads(sk['body'])
        except ValueError as e:
            return {'case': case, 'impl': {'body': body}, 'expected': 'valid JSON', 'detail': 'JSON body does not parse: %s' % e}
        custom_fmt = bool((case.get('ctor') or {}).get('json_formatter')) and case.get('mode') != 'router_404'
        if not isinstance(got, dict) or (not custom_fmt and not isinstance(got.get('message'), str)):
            return {'case': case, 'impl': {'body': body}, 'expected': 'object with a string message', 'detail': 'JSON body has no message'}
        exp = {k: (replace_all(v, toks, lambda t: t) if isinstance(v, str) else v) for k, v in skj.items()}
        # exact comparison at the level a JSON string carries text: UTF-16 code units (so a lone surrogate must come back
        # as that surrogate, and a pair given as two code points may come back as the one astral character)
        same = set(got) == set(exp) and all((units(got[k]) == units(exp[k])) if isinstance(exp[k], str) and isinstance(got[k], str) else got[k] == exp[k]
                                            for k in exp)
        if not same:
            return {'case': case, 'impl': got, 'expected': exp, 'detail': 'JSON message does not contain the supplied text verbatim'}
        return None
    exp = replace_all(sk['body'], toks, lambda t: t)
    if body != exp:
        return {'case': case, 'impl': {'body': body}, 'expected': {'body': exp}, 'detail': 'plain-text body is not the skeleton with the supplied text verbatim'}
    return None


# ------------------------------------------------------------------------------------------------ running

def features(case):
    f = set()
    for _, t in supplied_texts(case):
        if any(c in t for c in '<>&"\''): f.add('meta')
        if '$' in t: f.add('dollar')
        if any(ord(c) > 127 for c in t): f.add('nonascii')
        if any(ord(c) < 32 or ord(c) == 127 for c in t): f.add('control')
    return f


def shown(case, obs):
    """does the body show at least one special supplied text?"""
    if obs.get('r') != 'ok':
        return False
    for _, t in supplied_texts(case):
        if any(c in t for c in '<>&"\'$') or any(ord(c) > 127 or ord(c) < 32 for c in t):
            b = obs['body']
            if t in b or esc_html(t) in b or json.dumps(t)[1:-1] in b:
                return True
    return False


def valid_case(case):
    if not isinstance(case, dict) or case.get('mode') not in ('prepare', 'wsgi', 'router_404', 'router_raise', 'twice', 'router_app'):
        return False
    if case['mode'] == 'router_404':
        return isinstance(case.get('path'), str) and not has_surrogate(case['path'])
    if case['mode'] == 'router_app':
        if has_surrogate([case.get(k) for k in ('extra', 'query', 'host', 'origin')]):
            return False
        return case.get('kind') in ROUTER_KINDS and all(isinstance(case.get(k) or '', str) for k in ('extra', 'query', 'host', 'origin')) \
            and isinstance(case.get('settings') or {}, dict) and not (case['kind'] == 'append_slash' and not (case.get('settings') or {}).get('slash'))
    return case.get('cls') in classes()


def check_case(ctx, case, mo, obs=None, hdrs=None, hct=None):
    """-> (mismatch|None, violation|None, obs)"""
    if obs is None:
        obs, hdrs, hct = impl(case)
    mism = None
    if obs['r'] == 'construct-failed':
        return None, None, obs
    custom_fmt = bool((case.get('ctor') or {}).get('json_formatter')) and case.get('mode') != 'router_404'
    if mo is not None:
        mv = model_view(mo)
        ov = {k: v for k, v in obs.items() if k != 'eff_accept'}
        if custom_fmt and mv.get('r') == 'ok' and mv.get('ctype') == 'application/json' and ov.get('r') == 'ok':
            # a caller's json_formatter is outside the model: compare everything but the body
            mv = dict(mv, body=None); ov = dict(ov, body=None)
        if mv != ov:
            mism = {'case': case, 'impl': obs, 'model': mv}
        elif mo.get('r') == 'ok' and not (custom_fmt and mo.get('form') == 'json'):
            sp = mo.get('spec') or {}
            r = sp.get('render') or {}
            want_body = mo['body'] if mo['form'] != 'json' else None
            if sp.get('form') != mo['form'] or not r.get('user_clean', False) or (want_body is not None and r.get('body') != want_body):
                mism = {'case': case, 'impl': obs, 'model': {'model_vs_spec': sp, 'form': mo['form']}}
            if mo['form'] == 'json':
                try:
                    pj = json.loads(mo['body'])
                    if sp.get('json') is None or dict(sp['json']) != pj or pj.get('message') != r.get('body'):
                        mism = {'case': case, 'impl': obs, 'model': {'lean_json_reader': sp.get('json'), 'python_json': pj}}
                except ValueError:
                    mism = {'case': case, 'impl': obs, 'model': 'model JSON body does not parse'}
    viol = check_property(case, obs, hct)
    return mism, viol, obs


def shrink_violation(ctx, v):
    def still(c):
        if not valid_case(c):
            return False
        o, _, h = impl(c)
        return check_property(c, o, h) is not None
    try:
        small = vfutil.shrink(v['case'], still, max_steps=400)
        o, _, h = impl(small)
        v2 = check_property(small, o, h)
        if v2:
            v2['stream'] = v.get('stream')
            return v2
    except Exception:
        pass
    return v


def run_cases(ctx, cases, dist=None):
    dist = dist if dist is not None else {}
    obs_all = [impl(c) for c in cases]
    model = [None] * len(cases)
    if ctx.driver_path:
        idx = [i for i, (o, h, hc) in enumerate(obs_all) if o['r'] != 'construct-failed' and not has_surrogate(cases[i])
               and not has_surrogate(h.get('exc')) and not has_surrogate(h.get('headers'))]
        for i, r in zip(idx, ctx.run_model([to_model(ctx, cases[i], obs_all[i][1], obs_all[i][0]) for i in idx])):
            model[i] = r
    mism, viol, agree = [], [], 0
    seen, nontriv = set(), set()
    for case, mo, (o, h, hc) in zip(cases, model, obs_all):
        m, v, _ = check_case(ctx, case, mo, o, h, hc)
        if m:
            mism.append(m)
        elif mo is not None:
            agree += 1
        if v:
            viol.append(v)
        bump(dist.setdefault('mode', {}), case['mode'])
        bump(dist.setdefault('outcome', {}), o['r'] + (':' + o.get('err', o.get('type', '')) if o['r'] in ('err', 'raised') else ''))
        if o['r'] == 'ok':
            bump(dist.setdefault('form', {}), FORM_NAME.get(o['ctype'], str(o['ctype'])))
        a = case.get('accept')
        kind = 'absent' if a is None else 'invalid' if type(create_accept_header(a)).__name__ == 'AcceptInvalidHeader' else \
            'q-values' if 'q=' in a else 'wildcard' if '*' in a else 'specific'
        bump(dist.setdefault('accept', {}), kind)
        if has_surrogate(case):
            bump(dist, 'lone_surrogate_cases_oracle_only')
            bump(dist.setdefault('lone_surrogate_outcomes', {}), (o.get('ctype') or '') + ':' + o['r'] + (':' + o.get('type', '') if o['r'] == 'raised' else ''))
        for ft in features(case):
            bump(dist.setdefault('text_features', {}), ft)
        if case.get('body_template') is not None or (case.get('sub') or {}).get('body') is not None:
            bump(dist, 'custom_template_cases')
        if case['mode'] == 'router_app':
            bump(dist.setdefault('router_kinds', {}), case['kind'])
            st = case.get('settings') or {}
            bump(dist.setdefault('router_settings', {}), ','.join(k for k in ('dn', 'da', 'dr', 'slash') if st.get(k)) or 'none')
        if any(case.get(k + '_html') is not None for k in ('detail', 'comment', 'explanation')):
            bump(dist, 'markup_object_cases')
        if case.get('sub'):
            bump(dist, 'adhoc_subclass_cases')
        for k in (case.get('ctor') or {}):
            bump(dist.setdefault('constructor_surface', {}), 'ctor:' + k)
        for k, _ in (case.get('after') or []):
            bump(dist.setdefault('constructor_surface', {}), 'assigned:' + k)
        if case.get('via'):
            bump(dist.setdefault('constructor_surface', {}), 'exception_response')
        if any(k.lower() == 'content-type' for k, _ in case.get('headers') or []):
            bump(dist.setdefault('constructor_surface', {}), 'header:Content-Type')
        if case.get('cls'):
            dist.setdefault('classes_seen', set()).add(case['cls'])
        key = vfutil.canon(case)
        if key not in seen:
            seen.add(key)
            if shown(case, o):
                nontriv.add(key)
    return mism, viol, agree, nontriv, dist


def escape_stream(ctx, n, dist):
    """the escape function, the JSON string codec and Template.substitute on their own, against webob / json / string"""
    from webob import html_escape
    rng = ctx.rng
    texts = [t for t in ATTACK + DOLLAR + NONASCII + CONTROL + JSONISH + [rand_text(rng) for _ in range(n)] if not has_surrogate(t)]
    reqs = [{'op': 'escape', 'text': t} for t in texts]
    tcases = []
    for _ in range(n):
        t = rand_template(rng, bad=rng.random() < 0.4) + rng.choice(['', '$', '$$', '${a', '$a}', '${a}b', '$a$b', '${_}', '$_1', '${A9_}x'])
        env = [[k, ''.join(c for c in rand_text(rng) if not 0xD800 <= ord(c) <= 0xDFFF)] for k in rng.sample(TEMPLATE_VARS + ['a', 'b', '_', '_1', 'A9_'], rng.randint(0, 8))]
        tcases.append({'op': 'template', 'text': t, 'env': env})
    if not ctx.driver_path:
        return [], 0
    rep = ctx.run_model(reqs + tcases)
    mism, agree = [], 0
    for rq, r in zip(reqs, rep[:len(reqs)]):
        t = rq['text']
        want = {'escaped': html_escape(t), 'unescaped': t, 'entities_ok': True, 'json': json.dumps(t), 'json_back': t}
        if r != want:
            mism.append({'case': rq, 'impl': want, 'model': r})
        else:
            agree += 1
    for rq, r in zip(tcases, rep[len(reqs):]):
        envd = {}
        for k, v in rq['env']:
            envd[k] = v
        try:
            want = {'r': 'ok', 'out': Template(rq['text']).substitute(envd)}
        except Exception as e:
            want = _err(e)
        if r.get('result') != want or r.get('via_tokens') != want or r.get('detok') != rq['text']:
            mism.append({'case': rq, 'impl': want, 'model': r})
        else:
            agree += 1
    dist['escape_and_template_unit_cases'] = len(reqs) + len(tcases)
    return mism, agree


def run(ctx):
    rng = ctx.rng
    classes()
    corpus = [c for _, c in ctx.corpus() if valid_case(c)]
    n = ctx.n(6000, 150000)
    cases = list(corpus)
    # every class at least once per form, with hostile texts
    for name in classes():
        for acc in ('text/html', 'application/json', 'text/plain'):
            c = {'mode': rng.choice(['prepare', 'wsgi', 'router_raise']), 'cls': name, 'accept': acc, 'detail': rand_text(rng, 0) + '<${detail}>&$$',
                 'comment': rand_text(rng, 0) + '-->"\'', 'headers': [], 'environ': [['REQUEST_METHOD', 'P<O>ST&$$']]}
            if name in MOVE_CLASSES:
                c['location'] = 'http://e.com/?a=1&b=<2>$$${detail}'
            cases.append(c)
    cases += [gen_case(rng, i) for i in range(n)]
    dist = {}
    mism, viol, agree, nontriv, dist = run_cases(ctx, cases, dist)
    m2, a2 = escape_stream(ctx, ctx.n(800, 10000), dist)
    mism += m2
    agree += a2
    dist['classes_seen'] = len(dist.get('classes_seen', ()))
    dist['classes_total'] = len(classes())
    dist['corpus_cases'] = len(corpus)
    viol = [shrink_violation(ctx, v) for v in viol[:3]] + viol[3:]
    return {'evaluations': len(cases) + dist.get('escape_and_template_unit_cases', 0), 'distinct_nontrivial': len(nontriv), 'rule': RULE,
            'agreeing': agree, 'samples': cases[len(corpus):len(corpus) + 2] + cases[-4:], 'mismatches': mism[:20], 'violations': viol,
            'distribution': dist,
            'notes': ['the q-value of each of text/html, application/json, text/plain is computed by WebOb for the case\'s Accept header and given to the model as data',
                      'exc.headers.items() is read from the constructed exception before prepare() and given to the model as data',
                      'the oracle renders each case a second time with inert tokens in place of the supplied texts (implementation only)'],
            'assumptions': ['exc.has_body is read from the constructed exception before prepare() and given to the model as data',
                            'supplied texts are Python str without lone surrogates (Lean Char = Unicode scalar value)',
                            'detail/comment/explanation/header/environ values are str (str()/__html__ conversion of other objects is not modelled)',
                            'response header names are ASCII (str.lower is modelled on ASCII letters)',
                            'a custom json_formatter is outside the model (content type and header are still compared, the oracle still applies)'],
            'trusted_base': ['WebOb: Accept header parsing and per-offer q-values (acceptparse), Response header list / content_type / body plumbing, html_escape (tied by the escape stream)',
                             'stdlib: string.Template.pattern (tied by the template stream), json.dumps / json.loads, str.encode',
                             'translator extract/c19.py (class table, templates, prepare() structure)']}


def search(ctx):
    """small-scope exhaustive search on the implementation: every class x 27 q-combinations x hostile details x comment"""
    classes()
    qs = ['0', '0.5', '1']
    accepts = []
    for a in qs:
        for b in qs:
            for c in qs:
                accepts.append('text/html;q=%s, application/json;q=%s, text/plain;q=%s' % (a, b, c))
    accepts += ['text/plain, text/html;q=0.5', 'text/plain', None, '*/*', 'text/plain, application/json;q=0.5']
    details = ['<', '>', '&', '"', "'", '\u00e9', '$', '$$', '${detail}', '$x', '<b>${br}</b>',
               '\ud83d', '\ude00', '\ude00\ud83d', 'bob\ud83d', '\U0001f600', '\u2028', '\u2029', '\x00', '\x1b\x7f']
    viol, n = [], 0
    cases = [c for _, c in ctx.corpus() if valid_case(c)]
    for name in classes():
        for acc in accepts:
            for d in details:
                for com in (None, '<'):
                    c = {'mode': 'prepare', 'cls': name, 'accept': acc, 'detail': d, 'comment': com, 'headers': [],
                         'environ': [['REQUEST_METHOD', 'G<T']]}
                    if name in MOVE_CLASSES:
                        c['location'] = '/x<y>'
                    cases.append(c)
    cases += [{'mode': 'router_404', 'path': '/' + d, 'accept': a} for d in details if not has_surrogate(d) for a in accepts]
    # the Router's own paths over the debug-settings cube
    for dn in (False, True):
        for da in (False, True):
            for dr in (False, True):
                for sl in (False, True):
                    for kind in ROUTER_KINDS:
                        if kind == 'append_slash' and not sl:
                            continue
                        for hostile in (False, True):
                            for acc in ('text/html', 'application/json', 'text/plain', '*/*', None):
                                c = {'mode': 'router_app', 'settings': {'dn': dn, 'da': da, 'dr': dr, 'slash': sl}, 'kind': kind, 'accept': acc}
                                if hostile:
                                    c.update({'extra': 'c<b>"\'&/v<i>', 'query': 'q=<script>alert(1)</script>&a=1&b=2', 'host': 'h<o>"st:80', 'origin': '/<b>"&'})
                                cases.append(c)
    # the caller's initial content type x Accept x 3 classes x how it was set
    for name in ('HTTPNotFound', 'HTTPBadRequest', 'HTTPFound'):
        for ct in [None, 'text/html', 'application/json', 'text/plain', 'image/png', 'text/plain; charset=latin-1']:
            for how in ('kw', 'attr', 'header', 'exception_response'):
                for acc in accepts:
                    for mode in ('prepare', 'wsgi'):
                        c = {'mode': mode, 'cls': name, 'accept': acc, 'detail': '<', 'comment': None, 'headers': [], 'environ': []}
                        if name == 'HTTPFound':
                            c['location'] = '/x'
                        if ct is not None:
                            if how == 'kw': c['ctor'] = {'content_type': ct}
                            elif how == 'attr': c['after'] = [['content_type', ct]]
                            elif how == 'header': c['headers'] = [['Content-Type', ct]]
                            else: c['ctor'] = {'content_type': ct}; c['via'] = 'exception_response'
                        elif how != 'kw':
                            continue
                        cases.append(c)
    for c in cases:
        n += 1
        o, _, h = impl(c)
        v = check_property(c, o, h)
        if v:
            v['stream'] = 'search'
            viol.append(v)
            if len(viol) >= 3:
                break
        if ctx.time_left() < 60:
            return {'violations': [shrink_violation(ctx, x) for x in viol], 'searched': n, 'exhaustive': False}
    return {'violations': [shrink_violation(ctx, x) for x in viol], 'searched': n, 'exhaustive': len(viol) == 0,
            'scope': 'every class x {0,0.5,1}^3 q-combinations (+5 headers) x 11 hostile details x comment in {None,"<"}; router 404 for the same details; '
                     '{HTTPNotFound, HTTPBadRequest, HTTPFound} x 6 initial content types x {keyword, attribute, header, exception_response} x the same Accept headers x {prepare, wsgi}; the Router with {debug_notfound, debug_authorization, debug_routematch, append-slash}^2 x 7 path kinds x {benign, hostile request} x 5 Accept values'}


def replay(ctx, rep):
    case = rep.get('case')
    if case is None or not valid_case(case):
        return {'violates': False, 'note': 'replay names broken obligations only', 'broken': rep.get('broken_obligations')}
    o, h, hc = impl(case)
    mo = ctx.run_model([to_model(ctx, case, h, o)])[0] if ctx.driver_path and o['r'] != 'construct-failed' and not has_surrogate(case) and not has_surrogate(h.get('exc')) else None
    m, v, _ = check_case(ctx, case, mo, o, h, hc)
    sk_case, toks = tokenised(case)
    return {'case': case, 'impl': o, 'model': model_view(mo), 'spec': (mo or {}).get('spec'), 'skeleton': impl(sk_case)[0],
            'mismatch': m, 'violation': v, 'violates': bool(v)}
