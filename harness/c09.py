"""C09 — correspondence of lean/PyramidModel/AuthTkt.lean with pyramid.authentication (AuthTicket, parse_ticket,
calculate_digest, AuthTktCookieHelper.identify/remember/forget/_get_cookies) and the property itself evaluated on the
implementation, through the real AuthTktCookieHelper with real WebOb requests/responses.

A *scenario* (the replayable case) is
  {"issues":[{cfg, ip, host, clock, uid, tokens, max_age} | {…, "mint": {userid, tokens, user_data}}…],   tickets issued first
   "cookie": null | {"raw": "<Cookie header text>"} | {"base": i, "edits": […], "quote": mode},               what the client sends
   "cfg", "ip", "host", "now", "clock", "ops":[…]}                                                         the request under test
Every request (the issuing ones too) is also run through the Lean model (one driver line per request); the hash function
and the Unicode database are handed to the model as tables recorded from hashlib / unicodedata (they are parameters of
the model), and the bytes fed to the first hash are compared as well.
"""
import binascii, hashlib, json, re, sys, unicodedata, warnings

import vfutil

warnings.simplefilter('ignore')

import pyramid.authentication as A
from pyramid.request import Request
from pyramid.response import Response
import webob.cookies as WC

ALGS = {'md5': 16, 'sha1': 20, 'sha256': 32, 'sha512': 64}
RULE = ('a scenario issues 0-2 tickets through AuthTktCookieHelper.remember (or mints one with AuthTicket directly), '
        'derives the Cookie header of a later request from them (verbatim / re-quoted / edited by substitution, insertion, '
        'deletion, field splicing, timestamp re-spelling / arbitrary text) and runs identify/remember/forget sequences '
        'plus the response callbacks under a second helper configuration and clock; it is non-trivial when the '
        'presented cookie reaches the digest comparison (its fields parse) or the request has at least two '
        'operations or is a history of at least two requests on one long-lived helper, or (ticket level) the raw userid needs quoting / contains % / has tokens or user data; distinct = distinct canonical scenario JSON')


# ------------------------------------------------------------------------------------------------ instrumentation
class Clock:
    def __init__(self, t):
        self.t = t

    def time(self):
        return self.t + 0.25      # a float, as time.time(); the code truncates with int()


class HashRec:
    """stands in for the `hashlib` module inside pyramid.authentication: real digests, recorded inputs"""

    def __init__(self):
        self.log = []            # (alg, input bytes, digest bytes)

    def new(self, alg, *a, **k):
        rec = self

        class H:
            def __init__(self):
                self.h = hashlib.new(alg)
                self.buf = b''
                self.digest_size = self.h.digest_size

            def update(self, b):
                self.buf += bytes(b)
                self.h.update(b)

            def hexdigest(self):
                rec.log.append((alg, self.buf, self.h.digest()))
                return self.h.hexdigest()

            def digest(self):
                rec.log.append((alg, self.buf, self.h.digest()))
                return self.h.digest()
        return H()


def uid_to_json(u):
    if type(u) is int:
        return {'t': 'int', 'v': str(u)}
    if type(u) is str:
        return {'t': 'str', 'v': u}
    if type(u) is bytes:
        return {'t': 'bytes', 'v': u.hex()}
    return {'t': 'other', 'v': str(u)}


def uid_from_json(j):
    t, v = j['t'], j['v']
    if t == 'int':
        return int(v)
    if t == 'str':
        return v
    if t == 'bytes':
        return bytes.fromhex(v)
    return {'3.5': 3.5, 'None': None, 'True': True}.get(v, 3.5)


def helper_of(cfg):
    return A.AuthTktCookieHelper(
        cfg['secret'], cookie_name=cfg['name'], secure=cfg['secure'], include_ip=cfg['include_ip'],
        timeout=cfg['timeout'], reissue_time=cfg['reissue'], max_age=cfg['max_age'], http_only=cfg['http_only'],
        path=cfg['path'], wild_domain=cfg['wild'], parent_domain=cfg['parent'], hashalg=cfg['alg'],
        domain=cfg['domain'], samesite=cfg['samesite'])


def exc_name(e):
    if isinstance(e, binascii.Error):
        return 'binascii.Error'
    return type(e).__name__


def parse_set_cookie(h):
    """attributes read back from one Set-Cookie header (own parser; WebOb escapes ';' inside quoted values)"""
    parts = h.split('; ')
    name, _, raw = parts[0].partition('=')
    if len(raw) >= 2 and raw[0] == '"' and raw[-1] == '"':
        raw = raw[1:-1]
        raw = re.sub(r'\\([0-3][0-7][0-7]|.)', lambda m: chr(int(m.group(1), 8)) if len(m.group(1)) == 3 else m.group(1), raw)
    out = {'name': name, 'value': raw, 'domain': None, 'path': None, 'max_age': None, 'expires': 'absent',
           'secure': False, 'http_only': False, 'samesite': None, 'raw': parts[0].partition('=')[2]}
    for p in parts[1:]:
        k, _, v = p.partition('=')
        kl = k.lower()
        if kl == 'domain':
            out['domain'] = v
        elif kl == 'path':
            out['path'] = v
        elif kl == 'max-age':
            out['max_age'] = int(v)
        elif kl == 'expires':
            out['expires'] = 'past' if v == 'Wed, 31-Dec-97 23:59:59 GMT' else 'relative'
        elif kl == 'secure':
            out['secure'] = True
        elif kl == 'httponly':
            out['http_only'] = True
        elif kl == 'samesite':
            out['samesite'] = v
        else:
            out['unknown_' + k] = v
    return out


def canon_identity(r):
    if r is None:
        return {'r': 'none'}
    return {'r': 'id', 'ts': str(r['timestamp']), 'uid': uid_to_json(r['userid']), 'tokens': list(r['tokens']),
            'userdata': r['userdata']}


def run_request(cfg, ip, host, now, clock, cookie_header, ops, helper=None, raw_encoders=False, raw_decoder=False):
    """one request through the real helper.  Returns dict(results, response, seen, hashlog, din_per_op, cookie_error)"""
    old_time, old_hash = A.time_mod, A.hashlib
    rec = HashRec()
    A.time_mod, A.hashlib = Clock(clock), rec
    try:
        if helper is None:
            helper = helper_of(cfg)     # a fresh helper; otherwise a long-lived instance shared by a history
            if raw_encoders:            # custom identity encoder: the raw text userid reaches the wire
                helper.userid_type_encoders = {str: ('raw', lambda x: x)}
            if raw_decoder:
                helper.userid_type_decoders = dict(helper.userid_type_decoders, raw=lambda x: x)
        helper.now = now
        env = {'REMOTE_ADDR': ip, 'HTTP_HOST': host, 'SERVER_NAME': host.split(':')[0]}
        if cookie_header is not None:
            env['HTTP_COOKIE'] = cookie_header
        request = Request.blank('/', environ=env)
        response = Response()
        out = {'results': [], 'dins': [], 'cookie_error': None, 'env_ok': True}
        try:
            out['seen'] = request.cookies.get(cfg['name'])
        except Exception as e:      # WebOb decodes names/values as strict UTF-8
            out['seen'] = None
            out['cookie_error'] = exc_name(e)
        for op in ops:
            n0 = len(rec.log)
            try:
                if op['op'] == 'identify':
                    r = helper.identify(request)
                    res = canon_identity(r)
                    if r is not None:
                        e = request.environ
                        if e.get('REMOTE_USER_TOKENS') != r['tokens'] or e.get('REMOTE_USER_DATA') != r['userdata'] \
                                or e.get('AUTH_TYPE') != 'cookie':
                            out['env_ok'] = False
                elif op['op'] == 'remember':
                    toks = [t if t is not None else 7 for t in op['tokens']]
                    hs = helper.remember(request, uid_from_json(op['uid']), max_age=op['max_age'], tokens=toks)
                    res = {'r': 'headers', 'cookies': [parse_set_cookie(v) for k, v in hs if k == 'Set-Cookie'],
                           'other_headers': [k for k, v in hs if k != 'Set-Cookie']}
                    response.headerlist.extend(hs)
                else:
                    hs = helper.forget(request)
                    res = {'r': 'headers', 'cookies': [parse_set_cookie(v) for k, v in hs if k == 'Set-Cookie'],
                           'other_headers': [k for k, v in hs if k != 'Set-Cookie']}
                    response.headerlist.extend(hs)
            except Exception as e:
                res = {'r': 'raised', 'err': exc_name(e)}
            out['results'].append(res)
            new = rec.log[n0:]
            out['dins'].append(new[0][1].hex() if new else None)
        n0 = len(response.headerlist)
        try:
            request._process_response_callbacks(response)
            out['response'] = [parse_set_cookie(v) for k, v in response.headerlist[n0:] if k == 'Set-Cookie']
            out['response_other'] = [k for k, v in response.headerlist[n0:] if k != 'Set-Cookie']
        except Exception as e:
            out['response'] = {'raised': exc_name(e)}
        out['st'] = {'reissued': hasattr(request, '_authtkt_reissued'), 'revoked': hasattr(request, '_authtkt_reissue_revoked')}
        out['hash'] = {inp.hex(): dig.hex() for alg, inp, dig in rec.log}
        return out
    finally:
        A.time_mod, A.hashlib = old_time, old_hash


def mint(issue):
    """a ticket signed directly with AuthTicket (not through remember): returns the cookie value"""
    old_hash = A.hashlib
    A.hashlib = hashlib
    try:
        cfg, m = issue['cfg'], issue['mint']
        ip = issue['ip'] if cfg['include_ip'] else '0.0.0.0'
        t = A.AuthTicket(cfg['secret'], m['userid'], ip, tokens=tuple(m['tokens']), user_data=m['user_data'],
                         time=issue['clock'], cookie_name=cfg['name'], hashalg=cfg['alg'])
        return t.cookie_value()
    finally:
        A.hashlib = old_hash


# ------------------------------------------------------------------------------------------------ model cases
def uni_table(*texts):
    tbl = {}
    for t in texts:
        for c in t or '':
            if ord(c) >= 127:
                if c.isspace():
                    tbl[str(ord(c))] = 's'
                else:
                    d = unicodedata.decimal(c, None)
                    if d is not None:
                        tbl[str(ord(c))] = d
    return tbl


def _unq(t):
    from urllib.parse import unquote
    return unquote(t) if t else t


def model_case(cfg, ip, host, now, clock, seen, ops, hashtab):
    mcfg = {k: cfg[k] for k in ('secret', 'name', 'secure', 'include_ip', 'timeout', 'reissue', 'max_age', 'http_only',
                                'path', 'wild', 'parent', 'domain', 'samesite')}
    mcfg['hsize'] = ALGS[cfg['alg']]
    return {'cfg': mcfg, 'req': {'cookie': seen, 'ip': ip, 'domain': host.split(':')[0], 'now': now, 'clock': clock},
            'ops': ops, 'hash': hashtab, 'uni': uni_table(seen, ip, _unq(seen))}


COOKIE_KEYS = ('name', 'value', 'domain', 'path', 'max_age', 'expires', 'secure', 'http_only', 'samesite')


def strip_cookie(c):
    return {k: c.get(k) for k in COOKIE_KEYS}


def impl_view(out):
    """the part of the implementation's output that the model predicts"""
    res = []
    for r in out['results']:
        if r['r'] == 'headers':
            res.append({'r': 'headers', 'cookies': [strip_cookie(c) for c in r['cookies']]})
        else:
            res.append(r)
    resp = out['response'] if isinstance(out['response'], dict) else [strip_cookie(c) for c in out['response']]
    return {'results': res, 'response': resp, 'st': out['st'], 'dins': out['dins']}


def model_view(mo):
    return {k: mo.get(k) for k in ('results', 'response', 'st', 'dins')}


def compare(out, mo):
    """None when impl == model (modulo paths the model declares unmodelled)"""
    if mo is None:
        return None
    if 'error' in mo:
        return 'driver error: %s' % mo['error']
    iv, mv = impl_view(out), model_view(mo)
    for i, (a, b) in enumerate(zip(iv['results'], mv['results'] or [])):
        if b.get('r') == 'raised' and b.get('err') == 'unmodelled':
            return 'unmodelled'
    if iv != mv:
        for k in iv:
            if iv[k] != mv[k]:
                return 'field %s differs' % k
    # spec side printed by the driver: an identity is only returned when digest_ok
    for r, s in zip(mv['results'], mo.get('spec') or []):
        if r.get('r') == 'id' and not (s and s.get('digest_ok')):
            return 'model accepted without digest_ok'
    return None


# ------------------------------------------------------------------------------------------------ independent spec
def spec_int16(s):
    try:
        return int(s, 16)
    except ValueError:
        return None


def spec_fields(text, dsz):
    """the documented wire format, parsed independently: digest | 8 hex ts | quoted userid ! [tokens !] user_data"""
    from urllib.parse import unquote
    t = text.strip('"')
    if len(t) < dsz + 9:
        return None
    ts = spec_int16(t[dsz:dsz + 8])
    rest = t[dsz + 8:]
    if ts is None or '!' not in rest:
        return None
    i = rest.index('!')
    uid, data = unquote(rest[:i]), rest[i + 1:]
    if '!' in data:
        j = data.index('!')
        toks, ud = data[:j], data[j + 1:]
    else:
        toks, ud = '', data
    return {'digest': t[:dsz], 'ts': ts, 'userid': uid, 'tokens': toks, 'user_data': ud}


def spec_input(ip, ts, secret, userid, tokens, user_data):
    if ':' in ip:
        pre = (ip + str(ts)).encode('latin-1')
    else:
        pre = bytes(int(x) for x in ip.split('.')) + (ts % (1 << 32)).to_bytes(4, 'big')
    b = lambda x: x if isinstance(x, bytes) else x.encode('utf-8')
    return pre + b(secret) + b(userid) + b'\0' + b(tokens) + b'\0' + b(user_data)


def spec_mac(alg, secret, data):
    d1 = hashlib.new(alg, data).hexdigest()
    return hashlib.new(alg, d1.encode('ascii') + secret.encode('utf-8')).hexdigest()


def eff_ip(cfg, ip):
    return ip if cfg['include_ip'] else '0.0.0.0'


def spec_domain(cfg, host):
    cur = host.split(':')[0]
    if cfg['domain']:
        return cfg['domain']
    if cfg['parent'] and cur.count('.') > 1:
        return cur.split('.', 1)[1]
    if cfg['wild']:
        return cur
    return None


def ip_ok(ip):
    if ':' in ip:
        return all(ord(c) < 128 for c in ip)
    ps = ip.split('.')
    return len(ps) == 4 and all(p.isascii() and p.isdigit() and int(p) < 256 for p in ps)


def tokens_repr(toks):
    """what the wire format can give back for an issued token tuple"""
    return [list(toks)] if toks else [[''], []]



# ------------------------------------------------------------------------------------------------ ticket level
def ticket_side_conditions(tokens, user_data):
    """when the wire format can give (tokens, user_data) back exactly: no ',' or '!' inside a token, a '!' in the user
    data only behind a tokens field, user data not ending in a double quote (parse_ticket strips them)"""
    joined = ','.join(tokens)
    return (all(',' not in t and '!' not in t for t in tokens) and (joined != '' or '!' not in user_data)
            and not user_data.endswith('"'))


def run_ticket_impl(t):
    """AuthTicket(...).cookie_value() then parse_ticket(...) on the real code, hashes recorded"""
    old_hash = A.hashlib
    rec = HashRec()
    A.hashlib = rec
    out = {'value': None, 'value_err': None, 'parse': None}
    try:
        try:
            tk = A.AuthTicket(t['secret'], t['userid'], t['ip'], tokens=tuple(t['tokens']), user_data=t['user_data'],
                              time=t['time'], hashalg=t['alg'])
            out['value'] = tk.cookie_value()
        except Exception as e:
            out['value_err'] = exc_name(e)
            return out, rec
        try:
            ts, uid, toks, ud = A.parse_ticket(t['psecret'], out['value'], t['pip'], t['alg'])
            out['parse'] = {'r': 'ok', 'ts': str(ts), 'userid': uid, 'tokens': list(toks), 'userdata': ud}
        except A.BadTicket:
            out['parse'] = {'r': 'bad'}
        except Exception as e:
            out['parse'] = {'r': 'raised', 'err': exc_name(e)}
        return out, rec
    finally:
        A.hashlib = old_hash


def ticket_model_case(t, hashtab, value):
    mt = {k: t[k] for k in ('secret', 'userid', 'ip', 'tokens', 'user_data', 'time', 'psecret', 'pip')}
    mt['hsize'] = ALGS[t['alg']]
    return {'ticket': mt, 'hash': hashtab, 'uni': uni_table(value, t['ip'], t['pip'], t['userid'])}


def run_ticket(sc):
    t = sc['ticket']
    out, rec = run_ticket_impl(t)
    hashtab = {inp.hex(): dig.hex() for alg, inp, dig in rec.log}
    item = {'mc': ticket_model_case(t, hashtab, out['value']), 'impl': out,
            'cmp': (lambda mo, out=out: None if {k: mo.get(k) for k in ('value', 'value_err', 'parse')} == out else 'ticket-level result differs')}
    pr = out['parse'] or {'r': 'raised', 'err': out['value_err']}
    fin = {'results': [{'r': {'ok': 'id', 'bad': 'none'}.get(pr['r'], 'raised'), 'err': pr.get('err')}], 'response': [], 'cookie_error': None,
           'seen': out['value']}
    return {'issued': [], 'reqs': [], 'items': [item], 'header': None, 'value': out['value'], 'final': fin, 'ticket_out': out}


def oracle_ticket(sc, ex):
    """ticket level: what AuthTicket signed is what parse_ticket returns (same secret, address, algorithm), nothing else parses"""
    t, out = sc['ticket'], ex['ticket_out']
    viol = []
    if not ip_ok(t['ip']) or not ip_ok(t['pip']) or not (0 <= t['time'] < 2 ** 32):
        return viol
    if out['value'] is None:
        viol.append(('AuthTicket.cookie_value raises %s' % out['value_err'], None))
        return viol
    pr = out['parse']
    if pr['r'] == 'raised':
        viol.append(('parse_ticket raises %s' % pr['err'], None))
        return viol
    same = (t['secret'], t['ip']) == (t['psecret'], t['pip'])
    if not same:
        if pr['r'] == 'ok':
            viol.append(('parse_ticket accepts a ticket signed under another secret/address', None))
        return viol
    if ticket_side_conditions(t['tokens'], t['user_data']):
        exp = {'r': 'ok', 'ts': str(t['time']), 'userid': t['userid'], 'tokens': list(t['tokens']) or [''], 'userdata': t['user_data']}
        if pr != exp:
            viol.append(('parse_ticket(cookie_value()) returns %s, issued %s' % (json.dumps(pr, ensure_ascii=True)[:300],
                                                                              json.dumps(exp, ensure_ascii=True)[:300]), None))
    elif pr['r'] == 'ok' and pr['userid'] != t['userid']:
        viol.append(('parse_ticket returns userid %r, issued %r' % (pr['userid'], t['userid']), None))
    return viol


def model_items(ex):
    """what goes to the driver for an executed scenario: [{'mc': case|None, 'cmp': reply -> None|why, 'impl': view}]"""
    items = list(ex.get('items', []))
    for cfg, ip, host, now, clock, ops, out in ex['reqs']:
        if out.get('ticket_item'):
            items.append(out['ticket_item'])
        elif out['cookie_error']:
            continue
        else:
            items.append({'mc': model_case(cfg, ip, host, now, clock, out['seen'], ops, out['hash']), 'impl': impl_view(out),
                          'cmp': (lambda mo, out=out: compare(out, mo))})
    return items


AWKWARD_UIDS = ['adm%69n', '%2541', 'caf\u00e9%c3%a9', '%', '%%', '%4', '%zz', 'a%20b', 'a b', 'a!b', 'a,b', 'a+b', '"quoted"', "it's",
                '\u00e9', '\u65e5\u672c%E6', '%E6%97%A5', '%00', 'x%2', '100%', '%25', '%2525', 'a/b', 'a\\b', '', 'bob', '\u0663', '%C3', 'a%0Ab',
                ' lead', 'trail ', '%e9', 'tab\there', '%41%42', 'a%2Fb', '%F0%9F%98%80', '%ff', '5', '-12']
AWKWARD_TOKENS = [[], ['a'], ['a', 'b'], ['x%41'], ['a b'], ['\u00e9'], ['a+b', 'c'], ['%2C'], [''], ['a!b'], ['a,b'], ['"q"', 'z']]
AWKWARD_DATA = ['', 'x', 'a%41', '%2541', 'a!b', 'd|e', '\u00e9', 'ends"', 'a b,c', 'userid_type:raw', 'k=v%3D', "'"]


def gen_ticket(rng):
    r = rng.random()
    uid = rng.choice(AWKWARD_UIDS) if r < 0.6 else vfutil.rand_text(rng, 10, alphabet=list('%0123456789abcdefABCDEF!,+ "xyz\u00e9\u65e5'))
    if rng.random() < 0.15:
        uid = uid + rng.choice(AWKWARD_UIDS)
    secret = rng.choice(SECRETS)
    ip = rng.choice(IPS4 + IPS6 + ['0.0.0.0', '0.0.0.0'])
    t = {'secret': secret, 'userid': uid, 'ip': ip, 'tokens': list(rng.choice(AWKWARD_TOKENS)), 'user_data': rng.choice(AWKWARD_DATA),
         'time': rng.choice([c for c in CLOCKS if c < 2 ** 32]), 'alg': rng.choice(list(ALGS)), 'psecret': secret, 'pip': ip}
    k = rng.random()
    if k < 0.1:
        t['psecret'] = rng.choice(SECRETS)
    elif k < 0.2:
        t['pip'] = rng.choice(IPS4 + IPS6)
    return {'kind': 'ticket', 'ticket': t}


def small_scope_tickets():
    """every combination of 20 awkward raw userids x 6 token lists x 6 user data texts, signed and parsed back"""
    out = []
    for uid in AWKWARD_UIDS[:20]:
        for toks in AWKWARD_TOKENS[:6]:
            for ud in AWKWARD_DATA[:6]:
                out.append({'kind': 'ticket-small-scope', 'ticket': {'secret': 'secret', 'userid': uid, 'ip': '0.0.0.0', 'tokens': list(toks),
                            'user_data': ud, 'time': 1000, 'alg': 'md5', 'psecret': 'secret', 'pip': '0.0.0.0'}})
    return out


# ------------------------------------------------------------------------------------------------ scenario execution
def quote_cookie(name, value, mode):
    """the Cookie header text a client sends for `value` (text) in one of several spellings"""
    raw = value.encode('utf-8', 'surrogatepass').decode('latin-1')
    if mode == 'plain':
        return '%s=%s' % (name, raw)
    if mode == 'dq':
        return '%s="%s"' % (name, raw.replace('\\', '\\\\').replace('"', '\\"'))
    if mode == 'octal':
        return '%s="%s"' % (name, ''.join('\\%03o' % ord(c) for c in raw))
    if mode == 'mixed':
        return '%s="%s"' % (name, ''.join(('\\%03o' % ord(c)) if i % 3 == 0 else
                                            ('\\' + c if c in '"\\' else c) for i, c in enumerate(raw)))
    if mode == 'others':
        return 'a=1; %s=%s; zz="q"' % (name, WC._value_quote(value.encode('utf-8', 'surrogatepass')).decode('latin-1'))
    return '%s=%s' % (name, WC._value_quote(value.encode('utf-8', 'surrogatepass')).decode('latin-1'))   # 'webob'


FIELDS = ('digest', 'ts', 'userid', 'tokens', 'user_data')


def split_value(v, dsz):
    """syntactic fields of a well-formed ticket value (userid still quoted)"""
    d, ts, rest = v[:dsz], v[dsz:dsz + 8], v[dsz + 8:]
    parts = rest.split('!')
    if len(parts) >= 3:
        return {'digest': d, 'ts': ts, 'userid': parts[0], 'tokens': parts[1], 'user_data': '!'.join(parts[2:])}
    return {'digest': d, 'ts': ts, 'userid': parts[0], 'tokens': None, 'user_data': '!'.join(parts[1:])}


def join_value(f):
    v = f['digest'] + f['ts'] + f['userid'] + '!'
    if f['tokens'] is not None:
        v += f['tokens'] + '!'
    return v + f['user_data']


def apply_edits(value, edits, issued, dszs):
    for e in edits:
        k = e[0]
        if k == 'sub' and value:
            i = e[1] % len(value)
            value = value[:i] + e[2] + value[i + 1:]
        elif k == 'ins':
            i = e[1] % (len(value) + 1)
            value = value[:i] + e[2] + value[i:]
        elif k == 'del' and value:
            i = e[1] % len(value)
            value = value[:i] + value[i + 1:]
        elif k == 'trunc':
            value = value[:e[1] % (len(value) + 1)]
        elif k == 'wrap':
            value = e[1] + value + e[2]
        elif k == 'field':          # take field e[1] from issued ticket e[2]
            f = split_value(value, dszs[0])
            g = split_value(issued[e[2] % len(issued)], dszs[e[2] % len(issued)])
            f[e[1]] = g[e[1]]
            value = join_value(f)
        elif k == 'fieldset':       # set field e[1] to literal text
            f = split_value(value, dszs[0])
            f[e[1]] = e[2]
            value = join_value(f)
        elif k == 'set':
            value = e[1]
    return value


def build_header(name, ck, issued, dszs, infos):
    """the Cookie header text (and the cookie value before quoting) a cookie spec stands for"""
    header, value = None, None
    if ck is not None:
        if 'raw' in ck:
            header = ck['raw']
        else:
            base = ck.get('base')
            value = issued[base] if base is not None and base < len(issued) else ''
            if value is None:
                value = ''
            if base is not None and base < len(issued):
                order = [base] + [i for i in range(len(issued)) if i != base]
            else:
                order = list(range(len(issued)))
            iv = [issued[i] or '' for i in order] or ['']
            dz = [dszs[i] for i in order] or [32]
            value = apply_edits(value, ck.get('edits', []), iv, dz)
            if ck.get('quote') == 'verbatim' and base is not None and base < len(infos) and infos[base] and not ck.get('edits'):
                header = '%s=%s' % (name, infos[base]['raw'])
            else:
                header = quote_cookie(name, value, ck.get('quote', 'webob'))
            try:
                header.encode('latin-1')
            except UnicodeEncodeError:
                header = None
    return header, value


def issue_request(iss, helper=None):
    """run the issuing request of a scenario; a 'raw' issue uses a helper with an identity userid encoder and is
    compared with the model at ticket level (AuthTicket.cookie_value of the raw userid)"""
    cfg = iss['cfg']
    ops = [{'op': 'remember', 'uid': iss['uid'], 'max_age': iss.get('max_age'), 'tokens': iss['tokens']}]
    raw = bool(iss.get('raw'))
    out = run_request(cfg, iss['ip'], iss['host'], iss['clock'], iss['clock'], None, ops, helper=None if raw else helper, raw_encoders=raw)
    r = out['results'][0]
    if raw:
        val = r['cookies'][0]['value'] if r['r'] == 'headers' and r['cookies'] else None
        eip = eff_ip(cfg, iss['ip'])
        t = {'secret': cfg['secret'], 'userid': iss['uid']['v'], 'ip': eip, 'tokens': list(iss['tokens']), 'user_data': 'userid_type:raw',
             'time': iss['clock'], 'alg': cfg['alg'], 'psecret': cfg['secret'], 'pip': eip}
        out['ticket_item'] = {'mc': ticket_model_case(t, out['hash'], val), 'impl': {'value': val},
                              'cmp': (lambda mo, val=val: None if val is None or mo.get('value') == val else 'issued value (raw userid) differs')}
    return ops, out


def run_samereq(sc):
    """several identify() calls on ONE request object: different helpers that share the cookie name (other secret / hash
    algorithm / IP binding / timeout) and helpers whose clock moves between calls.  Every call is also answered by a fresh
    helper on a fresh request with the same cookie and environ at the same time.  (reissue_time is None in these
    histories, so the per-request reissue flags — legitimately shared between helpers — play no part.)"""
    issued, reqs, dszs, infos, steps = [], [], [], [], []
    for iss in sc.get('issues', []):
        dszs.append(ALGS[iss['cfg']['alg']] * 2)
        ops, out = issue_request(iss)
        reqs.append((iss['cfg'], iss['ip'], iss['host'], iss['clock'], iss['clock'], ops, out))
        r = out['results'][0]
        if r['r'] == 'headers' and r['cookies']:
            issued.append(r['cookies'][0]['value']); infos.append(r['cookies'][0])
        else:
            issued.append(None); infos.append(None)
    name = sc['helpers'][0]['name']
    header, value = build_header(name, sc.get('cookie'), issued, dszs, infos)
    helpers = [helper_of(c) for c in sc['helpers']]
    env = {'REMOTE_ADDR': sc['ip'], 'HTTP_HOST': sc['host'], 'SERVER_NAME': sc['host'].split(':')[0]}
    if header is not None:
        env['HTTP_COOKIE'] = header
    request = Request.blank('/', environ=env)
    try:
        seen, cerr = request.cookies.get(name), None
    except Exception as e:
        seen, cerr = None, exc_name(e)
    out = None
    for call in sc['calls']:
        cfg, helper = sc['helpers'][call['h']], helpers[call['h']]
        old_time, old_hash = A.time_mod, A.hashlib
        rec = HashRec()
        A.time_mod, A.hashlib = Clock(call['now']), rec
        try:
            helper.now = call['now']
            try:
                res = canon_identity(helper.identify(request))
            except Exception as e:
                res = {'r': 'raised', 'err': exc_name(e)}
        finally:
            A.time_mod, A.hashlib = old_time, old_hash
        out = {'results': [res], 'dins': [rec.log[0][1].hex() if rec.log else None], 'cookie_error': cerr, 'seen': seen, 'env_ok': True,
               'response': [], 'st': {'reissued': hasattr(request, '_authtkt_reissued'), 'revoked': hasattr(request, '_authtkt_reissue_revoked')},
               'hash': {inp.hex(): dig.hex() for alg, inp, dig in rec.log}}
        ops = [{'op': 'identify'}]
        fresh = run_request(cfg, sc['ip'], sc['host'], call['now'], call['now'], header, ops)
        reqs.append((cfg, sc['ip'], sc['host'], call['now'], call['now'], ops, out))
        steps.append({'cfg': cfg, 'call': call, 'header': header, 'long': out, 'fresh': fresh})
    return {'issued': issued, 'reqs': reqs, 'header': header, 'value': value, 'final': out, 'steps': steps, 'multi': True, 'samereq': True}


def oracle_samereq(sc, ex):
    """identify is a function of the helper's parameters, the cookie, the address and `now` only: every call on the shared
    request object gets the answer a fresh request gets from a fresh helper of that configuration at that time; and each
    call on its own satisfies the single-request oracle"""
    viol = []
    for i, st in enumerate(ex['steps']):
        a, b = st['long']['results'], impl_view(st['fresh'])['results']
        if a != b or st['long']['cookie_error'] != st['fresh']['cookie_error']:
            viol.append(('call %d (helper %d, now %d) on the shared request answers %s, a fresh request to a fresh helper of that configuration answers %s '
                         '(the answer depends on earlier identify() calls on the request object)' % (
                             i, st['call']['h'], st['call']['now'], json.dumps(a, ensure_ascii=True)[:300], json.dumps(b, ensure_ascii=True)[:300]), None))
        sc_i = {'issues': sc.get('issues', []), 'cookie': sc.get('cookie'), 'cfg': st['cfg'], 'ip': sc['ip'], 'host': sc['host'],
                'now': st['call']['now'], 'clock': st['call']['now'], 'ops': [{'op': 'identify'}]}
        ex_i = {'issued': ex['issued'], 'final': st['long'], 'header': st['header']}
        for d, f in oracle(sc_i, ex_i):
            viol.append(('call %d: %s' % (i, d), f))
    return viol


def run_multi(sc):
    """a HISTORY of requests against long-lived helper instances (one per entry of sc['helpers']); every request is
    also answered by a fresh helper of the same configuration, for the history-independence clause of the oracle"""
    helpers = [helper_of(c) for c in sc['helpers']]
    issued, reqs, dszs, infos, steps = [], [], [], [], []
    for iss in sc.get('issues', []):
        cfg = iss['cfg']
        dszs.append(ALGS[cfg['alg']] * 2)
        h = iss.get('h')
        ops, out = issue_request(iss, helper=helpers[h] if h is not None else None)
        reqs.append((cfg, iss['ip'], iss['host'], iss['clock'], iss['clock'], ops, out))
        r = out['results'][0]
        if r['r'] == 'headers' and r['cookies']:
            issued.append(r['cookies'][0]['value']); infos.append(r['cookies'][0])
        else:
            issued.append(None); infos.append(None)
    header = None
    out = None
    for rq in sc['requests']:
        cfg = sc['helpers'][rq['h']]
        header, value = build_header(cfg['name'], rq.get('cookie'), issued, dszs, infos)
        out = run_request(cfg, rq['ip'], rq['host'], rq['now'], rq['clock'], header, rq['ops'], helper=helpers[rq['h']])
        fresh = run_request(cfg, rq['ip'], rq['host'], rq['now'], rq['clock'], header, rq['ops'])
        reqs.append((cfg, rq['ip'], rq['host'], rq['now'], rq['clock'], rq['ops'], out))
        steps.append({'cfg': cfg, 'rq': rq, 'header': header, 'long': out, 'fresh': fresh})
    return {'issued': issued, 'reqs': reqs, 'header': header, 'value': None, 'final': out, 'steps': steps, 'multi': True}


def run_scenario(sc):
    """execute a scenario on the real code; returns dict with per-request impl outputs and model cases"""
    issued, reqs, dszs, infos = [], [], [], []
    for iss in sc.get('issues', []):
        cfg = iss['cfg']
        dszs.append(ALGS[cfg['alg']] * 2)
        if 'mint' in iss:
            issued.append(mint(iss))
            infos.append(None)
            continue
        ops, out = issue_request(iss)
        reqs.append((cfg, iss['ip'], iss['host'], iss['clock'], iss['clock'], ops, out))
        r = out['results'][0]
        if r['r'] == 'headers' and r['cookies']:
            issued.append(r['cookies'][0]['value'])
            infos.append(r['cookies'][0])
        else:
            issued.append(None)
            infos.append(None)
    header, value = build_header(sc['cfg']['name'], sc.get('cookie'), issued, dszs, infos)
    out = run_request(sc['cfg'], sc['ip'], sc['host'], sc['now'], sc['clock'], header, sc['ops'], raw_decoder=bool(sc.get('raw_decoder')))
    reqs.append((sc['cfg'], sc['ip'], sc['host'], sc['now'], sc['clock'], sc['ops'], out))
    return {'issued': issued, 'reqs': reqs, 'header': header, 'value': value, 'final': out}


def model_cases_of(ex):
    cases = []
    for cfg, ip, host, now, clock, ops, out in ex['reqs']:
        if out['cookie_error']:
            cases.append(None)
        else:
            cases.append(model_case(cfg, ip, host, now, clock, out['seen'], ops, out['hash']))
    return cases


# ------------------------------------------------------------------------------------------------ the property oracle
def classify_header_utf8(header):
    """F-C09c: some cookie name/value of the header is not UTF-8 after WebOb's unquoting"""
    if header is None:
        return False
    try:
        for k, v in WC._parse_cookie(header):
            try:
                k.decode('utf8'); v.decode('utf8')
            except UnicodeDecodeError:
                return True
    except Exception:
        return False
    return False


def check_attrs(cfg, host, cookies, kind, op_max_age, viol, where):
    if len(cookies) != 1:
        viol.append('%s: %d Set-Cookie headers instead of one' % (where, len(cookies)))
        return
    c = cookies[0]
    exp_ma = 0 if kind == 'forget' else (op_max_age if op_max_age is not None else cfg['max_age'])
    exp = {'name': cfg['name'], 'path': cfg['path'] or None, 'domain': spec_domain(cfg, host) or None, 'max_age': exp_ma,
           'secure': bool(cfg['secure']), 'http_only': bool(cfg['http_only']), 'samesite': cfg['samesite']}
    for k, v in exp.items():
        if c.get(k) != v:
            viol.append('%s: attribute %s is %r, configured %r' % (where, k, c.get(k), v))
    if kind == 'forget' and (c['value'] != '' or c['expires'] != 'past'):
        viol.append('%s: forget does not delete the cookie' % where)
    if [k for k in c if k.startswith('unknown_')]:
        viol.append('%s: unexpected attribute' % where)


def oracle(sc, ex):
    """list of (detail, finding|None): the property, stated on the implementation's observable outputs"""
    viol = []
    out = ex['final']
    cfg, ops = sc['cfg'], sc['ops']
    issues = sc.get('issues', [])
    minted = any('mint' in i for i in issues)
    dsz = ALGS[cfg['alg']] * 2
    eip = eff_ip(cfg, sc['ip'])
    if not ip_ok(eip):
        return viol                    # outside the quantifier (addresses are IPv4/IPv6)
    if out['cookie_error']:
        viol.append(('request.cookies raises %s inside identify' % out['cookie_error'],
                     'F-C09c' if classify_header_utf8(ex['header']) and out['cookie_error'] == 'UnicodeDecodeError' else None))
        return viol
    seen = out['seen']
    # issued tickets (through remember) with what they stand for
    tickets = []
    for i, iss in enumerate(issues):
        if 'mint' in iss or ex['issued'][i] is None:
            continue
        tickets.append({'i': i, 'cfg': iss['cfg'], 'eip': eff_ip(iss['cfg'], iss['ip']), 'ts': iss['clock'],
                        'uid': iss['uid'] if iss['uid']['t'] != 'other' else {'t': 'str', 'v': iss['uid']['v']},
                        'tokens': iss['tokens'], 'value': ex['issued'][i]})
    f = spec_fields(seen, dsz) if seen is not None else None
    # which issued ticket is presented unchanged?
    unchanged = None
    ck = sc.get('cookie')
    if ck and 'base' in ck and not ck.get('edits') and seen is not None:
        for t in tickets:
            if t['i'] == ck['base'] and seen == t['value']:
                unchanged = t
    same_helper = unchanged is not None and unchanged['cfg']['secret'] == cfg['secret'] and \
        unchanged['cfg']['alg'] == cfg['alg'] and unchanged['eip'] == eip
    live = same_helper and (not cfg['timeout'] or sc['now'] <= unchanged['ts'] + cfg['timeout'])
    mint_exact = None   # a ticket minted with AuthTicket (raw userid, no type tag), presented unchanged to the same helper
    if ck and ck.get('base') is not None and not ck.get('edits') and seen is not None and ck['base'] < len(issues):
        iss0 = issues[ck['base']]
        if 'mint' in iss0 and ex['issued'][ck['base']] == seen:
            m, c2 = iss0['mint'], iss0['cfg']
            if (c2['secret'], c2['alg'], eff_ip(c2, iss0['ip'])) == (cfg['secret'], cfg['alg'], eip) and 'userid_type:' not in m['user_data'] \
                    and ticket_side_conditions(m['tokens'], m['user_data']) and cfg['reissue'] is None and iss0['clock'] < 2 ** 32 \
                    and (not cfg['timeout'] or sc['now'] <= iss0['clock'] + cfg['timeout']):
                mint_exact = {'uid': {'t': 'str', 'v': m['userid']}, 'tokens': list(m['tokens']) or [''], 'ts': str(iss0['clock']),
                              'userdata': m['user_data']}
    shift = None      # F-C09d: same digest input bytes as an issued ticket, other (ts, userid, address)
    if f is not None and cfg['include_ip'] and ':' in eip:
        mine = spec_input(eip, f['ts'], cfg['secret'], f['userid'], f['tokens'], f['user_data'])
        for t in tickets:
            g = spec_fields(t['value'], ALGS[t['cfg']['alg']] * 2)
            if g and t['cfg']['secret'] == cfg['secret'] and ':' in t['eip'] and \
                    spec_input(t['eip'], g['ts'], cfg['secret'], g['userid'], g['tokens'], g['user_data']) == mine and \
                    (g['ts'], g['userid'], t['eip']) != (f['ts'], f['userid'], eip):
                shift = t
    any_remember_ok = False
    for k, (op, r) in enumerate(zip(ops, out['results'])):
        where = 'op %d (%s)' % (k, op['op'])
        if op['op'] == 'identify':
            if mint_exact is not None:
                if not (r['r'] == 'id' and all(r[k] == mint_exact[k] for k in ('uid', 'tokens', 'ts', 'userdata'))):
                    viol.append(('%s does not yield exactly the raw identity the ticket was signed for: got %s, signed %s' % (
                        where, json.dumps(r, ensure_ascii=True)[:300], json.dumps(mint_exact, ensure_ascii=True)[:300]), None))
                continue
            if r['r'] == 'raised':
                if minted:
                    continue          # tickets signed with the helper's own secret outside remember: outside the statement
                viol.append(('%s raises %s' % (where, r['err']), 'F-C09d' if shift else None))
                continue
            if r['r'] == 'id':
                if f is None:
                    viol.append(('%s accepts a cookie whose fields do not parse' % where, None))
                    continue
                exp = spec_mac(cfg['alg'], cfg['secret'], spec_input(eip, f['ts'], cfg['secret'], f['userid'], f['tokens'], f['user_data']))
                if f['digest'] != exp:
                    viol.append(('%s accepts a cookie whose digest field is not the keyed digest of its other fields' % where, None))
                    continue
                if not minted:
                    ok = any(r['uid'] == t['uid'] and r['tokens'] in tokens_repr(t['tokens']) for t in tickets)
                    if not ok:
                        viol.append(('%s yields an identity that was never issued: %s %s' % (where, r['uid'], r['tokens']),
                                     'F-C09d' if shift else None))
                        continue
            if unchanged is not None and not same_helper and unchanged['cfg']['secret'] == cfg['secret'] and unchanged['cfg']['alg'] == cfg['alg'] \
                    and unchanged['eip'] != eip and not same_v4_octets(unchanged['eip'], eip) and r['r'] != 'none':
                viol.append(('%s accepts a ticket issued for address %r when it is presented from the different address %r' % (
                    where, unchanged['eip'], eip), None))
            if unchanged is not None and same_helper:
                if live:
                    if not (r['r'] == 'id' and r['uid'] == unchanged['uid'] and r['tokens'] in tokens_repr(unchanged['tokens'])
                            and r['ts'] == str(unchanged['ts'])):
                        viol.append(('%s does not yield the issued identity for an unexpired ticket: %s' % (where, r), None))
                elif r['r'] != 'none':
                    viol.append(('%s accepts an expired ticket' % where, None))
        else:
            if r['r'] == 'headers':
                if op['op'] == 'remember':
                    any_remember_ok = True
                check = []
                check_attrs(cfg, sc['host'], r['cookies'], op['op'], op.get('max_age'), check, where)
                viol.extend((c, None) for c in check)
                if r.get('other_headers'):
                    viol.append(('%s returns non Set-Cookie headers' % where, None))
    # reissue
    resp = out['response']
    if isinstance(resp, dict):
        viol.append(('response callbacks raise %s' % resp['raised'], None))
        return viol
    remembers = [k for k, op in enumerate(ops) if op['op'] == 'remember']
    all_rem_ok = all(out['results'][k]['r'] == 'headers' for k in remembers)
    identifies = [k for k, op in enumerate(ops) if op['op'] == 'identify']
    forgets = [k for k, op in enumerate(ops) if op['op'] == 'forget']
    if unchanged is not None and same_helper and all_rem_ok and not minted:
        due = live and cfg['reissue'] is not None and sc['now'] - unchanged['ts'] > cfg['reissue'] and bool(identifies)
        want = due and not forgets and not remembers
        if want:
            if len(resp) != 1:
                viol.append(('a ticket older than reissue_time caused %d fresh tickets on the response instead of one' % len(resp), None))
            else:
                check = []
                check_attrs(cfg, sc['host'], resp, 'remember', None, check, 'reissued cookie')
                viol.extend((c, None) for c in check)
                # the fresh ticket must be valid: present it again to the same helper
                hdr = quote_cookie(cfg['name'], resp[0]['value'], 'webob')
                again = run_request(cfg, sc['ip'], sc['host'], sc['clock'], sc['clock'], hdr, [{'op': 'identify'}])
                a = again['results'][0]
                if not (a['r'] == 'id' and a['uid'] == unchanged['uid'] and a['tokens'] in tokens_repr(unchanged['tokens'])
                        and a['ts'] == str(sc['clock'])):
                    viol.append(('the reissued ticket is not a fresh valid ticket for the same identity: %s' % a, None))
        elif resp:
            viol.append(('%d reissued ticket(s) attached although %s' % (
                len(resp), 'the user was forgotten or re-remembered' if due else 'no reissue is due'), None))
    elif unchanged is None and resp and not minted:
        # a reissue can only come from an accepted ticket; it must still be for an issued identity
        pass
    if not out['env_ok']:
        viol.append(('environ REMOTE_USER_* does not mirror the identity', None))
    return viol


def answer(out):
    """what a client/application can observe of one request"""
    v = impl_view(out)
    return {'results': v['results'], 'response': v['response'], 'st': v['st'], 'cookie_error': out.get('cookie_error')}


def oracle_multi(sc, ex):
    """a history on long-lived helpers: (a) HISTORY INDEPENDENCE — identification is a function of (cookie, address, now,
    configuration): every request gets the answer a fresh helper of the same configuration gives (the Lean model `identify`
    has no helper-state argument); (b) each request on its own satisfies the single-request oracle"""
    viol = []
    for i, st in enumerate(ex['steps']):
        a, b = answer(st['long']), answer(st['fresh'])
        if a != b:
            viol.append(('request %d: the long-lived helper answers %s, a fresh helper with the same configuration answers %s '
                         '(the answer depends on earlier requests)' % (i, json.dumps(a['results'])[:300], json.dumps(b['results'])[:300]), None))
        rq = st['rq']
        sc_i = {'issues': sc.get('issues', []), 'cookie': rq.get('cookie'), 'cfg': st['cfg'], 'ip': rq['ip'], 'host': rq['host'],
                'now': rq['now'], 'clock': rq['clock'], 'ops': rq['ops']}
        ex_i = {'issued': ex['issued'], 'final': st['long'], 'header': st['header']}
        for d, f in oracle(sc_i, ex_i):
            viol.append(('request %d: %s' % (i, d), f))
    return viol


def last_view(sc):
    """(cfg, ip, ops) of the (last) request of a scenario, for the distribution counters"""
    if 'ticket' in sc:
        t = sc['ticket']
        return {'alg': t['alg'], 'include_ip': True}, t['pip'], [{'op': 'parse_ticket'}]
    if 'calls' in sc:
        return sc['helpers'][sc['calls'][-1]['h']], sc['ip'], [{'op': 'identify'}] * len(sc['calls'])
    if 'requests' in sc:
        rq = sc['requests'][-1]
        return sc['helpers'][rq['h']], rq['ip'], rq['ops']
    return sc['cfg'], sc['ip'], sc['ops']


def nontrivial(sc, ex):
    if 'ticket' in sc:
        from urllib.parse import quote
        t = sc['ticket']
        return quote(t['userid']) != t['userid'] or '%' in t['userid'] or bool(t['tokens']) or bool(t['user_data'])
    if 'calls' in sc:
        return len(sc['calls']) >= 2
    if 'requests' in sc:
        return len(sc['requests']) >= 2
    out = ex['final']
    seen = out.get('seen')
    f = spec_fields(seen, ALGS[sc['cfg']['alg']] * 2) if seen is not None else None
    return f is not None or len(sc['ops']) >= 2


# ------------------------------------------------------------------------------------------------ generator
UIDS = [5, 0, -12, 2 ** 70, 1759276800, 'bob', 'é日本', '', 'a b', 'x!y', 'alice@example.com', 'q' * 40, '0', '٣',
        b'', b'ab', b'\xff\x00', b'abc', b'\xd1\x85\x88', 3.5, None, True, 'Ѐ', '>>>?', b'\xfb\xff']
TOK_OK = ['a', 'admin', 'T1', 'x-y', 'p+q_r', 'abc\n', 'Z']
TOK_BAD = ['', '1a', 'a b', 'é', 'a,b', 'a!', None, 'a\n\n', '\n', 'a|b']
SECRETS = ['secret', 's3cr3t!', '', '0', '11', 'ключ', 'k' * 64, '0000', 'se\x00c']
IPS4 = ['1.2.3.4', '0.0.0.0', '255.255.255.255', '10.0.0.1', '58.58.49.49']
IPS6 = ['::1', '::11', '2001:db8::1', 'fe80::1%eth0', '::', '::ffff:1.2.3.4', '0:0:0:0:0:0:0:1', '2001:DB8::1', '[::1]', '::ffff:10.0.0.1']
# pairs of DISTINCT address strings that denote 'the same host' in another notation (IPv4-mapped, zero-compressed vs
# expanded, upper/lower hex, bracketed, zone id, leading zeros / int() spellings of IPv4 octets)
ALIAS_PAIRS = [('1.2.3.4', '::ffff:1.2.3.4'), ('1.2.3.4', '::FFFF:1.2.3.4'), ('1.2.3.4', '::ffff:102:304'), ('10.0.0.1', '::ffff:10.0.0.1'),
               ('1.2.3.4', '0:0:0:0:0:ffff:1.2.3.4'), ('255.255.255.255', '::ffff:255.255.255.255'), ('0.0.0.0', '::ffff:0.0.0.0'),
               ('::1', '0:0:0:0:0:0:0:1'), ('::1', '0000:0000:0000:0000:0000:0000:0000:0001'), ('::1', '[::1]'), ('::', '0::0'),
               ('2001:db8::1', '2001:DB8::1'), ('2001:db8::1', '2001:0db8:0:0:0:0:0:1'), ('2001:db8::1', '2001:db8:0::1'),
               ('fe80::1', 'fe80::1%eth0'), ('::ffff:1.2.3.4', '::ffff:0102:0304'),
               ('1.2.3.4', '001.002.003.004'), ('1.2.3.4', '1.2.3.04'), ('10.0.0.1', '010.0.0.1'), ('1.2.3.4', '1.2.3.4 '), ('10.0.0.1', '1_0.0.0.1')]


def same_v4_octets(a, b):
    """both dotted, and the same octet values (the digest signs chr(int(part)), not the spelling)"""
    if ':' in a or ':' in b:
        return False
    try:
        return [int(x) for x in a.split('.')] == [int(x) for x in b.split('.')]
    except ValueError:
        return False
IPS_BAD = ['abc', '1.2.3', '256.1.1.1', '1.2.3.4.5', '', '1.2.3.-4', '1.2.3. 4', '1_0.2.3.4']
HOSTS = ['example.com', 'www.example.com', 'a.b.example.com', 'localhost', 'example.com:8080', 'x.y.z.w.example.org:80']
CLOCKS = [0, 1, 10, 255, 256, 1000, 65535, 99999999, 1759276800, 1759276801, 2 ** 32 - 1, 0xF0000001, 2 ** 31, 123456789]
EDIT_CHARS = list('0123456789abcdefABCDEFxX_+- !%",|=:;\\/~') + ['é', '٣', ' ', '\x00', '\n', '\t', ' ', '７', 'ÿ', '\x7f', '\x1c', '😀']


def gen_cfg(rng, base=None):
    if base is not None and rng.random() < 0.8:
        cfg = dict(base)
        r = rng.random()
        if r < 0.25:
            cfg['secret'] = rng.choice(SECRETS)
        elif r < 0.4:
            cfg['alg'] = rng.choice(list(ALGS))
        elif r < 0.5:
            cfg['include_ip'] = not cfg['include_ip']
        return cfg
    return {'secret': rng.choice(SECRETS), 'name': rng.choice(['auth_tkt', 'auth_tkt', 'tkt', 'sid-x']),
            'secure': rng.random() < 0.4, 'include_ip': rng.random() < 0.5,
            'timeout': rng.choice([None, None, 0, 1, 10, 100, 3600]), 'reissue': rng.choice([None, None, 0, 1, 5, 50]),
            'max_age': rng.choice([None, None, 0, 1, 3600]), 'http_only': rng.random() < 0.4,
            'path': rng.choice(['/', '/', '/app', '/a/b']), 'wild': rng.random() < 0.7, 'parent': rng.random() < 0.3,
            'alg': rng.choice(list(ALGS)), 'domain': rng.choice([None, None, None, 'example.org', '.example.com', '']),
            'samesite': rng.choice(['Lax', 'Lax', 'Strict', None])}


def gen_tokens(rng, allow_bad=False):
    n = rng.choice([0, 0, 1, 1, 2, 3])
    toks = [rng.choice(TOK_OK) for _ in range(n)]
    if allow_bad and rng.random() < 0.5:
        toks.insert(rng.randint(0, len(toks)), rng.choice(TOK_BAD))
    return toks


def gen_uid(rng):
    r = rng.random()
    if r < 0.7:
        return uid_to_json(rng.choice(UIDS))
    if r < 0.8:
        return uid_to_json(rng.randint(-10 ** 6, 10 ** 12))
    if r < 0.9:
        return uid_to_json(vfutil.rand_text(rng, 8, p_special=0.3, p_nonascii=0.3))
    return uid_to_json(bytes(rng.randrange(256) for _ in range(rng.randint(0, 7))))


def gen_ip(rng, bad=False):
    if bad and rng.random() < 0.5:
        return rng.choice(IPS_BAD)
    return rng.choice(IPS4 + IPS6)


def gen_ops(rng):
    r = rng.random()
    if r < 0.45:
        return [{'op': 'identify'}]
    n = rng.choice([1, 2, 2, 3, 3, 4, 5])
    ops = []
    for _ in range(n):
        k = rng.random()
        if k < 0.5:
            ops.append({'op': 'identify'})
        elif k < 0.8:
            ops.append({'op': 'remember', 'uid': gen_uid(rng), 'max_age': rng.choice([None, None, 0, 7, 3600]),
                        'tokens': gen_tokens(rng, allow_bad=rng.random() < 0.2)})
        else:
            ops.append({'op': 'forget'})
    return ops


def ts_respell(rng, ts):
    """other spellings of an 8-character hex timestamp field (same or different value)"""
    h = '%x' % ts
    cands = ['%08x' % ts, ('%08x' % ts).upper(), ('+%07x' % ts)[:8], (' %07x' % ts)[:8], ('%07x ' % ts)[:8],
             ('0x%06x' % ts)[:8], ('0X%06x' % ts)[:8], ('0x_%05x' % ts)[:8], ('-%07x' % ((1 << 32) - ts))[:8] if ts else '-0000000',
             ('%x' % ts).rjust(8), ('%x' % ts).ljust(8), '0_' + ('%06x' % ts)[:6], h[:1] + '_' + ('%06x' % ts)[-6:],
             ('%08x' % (ts + 1))[-8:], ('%08x' % max(ts - 1, 0)), ' ' + ('%07x' % ts)[:7], '٣' + ('%07x' % ts)[:7],
             '0000000g', '        ', '__000000', '0x', '+-000001', '1__23456', '1234567_', '\t' + ('%07x' % ts)[:7]]
    return rng.choice(cands)


REQ_KINDS = ('valid', 'other_ip', 'expired', 'edited', 'other_ticket', 'requoted', 'nocookie')


def history_request(kind, cfg, ipA, ipB, host, t0, h=0, ops=None, edit=None, quote='webob'):
    """one request of a history: the same issued cookie value (ticket 0) under different circumstances"""
    rq = {'h': h, 'ip': ipA, 'host': host, 'now': t0 + 1, 'clock': t0 + 1, 'ops': ops or [{'op': 'identify'}],
          'cookie': {'base': 0, 'edits': [], 'quote': quote}, 'what': kind}
    if kind == 'other_ip':
        rq['ip'] = ipB
    elif kind == 'expired':
        rq['now'] = rq['clock'] = t0 + (cfg['timeout'] or 50) + 1
    elif kind == 'edited':
        rq['cookie']['edits'] = [edit or ['sub', ALGS[cfg['alg']] * 2 + 9, 'x']]
    elif kind == 'other_ticket':
        rq['cookie']['base'] = 1
    elif kind == 'requoted':
        rq['cookie']['quote'] = 'octal'
    elif kind == 'nocookie':
        rq['cookie'] = None
    rq['now'] = min(rq['now'], 2 ** 32 - 1); rq['clock'] = min(rq['clock'], 2 ** 32 - 1)
    return rq


def gen_multi(rng):
    """a multi-request history against one (sometimes two) long-lived helper(s)"""
    cfgA = gen_cfg(rng)
    cfgA['include_ip'] = rng.random() < 0.75
    cfgA['timeout'] = rng.choice([None, 10, 100, 0])
    cfgA['reissue'] = rng.choice([None, None, 5])
    helpers = [cfgA]
    if rng.random() < 0.35:
        helpers.append(gen_cfg(rng, cfgA))
    ipA = gen_ip(rng)
    ipB = rng.choice([i for i in IPS4 + IPS6 if i != ipA])
    if rng.random() < 0.3:
        ipA, ipB = rng.choice(ALIAS_PAIRS + [(y, x) for x, y in ALIAS_PAIRS])
    host = rng.choice(HOSTS)
    t0 = rng.choice([c for c in CLOCKS if c < 2 ** 32 - 200])
    issues = [{'cfg': cfgA, 'h': rng.choice([0, None]), 'ip': ipA, 'host': host, 'clock': t0, 'uid': gen_uid(rng), 'tokens': gen_tokens(rng), 'max_age': None},
              {'cfg': cfgA, 'h': rng.choice([0, None]), 'ip': rng.choice([ipA, ipB]), 'host': host, 'clock': t0, 'uid': gen_uid(rng), 'tokens': gen_tokens(rng), 'max_age': None}]
    reqs = []
    for _ in range(rng.choice([2, 3, 3, 4, 5])):
        kind = rng.choice(REQ_KINDS + ('valid', 'other_ip', 'expired'))
        ops = None
        r = rng.random()
        if r < 0.15:
            ops = [{'op': 'identify'}, {'op': 'identify'}]
        elif r < 0.3:
            ops = gen_ops(rng)
        edit = [rng.choice(['sub', 'ins', 'del']), rng.randrange(200), rng.choice(EDIT_CHARS)]
        if edit[0] == 'del':
            edit = edit[:2]
        rq = history_request(kind, cfgA, ipA, ipB, host, t0, h=rng.randrange(len(helpers)) if rng.random() < 0.4 else 0, ops=ops,
                             edit=edit, quote=rng.choice(['webob', 'verbatim', 'plain', 'dq', 'octal']))
        if rng.random() < 0.2:
            rq['now'] = rq['clock'] = min(2 ** 32 - 1, t0 + rng.choice([0, 5, 6, 10, 11, 100, 101]))
        reqs.append(rq)
    return {'kind': 'multi', 'issues': issues, 'helpers': helpers, 'requests': reqs}


def small_scope_histories():
    """every sequence of 1..3 requests over the 7 request kinds, on one long-lived helper, for four configurations"""
    out = []
    base = {'secret': 'secret', 'name': 'auth_tkt', 'secure': False, 'include_ip': True, 'timeout': 10, 'reissue': None,
            'max_age': None, 'http_only': False, 'path': '/', 'wild': True, 'parent': False, 'alg': 'md5', 'domain': None, 'samesite': 'Lax'}
    import itertools
    for over, ipA, ipB in (({}, '1.2.3.4', '1.2.3.5'), ({'alg': 'sha256', 'timeout': None, 'reissue': 0}, '::1', '2001:db8::1'),
                           ({'include_ip': False}, '1.2.3.4', '10.0.0.1'), ({'timeout': 0, 'secret': 'k' * 64}, '10.0.0.1', '::1'),
                           ({}, '1.2.3.4', '::ffff:1.2.3.4'), ({'alg': 'sha1'}, '::ffff:1.2.3.4', '1.2.3.4'), ({'timeout': None}, '::1', '0:0:0:0:0:0:0:1')):
        cfg = dict(base); cfg.update(over)
        issues = [{'cfg': cfg, 'h': 0, 'ip': ipA, 'host': 'example.com', 'clock': 1000, 'uid': {'t': 'str', 'v': 'alice'}, 'tokens': ['a'], 'max_age': None},
                  {'cfg': cfg, 'h': None, 'ip': ipB, 'host': 'example.com', 'clock': 1000, 'uid': {'t': 'int', 'v': '7'}, 'tokens': [], 'max_age': None}]
        for n in (1, 2, 3):
            for kinds in itertools.product(REQ_KINDS, repeat=n):
                out.append({'kind': 'multi-small-scope', 'issues': issues, 'helpers': [cfg],
                            'requests': [history_request(k, cfg, ipA, ipB, 'example.com', 1000) for k in kinds]})
    return out


def small_scope_aliases():
    """every alias pair, both directions, issue at A -> identify the unchanged cookie from A and from B (fresh helpers)"""
    out = []
    base = {'secret': 'secret', 'name': 'auth_tkt', 'secure': False, 'include_ip': True, 'timeout': None, 'reissue': None,
            'max_age': None, 'http_only': False, 'path': '/', 'wild': True, 'parent': False, 'alg': 'md5', 'domain': None, 'samesite': 'Lax'}
    for a, b in ALIAS_PAIRS + [(y, x) for x, y in ALIAS_PAIRS]:
        for alg in ('md5', 'sha256'):
            cfg = dict(base, alg=alg)
            iss = {'cfg': cfg, 'ip': a, 'host': 'example.com', 'clock': 1759276800, 'uid': {'t': 'str', 'v': 'alice'}, 'tokens': ['a'], 'max_age': None}
            for ip in (b, a):
                out.append({'kind': 'alias-small-scope', 'issues': [iss], 'cookie': {'base': 0, 'edits': [], 'quote': 'webob'}, 'cfg': cfg,
                            'ip': ip, 'host': 'example.com', 'now': 1759276801, 'clock': 1759276801, 'ops': [{'op': 'identify'}]})
    return out


def samereq_variants(cfgA):
    """helpers that share the cookie name with cfgA and differ in one verification parameter"""
    return [dict(cfgA, secret=cfgA['secret'] + 'x'), dict(cfgA, alg='sha1' if cfgA['alg'] != 'sha1' else 'sha256'),
            dict(cfgA, include_ip=not cfgA['include_ip']), dict(cfgA, timeout=3)]


def gen_samereq(rng):
    cfgA = gen_cfg(rng)
    cfgA['reissue'] = None
    cfgA['timeout'] = rng.choice([None, 10, 100, 0])
    vs = samereq_variants(cfgA)
    rng.shuffle(vs)
    helpers = [cfgA] + vs[:rng.choice([1, 1, 2, 3])]
    ipA = rng.choice([i for i in IPS4 + IPS6 if i != '0.0.0.0'])
    host = rng.choice(HOSTS)
    t0 = rng.choice([c for c in CLOCKS if c < 2 ** 32 - 300])
    T = cfgA['timeout'] or 50
    issue = {'cfg': cfgA, 'ip': ipA, 'host': host, 'clock': t0, 'uid': gen_uid(rng), 'tokens': gen_tokens(rng), 'max_age': None}
    calls = []
    for _ in range(rng.choice([2, 2, 3, 3, 4, 5])):
        calls.append({'h': rng.choice([0, 0] + list(range(len(helpers)))), 'now': t0 + rng.choice([0, 1, 3, 4, T, T, T + 1, T + 1, T + 50])})
    ck = {'base': 0, 'edits': [], 'quote': rng.choice(['webob', 'verbatim', 'dq', 'octal'])}
    if rng.random() < 0.15:
        ck['edits'] = [['sub', rng.randrange(120), rng.choice(EDIT_CHARS)]]
    return {'kind': 'samereq', 'issues': [issue], 'helpers': helpers, 'cookie': ck, 'ip': ipA, 'host': host, 'calls': calls}


def small_scope_samereq():
    """every sequence of 1..3 identify() calls on one request object over 8 (helper, time) pairs, two base configurations"""
    import itertools
    out = []
    base = {'secret': 'secret', 'name': 'auth_tkt', 'secure': False, 'include_ip': False, 'timeout': 10, 'reissue': None,
            'max_age': None, 'http_only': False, 'path': '/', 'wild': True, 'parent': False, 'alg': 'md5', 'domain': None, 'samesite': 'Lax'}
    for over, ip in (({}, '1.2.3.4'), ({'include_ip': True, 'alg': 'sha256'}, '::1')):
        cfgA = dict(base); cfgA.update(over)
        helpers = [cfgA] + samereq_variants(cfgA)
        issue = {'cfg': cfgA, 'ip': ip, 'host': 'example.com', 'clock': 1000, 'uid': {'t': 'str', 'v': 'alice'}, 'tokens': ['a'], 'max_age': None}
        alphabet = [(0, 1001), (0, 1010), (0, 1011), (1, 1001), (2, 1001), (3, 1001), (4, 1002), (4, 1004)]
        for n in (1, 2, 3):
            for seq in itertools.product(alphabet, repeat=n):
                out.append({'kind': 'samereq-small-scope', 'issues': [issue], 'helpers': helpers, 'cookie': {'base': 0, 'edits': [], 'quote': 'webob'},
                            'ip': ip, 'host': 'example.com', 'calls': [{'h': h, 'now': t} for h, t in seq]})
    return out


def gen_scenario(rng, kind=None):
    kind = kind or rng.choice(['valid', 'valid', 'valid', 'boundary', 'boundary', 'edit', 'edit', 'edit', 'splice', 'tsfield',
                               'other_helper', 'arbitrary', 'mint', 'history', 'history', 'nocookie', 'badip', 'quoting',
                               'shift', 'multi', 'multi', 'multi', 'ticket', 'ticket', 'ticket', 'rawid', 'rawid', 'alias', 'alias', 'samereq', 'samereq'])
    if kind == 'samereq':
        return gen_samereq(rng)
    if kind == 'multi':
        return gen_multi(rng)
    if kind == 'ticket':
        return gen_ticket(rng)
    cfgA = gen_cfg(rng)
    ipA = gen_ip(rng)
    host = rng.choice(HOSTS)
    t0 = rng.choice(CLOCKS)
    issue = {'cfg': cfgA, 'ip': ipA, 'host': host, 'clock': t0, 'uid': gen_uid(rng), 'tokens': gen_tokens(rng, allow_bad=rng.random() < 0.08), 'max_age': rng.choice([None, None, 5])}
    sc = {'kind': kind, 'issues': [issue], 'cookie': {'base': 0, 'edits': [], 'quote': rng.choice(['verbatim', 'webob', 'plain', 'dq', 'octal', 'mixed', 'others'])},
          'cfg': cfgA, 'ip': ipA, 'host': rng.choice([host, host, rng.choice(HOSTS)]), 'now': t0, 'clock': t0, 'ops': [{'op': 'identify'}]}
    deltas = [0, 1, 2, 5, 1000]
    for v in (cfgA['timeout'], cfgA['reissue']):
        if v is not None:
            deltas += [v - 1, v, v + 1, v, v + 1]
    d = max(0, rng.choice(deltas))
    sc['now'] = t0 + d
    sc['clock'] = sc['now'] if rng.random() < 0.8 else sc['now'] + rng.choice([1, 7])
    if kind == 'valid':
        sc['ops'] = gen_ops(rng) if rng.random() < 0.4 else [{'op': 'identify'}]
    elif kind == 'boundary':
        if rng.random() < 0.5:
            sc['cfg'] = dict(cfgA, timeout=rng.choice([1, 10, 100]), reissue=rng.choice([None, 0, 5]))
            sc['now'] = t0 + sc['cfg']['timeout'] + rng.choice([-1, 0, 0, 1, 1])
        else:
            sc['cfg'] = dict(cfgA, reissue=rng.choice([0, 1, 5, 50]), timeout=rng.choice([None, 0, 1000]))
            sc['now'] = max(0, t0 + sc['cfg']['reissue'] + rng.choice([-1, 0, 0, 1, 1]))
        sc['clock'] = sc['now']
        sc['ops'] = rng.choice([[{'op': 'identify'}], [{'op': 'identify'}, {'op': 'identify'}], gen_ops(rng)])
    elif kind == 'edit':
        n = rng.choice([1, 1, 1, 2, 3])
        for _ in range(n):
            k = rng.choice(['sub', 'sub', 'ins', 'del', 'trunc', 'wrap'])
            pos = rng.randrange(400)
            if rng.random() < 0.5:      # aim at the interesting region (digest end / timestamp / userid)
                pos = ALGS[cfgA['alg']] * 2 + rng.randint(-3, 14)
            if k in ('sub', 'ins'):
                sc['cookie']['edits'].append([k, pos, rng.choice(EDIT_CHARS)])
            elif k == 'wrap':
                sc['cookie']['edits'].append(['wrap', rng.choice(['"', '""', '', ' ']), rng.choice(['"', '', '"""', '!'])])
            else:
                sc['cookie']['edits'].append([k, pos])
    elif kind in ('splice', 'other_helper'):
        cfgB = gen_cfg(rng, cfgA)
        issue2 = {'cfg': cfgB, 'ip': rng.choice([ipA, gen_ip(rng)]), 'host': host, 'clock': rng.choice([t0, rng.choice(CLOCKS)]),
                  'uid': gen_uid(rng), 'tokens': gen_tokens(rng), 'max_age': None}
        sc['issues'].append(issue2)
        if kind == 'splice':
            for _ in range(rng.choice([1, 1, 2])):
                sc['cookie']['edits'].append(['field', rng.choice(FIELDS), 1])
        else:
            sc['cookie']['base'] = 1
            if rng.random() < 0.5:
                sc['ip'] = issue2['ip']
    elif kind == 'tsfield':
        sc['cookie']['edits'].append(['fieldset', 'ts', ts_respell(rng, t0)])
        if rng.random() < 0.3:
            sc['cookie']['edits'].append(['fieldset', 'userid', rng.choice(['%41', 'a%zz', '%', '%e9', '%C3%A9', '%f0%90%80', 'é%41', '%00', 'x%3d', '%2'])])
    elif kind == 'arbitrary':
        dsz = ALGS[cfgA['alg']] * 2
        choice = rng.random()
        if choice < 0.3:
            txt = vfutil.rand_text(rng, 30, p_special=0.4, p_nonascii=0.2, p_control=0.05)
        elif choice < 0.6:
            txt = ''.join(rng.choice('0123456789abcdef') for _ in range(dsz)) + ts_respell(rng, t0) + \
                rng.choice(['bob!', '5!userid_type:int', '!', 'a!b!c', 'a%21b!t!userid_type:b64str', '', 'x'])
        elif choice < 0.8:
            txt = rng.choice(['', '"', '""', '!', 'x' * 5000, 'é' * 40, '0' * (dsz + 8) + '!'])
        else:
            sc['cookie'] = {'raw': rng.choice(['auth_tkt="\\377"', 'x="\\303"; auth_tkt=abc', 'auth_tkt=abc\xff', 'auth_tkt', '=', 'auth_tkt=',
                                              'auth_tkt="\\303\\251\\303\\251"', 'auth_tkt="\\355\\240\\200"', 'auth_tkt=a; auth_tkt=b',
                                              '%s="\\303\\251%s"' % (cfgA['name'], 'a' * 50)])}
            txt = None
        if txt is not None:
            sc['cookie'] = {'base': None, 'edits': [['set', txt]], 'quote': rng.choice(['webob', 'plain', 'dq', 'octal'])}
        sc['issues'] = [] if rng.random() < 0.5 else sc['issues']
        if rng.random() < 0.3:
            sc['ops'] = gen_ops(rng)
    elif kind == 'mint':
        ud = rng.choice(AWKWARD_DATA[:9]) if rng.random() < 0.4 else rng.choice(['userid_type:int', 'userid_type:b64unicode', 'userid_type:b64str', 'userid_type:unicode', '', 'x|userid_type:int',
                         'userid_type:int|userid_type:int', 'userid_type:nope', '|', 'userid_type:b64str|userid_type:int', 'a!b', 'userid_type:'])
        uid = rng.choice(AWKWARD_UIDS) if rng.random() < 0.45 else rng.choice(['5', ' 7 ', '1_0', 'abc', 'YWJj', 'YWI=', 'YQ==', 'YQ', 'Y', 'YW=Jj', '=YWJj', '////', 'w6k=', '/w==', 'é', '٣', '', 'a!b',
                          'Y W\nJj', 'YWJjZA===', '0x10', '+5', '-0', 'YWJj' * 3, 'a%b', 'Ā'])
        toks = rng.choice([[], ['a'], ['a', 'b'], ['', 'a'], ['a b'], ['é'], ['a', '', 'b'], ['1x'], ['x%41'], ['a+b', 'c']])
        sc['issues'] = [{'cfg': cfgA, 'ip': ipA, 'host': host, 'clock': t0, 'mint': {'userid': uid, 'tokens': toks, 'user_data': ud}}]
        sc['ops'] = rng.choice([[{'op': 'identify'}], [{'op': 'identify'}, {'op': 'identify'}], gen_ops(rng)])
    elif kind == 'alias':
        # the ticket is bound to address A; the same cookie comes from B, another spelling of 'the same host'
        a, b = rng.choice(ALIAS_PAIRS)
        if rng.random() < 0.5:
            a, b = b, a
        cfg = dict(cfgA, include_ip=True, timeout=rng.choice([None, 0, 100]))
        sc['issues'][0]['cfg'] = cfg
        sc['issues'][0]['ip'] = a
        sc['cfg'], sc['ip'] = cfg, rng.choice([b, b, b, a])
        sc['now'] = sc['clock'] = min(t0 + rng.choice([0, 1]), 2 ** 32 - 1)
        sc['cookie']['quote'] = rng.choice(['verbatim', 'webob'])
        sc['ops'] = rng.choice([[{'op': 'identify'}], [{'op': 'identify'}, {'op': 'identify'}]])
    elif kind == 'rawid':
        # a helper with identity userid_type_encoders: the raw text id reaches the wire through remember()
        sc['issues'][0]['raw'] = True
        sc['issues'][0]['uid'] = {'t': 'str', 'v': rng.choice(AWKWARD_UIDS)}
        sc['issues'][0]['tokens'] = gen_tokens(rng)
        sc['raw_decoder'] = rng.random() < 0.5
        sc['ops'] = rng.choice([[{'op': 'identify'}], [{'op': 'identify'}, {'op': 'identify'}]])
    elif kind == 'history':
        sc['cfg'] = dict(cfgA, reissue=rng.choice([0, 1, 5]), timeout=rng.choice([None, None, 1000]))
        sc['now'] = t0 + sc['cfg']['reissue'] + rng.choice([0, 1, 1, 1, 3])
        sc['clock'] = sc['now']
        ops = gen_ops(rng)
        while len(ops) < 2:
            ops = gen_ops(rng)
        sc['ops'] = ops
    elif kind == 'nocookie':
        sc['cookie'] = None
        sc['ops'] = gen_ops(rng)
    elif kind == 'badip':
        ip = gen_ip(rng, bad=True)
        sc['issues'][0]['ip'] = ip
        sc['ip'] = ip
        sc['cfg'] = dict(cfgA, include_ip=True)
        sc['issues'][0]['cfg'] = sc['cfg']
    elif kind == 'quoting':
        sc['cookie']['quote'] = rng.choice(['dq', 'octal', 'mixed', 'others', 'plain'])
        if rng.random() < 0.4:
            sc['cookie']['edits'].append(['wrap', rng.choice(['"', '""']), rng.choice(['"', '', '""'])])
    elif kind == 'shift':
        # digit shifting between the decimal timestamp and the userid under IPv6 binding (F-C09d territory)
        sec = rng.choice(['0', '00', '1', '11', 'secret', '0x'])
        cfg = dict(cfgA, secret=sec, include_ip=True, timeout=rng.choice([None, 0, 5]))
        t0 = rng.choice([10, 20, 110, 1000, 1759276800])
        ip = rng.choice(IPS6)
        sc['issues'] = [{'cfg': cfg, 'ip': ip, 'host': host, 'clock': t0,
                         'uid': uid_to_json(rng.choice([5, 15, 'ab', b'ab', b'abc', 'abcd', 0])), 'tokens': gen_tokens(rng), 'max_age': None}]
        sc['cfg'], sc['ip'], sc['now'], sc['clock'] = cfg, rng.choice([ip, ip, ip + '1', ip + '0']), t0, t0
        d = sec[:1] if sec[:1].isdigit() else '0'
        sc['cookie'] = {'base': 0, 'quote': 'webob', 'edits': [['fieldset', 'ts', '%08x' % (t0 // 10)], ['ins', ALGS[cfg['alg']] * 2 + 8, d]]}
        if rng.random() < 0.3:
            sc['cookie']['edits'] = [['fieldset', 'ts', '%08x' % (t0 * 10 + int(d))], ['del', ALGS[cfg['alg']] * 2 + 8]]
    # the wire format holds 8 hex digits: clocks stay below 2**32 (7 Feb 2106), the domain of the theorems
    top = 2 ** 32 - 1
    sc['now'] = min(sc['now'], top)
    sc['clock'] = min(sc['clock'], top)
    return sc


# ------------------------------------------------------------------------------------------------ run / search / replay
def evaluate(sc):
    """(execution, violations[(detail, finding)]) — never raises"""
    if 'ticket' in sc:
        ex = run_ticket(sc)
        return ex, oracle_ticket(sc, ex)
    if 'calls' in sc:
        ex = run_samereq(sc)
        return ex, oracle_samereq(sc, ex)
    if 'requests' in sc:
        ex = run_multi(sc)
        return ex, oracle_multi(sc, ex)
    ex = run_scenario(sc)
    return ex, oracle(sc, ex)


def violation_record(sc, ex, vs):
    detail, fid = vs[0]
    v = {'case': sc, 'impl': {'seen': ex['final'].get('seen'), 'results': ex['final']['results'], 'response': ex['final'].get('response'),
                              'header': ex['header'], 'ticket': ex.get('ticket_out')},
         'expected': 'C09: issued tickets are accepted unchanged until they expire; anything else never raises and yields nothing or the original identity; reissue/forget/attributes as configured',
         'detail': '; '.join(d for d, _ in vs[:4])}
    if ex.get('multi'):
        if ex.get('samereq'):
            v['impl']['history'] = [{'shared_request': st['long']['results'], 'fresh': impl_view(st['fresh'])['results'], 'header': st['header'],
                                     'helper': st['call']['h'], 'now': st['call']['now']} for st in ex['steps']]
        else:
            v['impl']['history'] = [{'long_lived': answer(st['long'])['results'], 'fresh': answer(st['fresh'])['results'], 'header': st['header'],
                                     'ip': st['rq']['ip'], 'now': st['rq']['now']} for st in ex['steps']]
    fids = {f for _, f in vs}
    if len(fids) == 1 and fid:
        v['finding'] = fid
    return v


def shrink_violation(sc, vs):
    want = {f for _, f in vs}

    def still(c):
        try:
            _, v2 = evaluate(c)
        except Exception:
            return False
        return bool(v2) and {f for _, f in v2} == want
    try:
        return vfutil.shrink(sc, still, max_steps=150)
    except Exception:
        return sc


def process(ctx, scenarios, dist, use_model=True):
    mism, viol, agree, evals = [], [], 0, 0
    seen_keys, nontriv = set(), set()
    execs, mcases, owners = [], [], []
    for idx, sc in enumerate(scenarios):
        try:
            ex, vs = evaluate(sc)
        except Exception as e:      # harness failure on this scenario: report as a mismatch so it is never silent
            mism.append({'case': sc, 'impl': 'harness exception %s: %s' % (type(e).__name__, e), 'model': None})
            continue
        evals += 1
        execs.append((sc, ex))
        key = vfutil.canon(sc)
        if key not in seen_keys:
            seen_keys.add(key)
            if nontrivial(sc, ex):
                nontriv.add(key)
        fin = ex['final']
        vfutil.bump(dist['kinds'], sc.get('kind', 'corpus'))
        lcfg, lip, lops = last_view(sc)
        vfutil.bump(dist['ops_per_request'], len(lops))
        if 'requests' in sc:
            vfutil.bump(dist['requests_per_history'], len(sc['requests']))
        if 'calls' in sc:
            vfutil.bump(dist['calls_on_one_request'], len(sc['calls']))
        for r in fin['results']:
            vfutil.bump(dist['results'], r['r'] if r['r'] != 'raised' else 'raised:' + r['err'])
        if fin.get('cookie_error'):
            vfutil.bump(dist['results'], 'cookies.get raised')
        if isinstance(fin.get('response'), list) and fin['response']:
            vfutil.bump(dist['results'], 'reissue attached')
        vfutil.bump(dist['alg'], lcfg['alg'])
        vfutil.bump(dist['ip'], 'v6' if ':' in eff_ip(lcfg, lip) else 'v4')
        if vs:
            rec = violation_record(sc, ex, vs)
            if 'finding' in rec:
                vfutil.bump(dist['known_findings'], rec['finding'])
                if dist['known_findings'][rec['finding']] <= 3:
                    viol.append(rec)
            else:
                nunk = len([v for v in viol if 'finding' not in v])
                if nunk < 3:
                    small = shrink_violation(sc, vs)
                    if small is not sc:
                        ex2, vs2 = evaluate(small)
                        if vs2:
                            rec = violation_record(small, ex2, vs2)
                if nunk < 25:
                    viol.append(rec)
        ex['_items'] = model_items(ex)
        mcases += [it['mc'] for it in ex['_items']]
    if use_model and ctx.driver_path and mcases:
        replies = ctx.run_model(mcases)
        k = 0
        for sc_i, (sc, ex) in enumerate(execs):
            bad = None
            for it in ex['_items']:
                mo = replies[k]; k += 1
                c = it['cmp'](mo)
                if c == 'unmodelled':
                    vfutil.bump(dist['results'], 'model: unmodelled path')
                    continue
                if c and not bad:
                    bad = {'case': sc, 'impl': it['impl'], 'model': (model_view(mo) if 'results' in mo else mo), 'why': c}
            if bad:
                if len(mism) < 20:
                    mism.append(bad)
            else:
                agree += 1
    return {'mism': mism, 'viol': viol, 'agree': agree, 'evals': evals, 'nontriv': len(nontriv), 'execs': execs}


def new_dist():
    return {'kinds': {}, 'ops_per_request': {}, 'results': {}, 'alg': {}, 'ip': {}, 'known_findings': {}, 'requests_per_history': {}, 'calls_on_one_request': {}}


def exhaustive_edits(rng, budget):
    """all single-character substitutions/insertions/deletions (over a small alphabet) of the digest tail, the
    timestamp field and the head of the userid of three issued tickets"""
    out = []
    bases = [
        ({'secret': 'secret', 'alg': 'md5', 'include_ip': False}, 5, ['a'], 0x1f),
        ({'secret': 's3cr3t!', 'alg': 'sha1', 'include_ip': True}, 'bob', [], 1759276800),
        ({'secret': 'k' * 64, 'alg': 'sha256', 'include_ip': False}, b'\xff\x00', ['x', 'y'], 255),
    ]
    alphabet = ['0', 'f', 'F', 'x', '_', '+', '-', ' ', '!', '%', '"', 'é', '٣', ' ']
    for over, uid, toks, t0 in bases:
        cfg = {'secret': 'secret', 'name': 'auth_tkt', 'secure': False, 'include_ip': False, 'timeout': None, 'reissue': None,
               'max_age': None, 'http_only': False, 'path': '/', 'wild': True, 'parent': False, 'alg': 'md5', 'domain': None,
               'samesite': 'Lax'}
        cfg.update(over)
        dsz = ALGS[cfg['alg']] * 2
        issue = {'cfg': cfg, 'ip': '1.2.3.4', 'host': 'example.com', 'clock': t0, 'uid': uid_to_json(uid), 'tokens': toks, 'max_age': None}
        for pos in range(dsz - 2, dsz + 12):
            edits = [['del', pos]] + [[k, pos, ch] for k in ('sub', 'ins') for ch in alphabet]
            for e in edits:
                out.append({'kind': 'exhaustive-edit', 'issues': [issue], 'cookie': {'base': 0, 'edits': [e], 'quote': 'webob'},
                            'cfg': cfg, 'ip': '1.2.3.4', 'host': 'example.com', 'now': t0, 'clock': t0, 'ops': [{'op': 'identify'}]})
    if len(out) > budget:
        rng.shuffle(out)
        out = out[:budget]
    return out


def run(ctx):
    rng = ctx.rng
    dist = new_dist()
    scenarios = [c for _, c in ctx.corpus()]
    ncorpus = len(scenarios)
    n = ctx.n(6000, 120000)
    scenarios += [gen_scenario(rng) for _ in range(n)]
    ex_edits = exhaustive_edits(rng, ctx.n(600, 100000))
    scenarios += ex_edits
    hist = small_scope_histories()
    if ctx.tier == 'quick':
        rng.shuffle(hist)
        hist = hist[:450]
    scenarios += hist
    tks = small_scope_tickets()
    scenarios += tks
    als = small_scope_aliases()
    scenarios += als
    smr = small_scope_samereq()
    if ctx.tier == 'quick':
        rng.shuffle(smr)
        smr = smr[:400]
    scenarios += smr
    res = {'evals': 0, 'agree': 0, 'mism': [], 'viol': [], 'keys': set()}
    nontriv_total = 0
    CH = 4000
    for i in range(0, len(scenarios), CH):
        if ctx.time_left() < 120:
            ctx.notes.append('time budget reached after %d scenarios' % i)
            break
        part = process(ctx, scenarios[i:i + CH], dist)
        res['evals'] += part['evals']; res['agree'] += part['agree']
        res['mism'] += part['mism'][:max(0, 20 - len(res['mism']))]
        known_seen = {v.get('finding') for v in res['viol'] if v.get('finding')}
        for v in part['viol']:
            if v.get('finding'):
                if v['finding'] not in known_seen or len([w for w in res['viol'] if w.get('finding') == v['finding']]) < 2:
                    res['viol'].append(v)
            elif len([w for w in res['viol'] if 'finding' not in w]) < 25:
                res['viol'].append(v)
        nontriv_total += part['nontriv']
    res['nontriv'] = nontriv_total
    return {'evaluations': res['evals'], 'distinct_nontrivial': res['nontriv'], 'rule': RULE + ' (distinctness is measured per block of 4000 scenarios and summed)', 'agreeing': res['agree'],
            'samples': scenarios[ncorpus:ncorpus + 3] + scenarios[ncorpus + n - 2:ncorpus + n],
            'mismatches': res['mism'], 'violations': res['viol'], 'distribution': dist,
            'exhaustive': False,
            'notes': ['%d corpus scenarios, %d generated, %d single-character edits of three issued tickets (%s)' % (
                ncorpus, n, len(ex_edits), 'all' if ctx.tier == 'thorough' else 'a sample'),
                'every request of a scenario (issuing ones too) is one driver line; first-hash inputs are compared byte for byte',
                '%d small-scope histories (all sequences of <= 3 requests over %d request kinds x 7 configurations (3 with address-alias pairs) on ONE long-lived helper; %s) plus the random multi-request histories: every request must get the answer of a fresh helper' % (len(hist), len(REQ_KINDS), 'all' if ctx.tier == 'thorough' else 'a sample'),
                '%d ticket-level small-scope cases (20 awkward raw userids x 6 token lists x 6 user data texts: AuthTicket.cookie_value -> parse_ticket must return exactly what was signed) plus the random ticket-level / raw-id-helper streams' % len(tks),
                '%d address-alias cases (every pair of distinct spellings of one host x both directions x 2 algorithms: the ticket issued for A must verify from A and not from B unless both are dotted with equal octet values)' % len(als),
                '%d same-request histories (all sequences of <= 3 identify() calls on ONE request object over 8 (helper, time) pairs x 2 configurations; %s) plus the random ones: every call must answer what a fresh request gets from a fresh helper of that configuration at that time' % (len(smr), 'all' if ctx.tier == 'thorough' else 'a sample')],
            'assumptions': ['hash functions are uninterpreted in the model: hashlib answers through a recorded table',
                            'the Unicode database (whitespace / decimal digit of non-ASCII characters) is a table from unicodedata',
                            'WebOb parses the Cookie header and serialises Set-Cookie: exercised, not modelled',
                            'client addresses are well-formed IPv4/IPv6 text; other REMOTE_ADDR values are run for correspondence only'],
            'trusted_base': ['modelled, not verified: int(str, base), %08x, str(int), urllib.parse.quote/unquote, UTF-8/latin-1 codecs, '
                             'base64/binascii, str.split/strip — tied to CPython by the correspondence run only',
                             'hashlib (uninterpreted; unforgeability is the named hypothesis MacSecure of the theorems that need it)',
                             'WebOb cookie parsing/serialisation and Request/Response']}


def search(ctx):
    """deeper search for a failing input on the implementation only (no model): all single-character edits of three
    tickets, every timestamp spelling, every boundary clock, then the seeded stream at larger volume"""
    rng = ctx.rng
    dist = new_dist()
    scs = [c for _, c in ctx.corpus()]
    scs += small_scope_samereq()
    scs += small_scope_aliases()
    scs += small_scope_tickets()
    scs += small_scope_histories()
    scs += exhaustive_edits(rng, 100000)
    base_cfg = {'secret': 'secret', 'name': 'auth_tkt', 'secure': False, 'include_ip': False, 'timeout': None, 'reissue': None,
                'max_age': None, 'http_only': False, 'path': '/', 'wild': True, 'parent': False, 'alg': 'md5', 'domain': None, 'samesite': 'Lax'}
    for timeout in (None, 0, 1, 10):
        for reissue in (None, 0, 1, 5):
            for d in range(0, 13):
                for ops in ([{'op': 'identify'}], [{'op': 'identify'}, {'op': 'identify'}],
                            [{'op': 'identify'}, {'op': 'forget'}], [{'op': 'forget'}, {'op': 'identify'}],
                            [{'op': 'identify'}, {'op': 'remember', 'uid': {'t': 'int', 'v': '9'}, 'max_age': None, 'tokens': []}]):
                    cfg = dict(base_cfg, timeout=timeout, reissue=reissue)
                    iss = {'cfg': cfg, 'ip': '1.2.3.4', 'host': 'example.com', 'clock': 1000, 'uid': {'t': 'str', 'v': 'bob'}, 'tokens': ['a'], 'max_age': None}
                    scs.append({'kind': 'search-boundary', 'issues': [iss], 'cookie': {'base': 0, 'edits': [], 'quote': 'webob'}, 'cfg': cfg,
                                'ip': '1.2.3.4', 'host': 'example.com', 'now': 1000 + d, 'clock': 1000 + d, 'ops': ops})
    n = 0
    viol = []
    chunk = 2000
    i = 0
    total = ctx.n(20000, 60000)
    while ctx.time_left() > 60 and len(viol) < 3 and n < total + len(scs):
        part = scs[i:i + chunk] if i < len(scs) else [gen_scenario(rng) for _ in range(chunk)]
        i += chunk
        res = process(ctx, part, dist, use_model=False)
        n += res['evals']
        viol += [v for v in res['viol'] if 'finding' not in v]
    return {'violations': viol, 'searched': n, 'exhaustive': False}


def replay(ctx, rep):
    sc = rep.get('case')
    if sc is None:
        return {'violates': False, 'note': 'replay names broken obligations only', 'broken': rep.get('broken_obligations')}
    ex, vs = evaluate(sc)
    models = None
    mism = None
    if ctx.driver_path:
        items = model_items(ex)
        replies = ctx.run_model([it['mc'] for it in items]) if items else []
        models = [(model_view(m) if 'results' in m else m) for m in replies]
        for it, mo in zip(items, replies):
            c = it['cmp'](mo)
            if c and c != 'unmodelled':
                mism = c
    fin = ex['final']
    return {'case': sc, 'cookie_header': ex['header'], 'cookie_seen': fin.get('seen'), 'impl': (impl_view(fin) if 'st' in fin else ex.get('ticket_out')), 'model': models,
            'spec': [{'detail': d, 'finding': f} for d, f in vs], 'mismatch': mism,
            'violates': any(f is None for _, f in vs), 'known_finding': sorted({f for _, f in vs if f})}
