"""C11 — correspondence of lean/PyramidModel/Acl.lean with pyramid.authorization.ACLHelper, and the
property itself evaluated on the implementation (first match wins over the lineage, default deny,
reported principals are granted)."""
import gc, itertools, json

from pyramid.authorization import (ACLHelper, ACLAuthorizationPolicy, Allow, Deny, Everyone,
                                   Authenticated, ALL_PERMISSIONS)
import pyramid.security as _psec
from pyramid.location import lineage as real_lineage, inside as real_inside

# the same abstract ACE can be written with different Python objects; the decision must not depend on which:
# the all-permissions marker exported by pyramid.authorization or the (deprecated, still exported) one of
# pyramid.security (an instance of a different class); a permission collection as list, tuple, set or frozenset
ALL_MARKERS = [ALL_PERMISSIONS, getattr(_psec, 'ALL_PERMISSIONS', ALL_PERMISSIONS)]
COLLS = [list, tuple, set, frozenset]


def realise_perm(p, variant, salt):
    h = (variant * 2654435761 + salt * 40503) & 0xffffffff
    if p == 'all':
        return ALL_MARKERS[(h >> 3) % len(ALL_MARKERS)] if variant else ALL_PERMISSIONS
    if isinstance(p, list):
        names = [PERMS[x] for x in p]
        return COLLS[(h >> 5) % len(COLLS)](names) if variant else names
    return PERMS[p]

PRINC = [Everyone, 'alice', 'bob', 'group:editors', Authenticated]   # index = model name; 0 = Everyone
# index = model name.  3 and 4 are SUBSTRING TRAPS: 'edit' is a substring of 'edit_all' and 'vie' of 'view', so a str
# permission field tested with `in` (instead of being compared whole) would match the wrong request
PERMS = ['view', 'edit', 'delete', 'edit_all', 'vie']
NPERM = len(PERMS)


def pick_perm(rng):
    return rng.choice([0, 0, 0, 1, 1, 1, 2, 2, 3, 4])
ACTIONS = [Allow, Deny, 'Maybe']                                        # 2 = neither Allow nor Deny

RULE = ('permission fields also written as tuple/list/set/frozenset/generator/map/iter/filter (fresh per query) incl. substring-trap names; ACLs also written in other containers (tuple, callable returning list/tuple, generator function, custom iterable, generator object) and principals as list/tuple/set/frozenset; lineages of 1..8 locations (deciding ACE placed at every depth), each realised BOTH with plain attribute parents and with LAZY parents (a __parent__ property building a fresh wrapper on every access, nothing else keeping it alive), each without __acl__ / with a static ACL / with a callable ACL of 0..6 '
        'ACEs over {Allow,Deny}x5 principals x {single name, list, ALL_PERMISSIONS}; every case asks permits() '
        'for one principal subset and one permission and principals_allowed_by_permission(); a case is '
        'non-trivial when at least two ACEs of the lineage hit (order decides) or the deciding ACE is not in '
        'the context\'s own ACL; distinct = distinct canonical case JSON')


class Node:
    pass


# the same ACL can be handed to pyramid in different CONTAINERS; the decision must not depend on which.  All of these are
# accepted by the unchanged code (probed): `__acl__` is read once per location and iterated once per query.
#   genobject = a generator OBJECT stored directly as `__acl__`: one-shot, so the nodes are rebuilt for every query
ACL_KINDS = ['list', 'tuple', 'callable_list', 'callable_tuple', 'genfunc', 'iterable_class', 'genobject']


class FreshIterable:
    """a custom iterable: every `__iter__` returns a fresh iterator over the ACEs (no __len__, no __getitem__)"""

    def __init__(self, aces):
        self._aces = aces

    def __iter__(self):
        return iter(list(self._aces))


def wrap_acl(aces, kind):
    if kind == 'list':
        return list(aces)
    if kind == 'tuple':
        return tuple(aces)
    if kind == 'callable_list':
        return lambda: list(aces)
    if kind == 'callable_tuple':
        return lambda: tuple(aces)
    if kind == 'genfunc':
        def acl_generator():          # a callable __acl__ written as a generator function: fresh generator per call
            for ace in aces:
                yield ace
        return acl_generator
    if kind == 'iterable_class':
        return FreshIterable(aces)
    if kind == 'genobject':
        return (ace for ace in aces)
    raise ValueError(kind)


def acl_kind(containers, k):
    """containers: ('uniform', kind) | ('mixed', n): the container kind of location k"""
    if containers[0] == 'uniform':
        return containers[1]
    h = (containers[1] * 2654435761 + k * 40503 + 12345) & 0xffffffff
    return ACL_KINDS[(h >> 7) % len(ACL_KINDS)]


def build(case, callable_mask=0, variant=0, containers=None):
    """real location-aware objects for a case; lineage[0] is the context"""
    nodes = []
    parent = None
    for k, acl in reversed(list(enumerate(case['lineage']))):
        n = Node()
        n.__parent__ = parent
        n.__name__ = 'n%d' % k
        if acl is not None:
            aces = [(ACTIONS[a], PRINC[w], realise_perm(p, variant, 31 * k + j))
                    for j, (a, w, p) in enumerate(acl)]
            if containers is not None:
                n.__acl__ = wrap_acl(aces, acl_kind(containers, k))
            elif (callable_mask >> k) & 1:
                n.__acl__ = (lambda aces=aces: aces)
            else:
                n.__acl__ = aces
            n._aces = aces
        parent = n
        nodes.append(n)
    nodes.reverse()
    return nodes


def build_lazy(case, callable_mask=0, variant=0):
    """the same lineage with parents COMPUTED ON DEMAND, as ORM-backed resource trees do: `__parent__` is a property that
    constructs a new wrapper object for the parent on every access; nothing else refers to it, so an ancestor lives only
    as long as whoever walks the lineage holds it.  (The ACE lists are prebuilt and shared; only the resource objects
    are fresh.)  Returns the context wrapper; every wrapper knows its depth `_k`."""
    table = []
    for k, acl in enumerate(case['lineage']):
        if acl is None:
            table.append(None)
        else:
            table.append([(ACTIONS[a], PRINC[w], realise_perm(p, variant, 31 * k + j)) for j, (a, w, p) in enumerate(acl)])
    depth = len(table)

    class Lazy:
        __slots__ = ('_k',)

        def __init__(self, k):
            self._k = k

        @property
        def __name__(self):
            return 'n%d' % self._k

        @property
        def __parent__(self):
            return Lazy(self._k + 1) if self._k + 1 < depth else None

        @property
        def _aces(self):
            return table[self._k]

        @property
        def __acl__(self):
            aces = table[self._k]
            if aces is None:
                raise AttributeError('__acl__')
            if (callable_mask >> self._k) & 1:
                return lambda: aces
            return aces
    return Lazy(0)


def location_check(depth):
    """pyramid.location.lineage / inside on chains of `depth` locations, both realisations: the lineage lists every
    ancestor exactly once, context first, whether it is consumed lazily (nobody keeps the ancestors) or into a list;
    `inside` follows the same chain.  A genuinely CYCLIC __parent__ chain is outside the domain (never generated)."""
    case = {'lineage': [None] * depth, 'princs': [], 'perm': 0}
    want = list(range(depth))
    problems = []
    nodes = build(case)
    got = [nodes.index(x) for x in real_lineage(nodes[0])]
    if got != want:
        problems.append('lineage of an attribute chain of %d: %s' % (depth, got))
    for i in range(depth):
        for j in range(depth):
            if bool(real_inside(nodes[i], nodes[j])) != (j >= i):
                problems.append('inside(n%d, n%d) = %s' % (i, j, real_inside(nodes[i], nodes[j])))
    lazy_walk = []
    for loc in real_lineage(build_lazy(case)):          # consumed lazily: only `loc` and the generator hold a wrapper
        lazy_walk.append(loc._k)
    if lazy_walk != want:
        problems.append('lineage of a lazily built chain of %d, consumed lazily: %s' % (depth, lazy_walk))
    eager = [loc._k for loc in list(real_lineage(build_lazy(case)))]
    if eager != want:
        problems.append('lineage of a lazily built chain of %d, consumed into a list: %s' % (depth, eager))
    ctx = build_lazy(case)
    if not real_inside(ctx, ctx) or (depth > 1 and real_inside(ctx, ctx.__parent__)):
        problems.append('inside() on a lazily built chain (identity of fresh wrappers)')
    return problems


def impl(case, callable_mask=0, variant=0, lazy=False):
    if lazy:
        return impl_lazy(case, callable_mask, variant)
    nodes = build(case, callable_mask, variant)
    ctx_obj = nodes[0]
    princs = [PRINC[i] for i in case['princs']]
    perm = PERMS[case['perm']]
    helper = ACLHelper()
    r = helper.permits(ctx_obj, princs, perm)
    at = None
    if not isinstance(r.ace, str):
        k = [i for i, n in enumerate(nodes) if n is r.context][0]
        i = [j for j, ace in enumerate(nodes[k]._aces) if ace is r.ace][0]
        at = [k, i]
    allowed = helper.principals_allowed_by_permission(ctx_obj, perm)
    pol = ACLAuthorizationPolicy()
    r2 = pol.permits(ctx_obj, princs, perm)
    granted = {p: bool(helper.permits(ctx_obj, [p, Everyone], perm)) for p in allowed}
    return {'permits': bool(r), 'at': at, 'allowed': sorted(PRINC.index(p) for p in allowed),
            'policy_agrees': bool(r2) == bool(r), 'allowed_granted': all(granted.values()),
            'type_ok': type(r).__name__ == ('ACLAllowed' if r else 'ACLDenied')}


def impl_lazy(case, callable_mask=0, variant=0):
    princs = [PRINC[i] for i in case['princs']]
    perm = PERMS[case['perm']]
    helper = ACLHelper()
    r = helper.permits(build_lazy(case, callable_mask, variant), princs, perm)
    at = None
    if not isinstance(r.ace, str):
        k = r.context._k
        i = [j for j, ace in enumerate(r.context._aces) if ace is r.ace][0]
        at = [k, i]
    allowed = helper.principals_allowed_by_permission(build_lazy(case, callable_mask, variant), perm)
    r2 = ACLAuthorizationPolicy().permits(build_lazy(case, callable_mask, variant), princs, perm)
    granted = {p: bool(helper.permits(build_lazy(case, callable_mask, variant), [p, Everyone], perm)) for p in allowed}
    return {'permits': bool(r), 'at': at, 'allowed': sorted(PRINC.index(p) for p in allowed),
            'policy_agrees': bool(r2) == bool(r), 'allowed_granted': all(granted.values()),
            'type_ok': type(r).__name__ == ('ACLAllowed' if r else 'ACLDenied')}


def impl_containers(case, containers, variant=0):
    """the case with every ACL in another container kind and the principals as list / tuple / set / frozenset; fresh
    nodes for every query (a generator object stored as __acl__ serves one query).  A GENERATOR of principals is outside
    the domain: `ace_principal in principals` consumes it, also in the unchanged code (excluded)."""
    csalt = containers[1] if containers[0] == 'mixed' else ACL_KINDS.index(containers[1])
    pcoll = COLLS[(csalt + len(case['princs'])) % len(COLLS)]
    princs = pcoll(PRINC[i] for i in case['princs'])
    perm = PERMS[case['perm']]
    helper = ACLHelper()
    nodes = build(case, 0, variant, containers)
    r = helper.permits(nodes[0], princs, perm)
    at = None
    if not isinstance(r.ace, str):
        k = [i for i, n in enumerate(nodes) if n is r.context][0]
        i = [j for j, ace in enumerate(nodes[k]._aces) if ace is r.ace][0]
        at = [k, i]
    allowed = helper.principals_allowed_by_permission(build(case, 0, variant, containers)[0], perm)
    r2 = ACLAuthorizationPolicy().permits(build(case, 0, variant, containers)[0], princs, perm)
    granted = {p: bool(helper.permits(build(case, 0, variant, containers)[0], pcoll([p, Everyone]), perm)) for p in allowed}
    return {'permits': bool(r), 'at': at, 'allowed': sorted(PRINC.index(p) for p in allowed),
            'policy_agrees': bool(r2) == bool(r), 'allowed_granted': all(granted.values()),
            'type_ok': type(r).__name__ == ('ACLAllowed' if r else 'ACLDenied')}


CMP_KEYS = ('permits', 'at', 'allowed', 'policy_agrees', 'type_ok', 'allowed_granted')

# the PERMISSION FIELD of an ACE: the same abstract permission set written as a tuple, list, set, frozenset, or as a one-shot
# iterator (generator expression, map(), iter(), filter()) — `is_nonstr_iter` accepts anything with `__iter__`, and
# `permission in <iterator>` works (it consumes the iterator up to the hit).  A single permission stays a str (compared
# whole), ALL_PERMISSIONS stays the marker.  Because a one-shot iterator serves ONE membership test, the ACEs are built
# FRESH for every query by a callable `__acl__` (each ACE is tested at most once per query by permits() and by
# principals_allowed_by_permission()).  Excluded: one iterator object shared by several ACEs or kept across queries —
# the second test sees it exhausted, on the unchanged code as well.
PERM_KINDS = ['tuple', 'list', 'set', 'frozenset', 'generator', 'map', 'iter', 'filter']


def realise_field(pm, kind):
    if pm == 'all':
        return ALL_PERMISSIONS
    if not isinstance(pm, list):
        return PERMS[pm]
    names = [PERMS[x] for x in pm]
    if kind == 'tuple': return tuple(names)
    if kind == 'list': return list(names)
    if kind == 'set': return set(names)
    if kind == 'frozenset': return frozenset(names)
    if kind == 'generator': return (x for x in names)
    if kind == 'map': return map(str, names)
    if kind == 'iter': return iter(names)
    if kind == 'filter': return filter(None, names)
    raise ValueError(kind)


def field_kind(pf, k, j):
    if pf[0] == 'uniform':
        return pf[1]
    h = (pf[1] * 2654435761 + k * 40503 + j * 9176 + 777) & 0xffffffff
    return PERM_KINDS[(h >> 9) % len(PERM_KINDS)]


def build_permfields(case, pf):
    nodes = []
    parent = None
    for k, acl in reversed(list(enumerate(case['lineage']))):
        n = Node()
        n.__parent__ = parent
        n.__name__ = 'n%d' % k
        if acl is not None:
            def fresh(n=n, k=k, acl=acl):
                aces = [(ACTIONS[a], PRINC[w], realise_field(pm, field_kind(pf, k, j))) for j, (a, w, pm) in enumerate(acl)]
                n._aces = aces            # the ACE objects of THIS query (for locating the deciding one by identity)
                return aces
            n.__acl__ = fresh
        parent = n
        nodes.append(n)
    nodes.reverse()
    return nodes


def impl_permfields(case, pf):
    princs = [PRINC[i] for i in case['princs']]
    perm = PERMS[case['perm']]
    helper = ACLHelper()
    nodes = build_permfields(case, pf)
    r = helper.permits(nodes[0], princs, perm)
    at = None
    if not isinstance(r.ace, str):
        k = [i for i, n in enumerate(nodes) if n is r.context][0]
        i = [j for j, ace in enumerate(nodes[k]._aces) if ace is r.ace][0]
        at = [k, i]
    allowed = helper.principals_allowed_by_permission(nodes[0], perm)
    r2 = ACLAuthorizationPolicy().permits(nodes[0], princs, perm)
    granted = {p: bool(helper.permits(nodes[0], [p, Everyone], perm)) for p in allowed}
    return {'permits': bool(r), 'at': at, 'allowed': sorted(PRINC.index(p) for p in allowed),
            'policy_agrees': bool(r2) == bool(r), 'allowed_granted': all(granted.values()),
            'type_ok': type(r).__name__ == ('ACLAllowed' if r else 'ACLDenied')}


def permfield_deviation(case, got, which):
    """the first permission-field realisation (of `which`) that decides differently from `got`, or None"""
    for pf in which:
        try:
            alt = impl_permfields(case, pf)
        except Exception as e:
            alt = {'permits': None, 'at': None, 'allowed': None, 'policy_agrees': False, 'type_ok': False,
                   'allowed_granted': False, 'raised': '%s: %s' % (type(e).__name__, str(e)[:120])}
        if any(alt[k] != got[k] for k in CMP_KEYS):
            alt['realisation'] = 'permission fields written as %s (fresh ACEs per query through a callable __acl__)' % (
                pf[1] if pf[0] == 'uniform' else 'a mix of %s' % PERM_KINDS)
            return alt
    return None


def container_deviation(case, got, which):
    """the first container realisation (of `which`) that decides differently from `got`, or None"""
    for containers in which:
        try:
            alt = impl_containers(case, containers)
        except Exception as e:
            alt = {'permits': None, 'at': None, 'allowed': None, 'policy_agrees': False, 'type_ok': False,
                   'allowed_granted': False, 'raised': '%s: %s' % (type(e).__name__, str(e)[:120])}
        if any(alt[k] != got[k] for k in CMP_KEYS):
            alt['realisation'] = ('ACL containers %s, principals as %s' % (
                containers[1] if containers[0] == 'uniform' else [acl_kind(containers, k) for k in range(len(case['lineage']))],
                COLLS[((containers[1] if containers[0] == 'mixed' else ACL_KINDS.index(containers[1])) + len(case['princs'])) % len(COLLS)].__name__))
            return alt
    return None


def spec(case):
    """the property, stated directly on the case: first hit in scanning order"""
    for acl in case['lineage']:
        for a, w, p in (acl or []):
            if w in case['princs'] and (p == 'all' or (case['perm'] in p if isinstance(p, list) else case['perm'] == p)):
                return a == 0
    return False


def wf(case):
    return all(a in (0, 1) for acl in case['lineage'] for a, _, _ in (acl or []))


def hits(case):
    out = []
    for k, acl in enumerate(case['lineage']):
        for i, (a, w, p) in enumerate(acl or []):
            if w in case['princs'] and (p == 'all' or (case['perm'] in p if isinstance(p, list) else case['perm'] == p)):
                out.append((k, i))
    return out


def gen_case(rng, allow_other=False):
    depth = rng.choice([1, 1, 2, 2, 3, 3, 4, 5, 6, 7, 8])
    lineage = []
    for _ in range(depth):
        r = rng.random()
        if r < 0.2:
            lineage.append(None)
        else:
            n = rng.choice([0, 1, 1, 2, 2, 3, 4, 6])
            acl = []
            for _ in range(n):
                a = rng.choice([0, 0, 1, 1, 1]) if not (allow_other and rng.random() < 0.15) else 2
                w = rng.choice([0, 1, 1, 2, 2, 3, 4])
                pk = rng.random()
                if pk < 0.45:
                    p = pick_perm(rng)
                elif pk < 0.8:
                    p = [pick_perm(rng) for _ in range(rng.choice([0, 1, 2, 3]))]
                else:
                    p = 'all'
                acl.append([a, w, p])
            lineage.append(acl)
    princs = [i for i in range(5) if rng.random() < 0.5]
    rng.shuffle(princs)
    return {'lineage': lineage, 'princs': princs, 'perm': pick_perm(rng)}


def gen_deep_case(rng):
    """lineage of 1..8 locations with the DECIDING ACE at a chosen depth: every location nearer to the context has no
    ACL, an empty one, or ACEs that do not match the asked principals/permission"""
    depth = rng.randint(1, 8)
    at = rng.randrange(depth)
    perm = pick_perm(rng)
    princs = sorted(rng.sample(range(5), rng.randint(1, 3)))
    others = [w for w in range(5) if w not in princs]
    operm = [p for p in range(NPERM) if p != perm]
    lineage = []
    for k in range(depth):
        if k < at:
            r = rng.random()
            if r < 0.4:
                lineage.append(None)
            elif r < 0.55:
                lineage.append([])
            else:
                acl = []
                for _ in range(rng.randint(1, 3)):
                    if others and rng.random() < 0.5:
                        acl.append([rng.choice([0, 1]), rng.choice(others), rng.choice([perm, 'all', [perm]])])
                    else:
                        acl.append([rng.choice([0, 1]), rng.choice(range(5)), rng.choice([rng.choice(operm), [rng.choice(operm)], []])])
                lineage.append(acl)
        elif k == at:
            hit = [rng.choice([0, 0, 1]), rng.choice(princs), rng.choice([perm, 'all', [perm, rng.choice(operm)]])]
            lineage.append([hit] + ([[rng.choice([0, 1]), rng.choice(range(5)), pick_perm(rng)]] if rng.random() < 0.4 else []))
        else:
            lineage.append(gen_case(rng)['lineage'][0])
    return {'lineage': lineage, 'princs': princs, 'perm': perm}


def check_case(case, model_out, mask):
    """returns (mismatch|None, violation|None)"""
    got = impl(case, mask)
    mism = viol = None
    exp = spec(case)
    # the same case written with other Python objects (other all-permissions marker, other collection types)
    alt = impl(case, mask, variant=1 + (mask * 7 + len(json.dumps(case))) % 97)
    if any(alt[k] != got[k] for k in ('permits', 'at', 'allowed', 'policy_agrees', 'type_ok', 'allowed_granted')):
        got = alt          # report the deviating realisation; the spec/model comparison below then flags it
        got['realisation'] = 'variant (pyramid.security marker / tuple-set-frozenset permission collections)'
    else:
        # the same lineage with parents computed on demand (fresh wrapper per access, ancestors not kept alive)
        lz = impl(case, mask, lazy=True)
        if any(lz[k] != got[k] for k in ('permits', 'at', 'allowed', 'policy_agrees', 'type_ok', 'allowed_granted')):
            got = lz
            got['realisation'] = 'lazy parents (__parent__ property building a fresh wrapper on every access)'
        else:
            # the same ACLs in other containers (one kind for all locations, and a mix), principals in other collections
            salt = mask * 7 + len(json.dumps(case))
            dev = container_deviation(case, got, [('uniform', ACL_KINDS[salt % len(ACL_KINDS)]), ('mixed', salt)])
            if dev is None:
                dev = permfield_deviation(case, got, [('uniform', PERM_KINDS[salt % len(PERM_KINDS)]), ('mixed', salt)])
            if dev is not None:
                got = dev
    if got['permits'] != exp or not got['policy_agrees'] or not got['type_ok']:
        viol = {'case': case, 'impl': got, 'expected': {'permits': exp}, 'detail': 'permits() is not the decision of the first matching ACE'}
    elif wf(case) and not got['allowed_granted']:
        viol = {'case': case, 'impl': got, 'expected': 'every reported principal is granted with Everyone',
                'detail': 'principals_allowed_by_permission reports a principal that permits() refuses'}
    if model_out is not None:
        keys = ('permits', 'at', 'allowed')
        if any(got[k] != model_out.get(k) for k in keys) or model_out.get('spec') != model_out.get('permits'):
            mism = {'case': case, 'impl': {k: got[k] for k in keys}, 'model': model_out}
    return mism, viol


def run(ctx):
    rng = ctx.rng
    n = ctx.n(6000, 200000)
    cases = [c for _, c in ctx.corpus()]
    ncorpus = len(cases)
    cases += [gen_case(rng, allow_other=(i % 10 == 9)) for i in range(n)]
    cases += [gen_deep_case(rng) for _ in range(ctx.n(2500, 60000))]
    masks = [rng.randrange(32) if rng.random() < 0.3 else 0 for _ in cases]
    model = ctx.run_model(cases) if ctx.driver_path else [None] * len(cases)
    mism, viol, agree = [], [], 0
    seen, nontriv = set(), set()
    dist = {'depth': {}, 'hits': {}, 'decided_by': {'allow': 0, 'deny': 0, 'default': 0, 'other': 0}, 'callable_acl_cases': 0,
            'outside_domain_cases': 0, 'allowed_set_sizes': {}}
    dist['decided_at_depth'] = {}
    # pyramid.location.lineage / inside themselves, both realisations, every depth 1..8
    for depth in range(1, 9):
        probs = location_check(depth)
        if probs:
            viol.append({'case': {'lineage': [None] * depth, 'princs': [], 'perm': 0, 'stream': 'location'}, 'impl': probs,
                         'expected': 'every ancestor once, context first', 'detail': 'pyramid.location: ' + probs[0]})
    for ci, (case, mo, mask) in enumerate(zip(cases, model, masks)):
        if ci % 2000 == 1999:
            gc.collect()
        m, v = check_case(case, mo, mask)
        if m: mism.append(m)
        elif mo is not None: agree += 1
        if v: viol.append(v)
        key = json.dumps(case, sort_keys=True)
        h = hits(case)
        d = dist['depth']; d[len(case['lineage'])] = d.get(len(case['lineage']), 0) + 1
        hk = min(len(h), 4); dist['hits'][hk] = dist['hits'].get(hk, 0) + 1
        if mask: dist['callable_acl_cases'] += 1
        if not wf(case): dist['outside_domain_cases'] += 1
        if h:
            dist['decided_at_depth'][h[0][0]] = dist['decided_at_depth'].get(h[0][0], 0) + 1
            a = case['lineage'][h[0][0]][h[0][1]][0]
            dist['decided_by'][['allow', 'deny', 'other'][a]] += 1
        else:
            dist['decided_by']['default'] += 1
        if mo is not None:
            s = len(mo.get('allowed', [])); dist['allowed_set_sizes'][s] = dist['allowed_set_sizes'].get(s, 0) + 1
        if key not in seen:
            seen.add(key)
            if len(h) >= 2 or (h and h[0][0] > 0):
                nontriv.add(key)
    # the excluded point of allowed_sound (Props.C11.allowed_sound_needs_wf), replayed on the real code
    excl = {'lineage': [[[2, 1, 0], [0, 1, 0]]], 'princs': [1, 0], 'perm': 0}
    g = impl(excl)
    notes = ['excluded point (ACE action neither Allow nor Deny): impl allowed=%s granted=%s (outside the property domain)' % (g['allowed'], g['allowed_granted'])]
    return {'evaluations': len(cases), 'distinct_nontrivial': len(nontriv), 'rule': RULE, 'agreeing': agree,
            'samples': cases[ncorpus:ncorpus + 3] + cases[-2:], 'mismatches': mism, 'violations': viol,
            'distribution': dist, 'notes': notes,
            'assumptions': ['principals/permissions are compared by ==/hash as Python does; the model uses abstract names',
                            'pyramid `lineage()` yields the __parent__ chain: exercised with attribute parents AND with parents built on demand (a small stream checks lineage/inside directly); a genuinely cyclic __parent__ chain is outside the domain']}


def search(ctx):
    """bounded exhaustive search for an input on which the implementation violates the property
    (used only after a proof/correspondence break): lineage <= 2, ACL <= 2, 2 principals, 2 permissions"""
    aces = [[a, w, p] for a in (0, 1) for w in (0, 1) for p in (0, 1, [0, 1], 'all')]
    acls = [None, []] + [[x] for x in aces] + [[x, y] for x in aces for y in aces]
    viol, n = [], 0
    # every container kind, uniformly, on every lineage of <= 2 locations with ACLs of <= 2 ACEs over 2 principals
    small_aces = [[a, w, p] for a in (0, 1) for w in (0, 1) for p in (0, [0, 1])]
    small_acls = [None, []] + [[x] for x in small_aces] + [[x, y] for x in small_aces for y in small_aces]
    for lineage in itertools.chain(([a] for a in small_acls), ([a, b] for a in small_acls[:18] for b in small_acls[:18])):
        for princs in ([1], [1, 0]):
            case = {'lineage': lineage, 'princs': princs, 'perm': 0}
            n += 1
            base = impl(case)
            dev = container_deviation(case, base, [('uniform', kd) for kd in ACL_KINDS])
            if dev is not None or base['permits'] != spec(case):
                _, v = check_case(case, None, 0)
                viol.append(v or {'case': case, 'impl': dev, 'expected': {'permits': spec(case)},
                                  'detail': 'the decision depends on the container the ACL is written in'})
                if len(viol) >= 3:
                    return {'violations': viol, 'searched': n, 'exhaustive': False}
    # every permission-field kind, uniformly, on single ACLs of <= 2 ACEs whose permission field is a collection (incl. the
    # substring traps 'edit_all' / 'vie'), for every requested permission
    colls = [[0], [1], [0, 1], [3], [1, 3], [4], [0, 4], []]
    f_aces = [[a, 1, pm] for a in (0, 1) for pm in colls + [1, 3, 0, 4]]
    for acl in [[x] for x in f_aces] + [[x, y] for x in f_aces for y in f_aces]:
        for perm in range(NPERM):
            case = {'lineage': [acl], 'princs': [1], 'perm': perm}
            n += 1
            base = impl(case)
            dev = permfield_deviation(case, base, [('uniform', kd) for kd in PERM_KINDS])
            if dev is not None or base['permits'] != spec(case):
                _, v = check_case(case, None, 0)
                viol.append(v or {'case': case, 'impl': dev, 'expected': {'permits': spec(case)},
                                  'detail': 'the decision depends on how the permission field of an ACE is written'})
                if len(viol) >= 3:
                    return {'violations': viol, 'searched': n, 'exhaustive': False}
        if ctx.time_left() < 60:
            break
    # one deciding ACE (Allow / Deny) at every depth of lineages of 1..8 locations, the locations before it without ACL or
    # with an empty / non-matching one; both realisations are compared inside check_case
    for depth in range(1, 9):
        for probs in [location_check(depth)]:
            if probs:
                viol.append({'case': {'lineage': [None] * depth, 'princs': [], 'perm': 0, 'stream': 'location'}, 'impl': probs,
                             'expected': 'every ancestor once, context first', 'detail': 'pyramid.location: ' + probs[0]})
        for at in range(depth):
            for filler in (None, [], [[0, 2, 0]]):
                for act in (0, 1):
                    case = {'lineage': [filler] * at + [[[act, 1, 0]]] + [None] * (depth - at - 1), 'princs': [1], 'perm': 0}
                    n += 1
                    _, v = check_case(case, None, 0)
                    if v:
                        viol.append(v)
                        if len(viol) >= 3:
                            return {'violations': viol, 'searched': n, 'exhaustive': False}
    for lineage in itertools.chain(([a] for a in acls), ([a, b] for a in acls for b in acls)):
        for princs in ([], [1], [0], [1, 0]):
            case = {'lineage': lineage, 'princs': princs, 'perm': 0}
            n += 1
            _, v = check_case(case, None, 0)
            if v:
                viol.append(v)
                if len(viol) >= 3:
                    return {'violations': viol, 'searched': n, 'exhaustive': False}
        if ctx.time_left() < 30:
            return {'violations': viol, 'searched': n, 'exhaustive': False}
    return {'violations': viol, 'searched': n, 'exhaustive': True}


def replay(ctx, rep):
    case = rep.get('case')
    if case is None:
        return {'violates': False, 'note': 'replay names broken obligations only', 'broken': rep.get('broken_obligations')}
    if case.get('stream') == 'location':
        probs = location_check(len(case['lineage']))
        return {'case': case, 'impl': probs, 'violates': bool(probs)}
    mo = ctx.run_model([case])[0] if ctx.driver_path else None
    m, v = check_case(case, mo, 0)
    got = impl(case)
    dev = container_deviation(case, got, [('uniform', kd) for kd in ACL_KINDS] + [('mixed', i) for i in range(20)])
    if dev is not None:
        v = v or {'case': case, 'impl': dev, 'expected': {'permits': spec(case)},
                  'detail': 'the decision depends on the container the ACL is written in'}
        return {'case': case, 'impl': dev, 'impl_list_acls': got, 'model': mo, 'spec': {'permits': spec(case)},
                'mismatch': m, 'violation': v, 'violates': True}
    dev = permfield_deviation(case, got, [('uniform', kd) for kd in PERM_KINDS] + [('mixed', i) for i in range(20)])
    if dev is not None:
        v = v or {'case': case, 'impl': dev, 'expected': {'permits': spec(case)},
                  'detail': 'the decision depends on how the permission field of an ACE is written'}
        return {'case': case, 'impl': dev, 'impl_list_fields': got, 'model': mo, 'spec': {'permits': spec(case)},
                'mismatch': m, 'violation': v, 'violates': True}
    lz = impl(case, lazy=True)
    if any(lz[k] != got[k] for k in ('permits', 'at', 'allowed', 'allowed_granted')):
        return {'case': case, 'impl': dict(lz, realisation='lazy parents'), 'impl_attribute_parents': got, 'model': mo,
                'spec': {'permits': spec(case)}, 'mismatch': m, 'violates': bool(v)}
    for variant in range(1, 98):          # the same case written with other Python objects must decide the same
        alt = impl(case, 0, variant)
        if any(alt[k] != got[k] for k in ('permits', 'at', 'allowed', 'allowed_granted')):
            got = dict(alt, realisation='variant %d (pyramid.security marker / other collection types)' % variant)
            break
    return {'case': case, 'impl': got, 'model': mo, 'spec': {'permits': spec(case)}, 'mismatch': m, 'violates': bool(v)}
