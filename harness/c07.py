"""C07 — resource paths and URLs resolve back to the resource they were generated for.

Correspondence of lean/PyramidModel/ResourceUrl.lean (on top of Traversal.lean) with pyramid.traversal
(resource_path, resource_path_tuple, find_resource, traverse, ResourceURL, virtual_root), pyramid.url
(Request.resource_url / resource_path) and pyramid.location.lineage, run in-process; the generated URL's path is fed
back through Router.__call__ from a PATH_INFO built the way a WSGI server builds it.  Plus the property itself,
evaluated on the implementation by a Python oracle that does not need Lean.

Case shapes (JSON; names are str, WSGI strings are str with all characters < 256, i.e. raw bytes):
  {"mode":"res","tree":T,"pos":[name…],"anc":k,"vroot":wsgi|null,"els":[str…],"host":str|null,"script":str,"rootname":null|""}
        every observable of the resource at position `pos` (relative lookups start from the ancestor pos[:k])
  {"mode":"find","tree":T,"start":[name…],"names":[name…],"abs":bool,"form":"str"|"tuple"}
        find_resource(start, path) for a path built from `names` (str form: quoted by the harness' own quoter)
  {"mode":"find","tree":T,"start":[name…],"path":str|[str…]}     raw path (correspondence only)
  {"mode":"quote","seg":str}                                      quote_path_segment and decoding it back
  T = {"g":bool,"k":[[name,T],…]}
"""
import io, itertools, json, re

import vfutil
from vfutil import bump

from pyramid import traversal as T
from pyramid.interfaces import VH_ROOT_KEY

RULE = ('a "res" case is non-trivial when the resource is not the root and (one of its names needs percent-quoting, or a '
        'virtual-root header is present, or extra elements are given); a "find" case when it looks up at least one name and '
        '(a name is missing, or needs quoting, or the lookup is relative); a "quote" case when the segment needs quoting; '
        'distinct = distinct canonical case JSON')

RES_FIELDS = ('rpt', 'rp', 'fas', 'fat', 'frs', 'frt', 'phys', 'virt', 'physt', 'virtt', 'url', 'rpath', 'vr', 'back')
BACK_FIELDS = ('context', 'view_name', 'subpath', 'traversed', 'virtual_root', 'virtual_root_path')

# ------------------------------------------------------------------------------------------------
# real objects


class Node(dict):
    """location-aware container"""


class Leaf:
    """location-aware resource without item lookup"""


def build(tree, name=None, parent=None, pos=(), index=None):
    ob = Node() if tree['g'] else Leaf()
    ob.__name__ = name
    ob.__parent__ = parent
    if index is not None:
        index[id(ob)] = list(pos)
    kids = {}
    for n, sub in tree['k']:
        if n in kids:
            continue                      # dict semantics: the model finds the first entry
        c = build(sub, n, ob, pos + (n,), index if tree['g'] else None)
        kids[n] = c
    if tree['g']:
        dict.update(ob, kids)
    return ob


def kid(tree, name):
    for n, sub in tree['k']:
        if n == name:
            return sub
    return None


def resolve(tree, pos):
    """the sub-tree at a position reachable by item lookup, else None"""
    for n in pos:
        if not tree['g']:
            return None
        tree = kid(tree, n)
        if tree is None:
            return None
    return tree


def at(root, pos):
    ob = root
    for n in pos:
        if not isinstance(ob, Node) or n not in ob:
            return None
        ob = dict.__getitem__(ob, n)
    return ob


_APP = {}


def get_app():
    if 'app' in _APP:
        return _APP
    from pyramid.config import Configurator
    from pyramid.response import Response
    from webob import Request as WR
    holder = _APP

    def rec(context, request):
        idx = holder['index']
        holder['seen'] = {
            'context': idx.get(id(request.context)), 'view_name': request.view_name,
            'subpath': list(request.subpath), 'traversed': list(request.traversed),
            'virtual_root': idx.get(id(request.virtual_root)), 'virtual_root_path': list(request.virtual_root_path),
            'root_ok': request.root is holder['root'],
            # the URL the application itself generates for the context it found (same request, same header)
            'self_url': request.resource_url(request.context) if idx.get(id(request.context)) is not None else None}
        return Response('ok')

    cfg = Configurator(root_factory=lambda request: holder['root'])
    cfg.add_view(rec)
    cfg.add_notfound_view(rec)
    holder['app'] = cfg.make_wsgi_app()
    holder['registry'] = cfg.registry
    holder['environ'] = WR.blank('/').environ
    return holder


def err_name(e):
    from pyramid.exceptions import URLDecodeError
    if isinstance(e, URLDecodeError):
        return 'urldecode'
    if isinstance(e, UnicodeDecodeError):
        return 'unicodedecode'
    if isinstance(e, UnicodeEncodeError):
        return 'unicodeencode'
    if isinstance(e, KeyError):
        return 'keyerror'
    return 'raised:' + type(e).__name__


def find(start, path, index):
    try:
        ob = T.find_resource(start, path)
    except Exception as e:      # noqa
        return {'err': err_name(e)}
    p = index.get(id(ob))
    return {'ok': p} if p is not None else {'err': 'not-a-resource-of-the-tree'}


def base_env(case):
    h = get_app()
    env = dict(h['environ'])
    env['wsgi.input'] = io.BytesIO()
    if case.get('host'):
        env['HTTP_HOST'] = case['host']
    env['SCRIPT_NAME'] = case.get('script') or ''
    if case.get('vroot') is not None:
        env[VH_ROOT_KEY] = case['vroot']
    return env


def server_path_info(url_path):
    """what a WSGI server puts into PATH_INFO for this request path (PEP 3333: percent-decoded bytes as latin-1)"""
    from urllib.parse import unquote_to_bytes
    return unquote_to_bytes(url_path.split('?', 1)[0].split('#', 1)[0]).decode('latin-1')


def impl(case):
    """run the real code; returns ({'ok':…}|{'err':…}, extra)"""
    mode = case['mode']
    extra = {}
    try:
        if mode == 'res':
            from pyramid.request import Request
            h = get_app()
            index = {}
            root = build(case['tree'], name=case.get('rootname'), index=index)
            r = at(root, case['pos'])
            a = at(root, case['pos'][:case['anc']])
            if r is None or a is None or case['anc'] > len(case['pos']):
                return {'err': 'badcase'}, extra
            els = case.get('els') or []
            obs = {}
            obs['rpt'] = list(T.resource_path_tuple(r, *els))
            obs['rp'] = T.resource_path(r, *els)
            obs['fas'] = find(a, T.resource_path(r), index)
            obs['fat'] = find(a, T.resource_path_tuple(r), index)
            rel = tuple(case['pos'][case['anc']:])
            extra['rel_str'] = T._join_path_tuple(rel) if rel else ''
            obs['frs'] = find(a, extra['rel_str'], index)
            obs['frt'] = find(a, rel, index)
            req = Request(base_env(case))
            req.registry = h['registry']
            x = T.ResourceURL(r, req)
            obs['phys'], obs['virt'] = x.physical_path, x.virtual_path
            obs['physt'], obs['virtt'] = list(x.physical_path_tuple), list(x.virtual_path_tuple)
            obs['url'] = req.resource_url(r, *els)
            obs['rpath'] = req.resource_path(r, *els)
            extra['app'] = req.application_url
            extra['script'] = req._quoted_script_name()
            try:
                vr = T.virtual_root(r, req)
                p = index.get(id(vr))
                obs['vr'] = {'ok': p} if p is not None else {'err': 'not-a-resource-of-the-tree'}
            except Exception as e:      # noqa
                obs['vr'] = {'err': err_name(e)}
            # the generated URL (no extra elements), requested from the application with the same header
            url0 = req.resource_url(r)
            if not url0.startswith(extra['app']):
                obs['back'] = {'err': 'url does not start with the application url'}
            else:
                extra['url_path'] = url0[len(extra['app']):]
                h['root'], h['index'] = root, index
                h.pop('seen', None)
                env = base_env(case)
                try:
                    env['PATH_INFO'] = server_path_info(extra['url_path'])
                    h['app'](env, lambda *a_, **k_: None)
                    seen = h.get('seen')
                    if seen is None:
                        obs['back'] = {'err': 'no-view-called'}
                    elif not seen.pop('root_ok'):
                        obs['back'] = {'err': 'request.root is not the root'}
                    else:
                        extra['self_url'] = seen.pop('self_url')
                        obs['back'] = {'ok': seen}
                except Exception as e:      # noqa
                    obs['back'] = {'err': err_name(e)}
            return {'ok': obs}, extra
        if mode == 'find':
            index = {}
            root = build(case['tree'], index=index)
            start = at(root, case['start'])
            if start is None:
                return {'err': 'badcase'}, extra
            path = find_path(case)
            extra['path'] = path
            return find(start, tuple(path) if isinstance(path, list) else path, index), extra
        if mode == 'quote':
            from urllib.parse import unquote_to_bytes
            q = T.quote_path_segment(case['seg'])
            try:
                back = unquote_to_bytes(q).decode('utf-8')
            except UnicodeDecodeError:
                back = None
            return {'ok': {'q': q, 'back': back}}, extra
    except Exception as e:          # noqa
        return {'err': err_name(e)}, extra
    return {'err': 'bad-mode'}, extra


# ------------------------------------------------------------------------------------------------
# the harness' own quoter and reading of the property (independent of the code under test and of Lean)

_KEEP = set(b'ABCDEFGHIJKLMNOPQRSTUVWXYZabcdefghijklmnopqrstuvwxyz0123456789_.-~' + b"!$&'()*+,;=:@")


def q(name):
    """percent-quote a path segment: UTF-8, RFC 3986 unreserved and sub-delims/':'/'@' kept"""
    return ''.join(chr(b) if b in _KEEP else '%%%02X' % b for b in name.encode('utf-8'))


def admissible(n):
    return isinstance(n, str) and n != '' and '/' not in n and n not in ('.', '..') and not n.startswith('@@')


def path_of(names):
    return '/' + ''.join(q(n) + '/' for n in names)


def utf8(wsgi):
    try:
        return wsgi.encode('latin-1').decode('utf-8')
    except (UnicodeDecodeError, UnicodeEncodeError):
        return None


def spec_split(text):
    out = []
    for seg in text.split('/'):
        if seg == '' or seg == '.':
            continue
        if seg == '..':
            if out:
                out.pop()
        else:
            out.append(seg)
    return out


def header_vroot(case):
    """(vt, decodable?, canonical spelling?) — the virtual root the header designates, read the way the traverser reads it
    (UTF-8, split_path_info normalisation).  Every decodable header is in the property's domain; `canonical spelling`
    ('/' + names joined by '/', optional trailing slashes) is recorded for the distribution only."""
    v = case.get('vroot')
    if v is None:
        return None, True, True
    t = utf8(v)
    if t is None:
        return None, False, False
    vt = spec_split(t)
    if not vt:
        spelled = set(t) <= {'/'}
    else:
        spelled = t.rstrip('/') == '/' + '/'.join(vt)
    return vt, True, spelled


def find_path(case):
    if 'path' in case:
        return case['path']
    names = case['names']
    if case['form'] == 'tuple':
        return ([''] if case['abs'] else []) + list(names)
    return ('/' if case['abs'] else '') + '/'.join(q(n) for n in names)


def scheme_like(text):
    return re.match(r'^[A-Za-z]+:', text) is not None


def expected(case, extra):
    """what the property demands, field by field: ({field: value} | None when outside the property, info)"""
    mode = case['mode']
    info = {}
    if mode == 'res':
        pos = case['pos']
        if not all(admissible(n) for n in pos) or case.get('rootname') not in (None, ''):
            return None, {'outside': 'inadmissible name'}
        if resolve(case['tree'], pos) is None or not (0 <= case['anc'] <= len(pos)):
            return None, {'outside': 'not a resource'}
        els = case.get('els') or []
        exp = {}
        exp['rpt'] = [''] + pos + els
        for f in ('fas', 'fat', 'frs', 'frt'):
            exp[f] = {'ok': pos}
        vt, canon, spelled = header_vroot(case)
        info['vt'], info['canon'], info['spelled'] = vt, canon, spelled
        if canon:
            ins = vt is not None and pos[:len(vt)] == vt
            info['inside'] = ins
            vp = path_of(pos[len(vt):]) if ins else path_of(pos)
            exp['virt'] = vp
            if 'app' in extra:
                exp['url'] = extra['app'] + vp + '/'.join(q(e) for e in els)
            if vt is None or ins:
                exp['back'] = {'ok': {'context': pos, 'view_name': '', 'subpath': []}}
        else:
            info['outside_vroot'] = 'header is not UTF-8 (ResourceURL and the traverser raise UnicodeDecodeError)'
        return exp, info
    if mode == 'find':
        if 'path' in case:
            return None, {'outside': 'raw path'}
        names = case['names']
        if case.get('form') not in ('str', 'tuple'):
            return None, {'outside': 'badcase'}
        if not all(admissible(n) for n in names):
            return None, {'outside': 'inadmissible name'}
        if resolve(case['tree'], case['start']) is None:
            return None, {'outside': 'badcase'}
        base = [] if case['abs'] else list(case['start'])
        if not all(admissible(n) for n in base):
            return None, {'outside': 'inadmissible name'}
        info['missing'] = resolve(case['tree'], base + names) is None
        return ({'err': 'keyerror'} if info['missing'] else {'ok': base + names}), info
    if mode == 'quote':
        return {'q': q(case['seg']), 'back': case['seg']}, info
    return None, {'outside': 'bad-mode'}


def back_subset(got_back):
    if 'ok' in got_back:
        return {'ok': {k: got_back['ok'][k] for k in ('context', 'view_name', 'subpath')}}
    return got_back


def compare(case, got, exp, info):
    """list of the fields in which the implementation deviates from what the property demands"""
    if exp is None:
        return []
    if case['mode'] == 'res':
        if 'ok' not in got:
            return [] if (got == {'err': 'unicodedecode'} and not info.get('canon')) else ['*']
        o = got['ok']
        bad = []
        for f, want in exp.items():
            have = back_subset(o[f]) if f == 'back' else o[f]
            if have != want:
                bad.append(f)
        return bad
    if case['mode'] == 'find':
        return [] if got == exp else ['find']
    if case['mode'] == 'quote':
        return [] if got.get('ok') == exp else ['quote']
    return []


def needs_quoting(n):
    return q(n) != n


def classify(case, extra, got, exp, info, bad):
    """recorded findings, each a narrow decidable class of cases"""
    if case['mode'] == 'res':
        rel = case['pos'][case['anc']:]
        rest = list(bad)
        fid = set()
        # F-C07c: a *relative* lookup whose path text starts like a URL scheme is handed to WebOb's Request.blank,
        # which parses it as a URL
        if rel and scheme_like(q(rel[0])) and set(rest) & {'frs', 'frt'}:
            fid.add('F-C07c')
            rest = [f for f in rest if f not in ('frs', 'frt')]
        if rest or not fid:
            return None
        return sorted(fid)[0]
    if case['mode'] == 'find':
        if 'path' in case or case['abs'] or not case['names']:
            return None
        if scheme_like(q(case['names'][0])):
            return 'F-C07c'
    return None


# ------------------------------------------------------------------------------------------------
# the model side

def codes(s):
    return [ord(c) for c in s]


def jtree(t):
    return {'g': t['g'], 'k': [[codes(n), jtree(s)] for n, s in t['k']]}


def txt(cs):
    return ''.join(map(chr, cs))


def model_case(case, extra):
    mode = case['mode']
    if mode == 'res':
        return {'op': 'res', 'tree': jtree(case['tree']), 'pos': [codes(n) for n in case['pos']], 'anc': case['anc'],
                'vroot': None if case.get('vroot') is None else codes(case['vroot']),
                'els': [codes(e) for e in (case.get('els') or [])],
                'app': codes(extra.get('app', '')), 'script': codes(extra.get('script', ''))}
    if mode == 'find':
        p = find_path(case)
        return {'op': 'find', 'tree': jtree(case['tree']), 'start': [codes(n) for n in case['start']],
                'path': {'t': [codes(x) for x in p]} if isinstance(p, list) else {'s': codes(p)}}
    if mode == 'quote':
        return {'op': 'quote', 'seg': codes(case['seg'])}
    raise ValueError(mode)


def dec_pos(o):
    if 'ok' in o:
        return {'ok': [txt(x) for x in o['ok']]}
    return {'err': o['err']}


def dec_back(o):
    if 'err' in o:
        return {'err': o['err']}
    r = o['ok']
    return {'ok': {'context': [txt(x) for x in r['context']], 'view_name': txt(r['view_name']),
                   'subpath': [txt(x) for x in r['subpath']], 'traversed': [txt(x) for x in r['traversed']],
                   'virtual_root': [txt(x) for x in r['virtual_root']], 'virtual_root_path': [txt(x) for x in r['virtual_root_path']]}}


def decode_model(case, mo):
    """(model outcome in the canonical form of impl(), lean spec | None)"""
    if mo is None:
        return None, None
    if 'error' in mo:
        return {'err': 'driver:' + str(mo['error'])}, None
    mode = case['mode']
    if mode == 'res' and 'err' in mo:
        return {'err': mo['err']}, None
    if mode == 'res':
        out = {}
        for f in ('rpt', 'physt', 'virtt'):
            out[f] = [txt(x) for x in mo[f]]
        for f in ('rp', 'phys', 'virt', 'url', 'rpath'):
            out[f] = txt(mo[f])
        for f in ('fas', 'fat', 'frs', 'frt', 'vr'):
            out[f] = dec_pos(mo[f])
        out['back'] = dec_back(mo['back'])
        s = mo['spec']
        spec = {'vt': None if s['vt'] is None else [txt(x) for x in s['vt']], 'virt': txt(s['virt']), 'url': txt(s['url']),
                'inside': s['inside']}
        return {'ok': out}, spec
    if mode == 'find':
        return dec_pos(mo), None
    if mode == 'quote':
        return {'ok': {'q': txt(mo['q']), 'back': None if mo['back'] is None else txt(mo['back'])}}, None
    return None, None


def model_differs(case, got, mo):
    """fields in which implementation and model differ (the model's 'outside' — WebOb's URL branch — is skipped)"""
    if mo is None:
        return []
    if case['mode'] == 'res':
        if 'ok' not in got or 'ok' not in mo:
            return [] if got == mo else ['*']
        bad = []
        for f in RES_FIELDS:
            m = mo['ok'][f]
            if m == {'err': 'outside'}:
                continue
            if m != got['ok'][f]:
                bad.append(f)
        return bad
    if mo == {'err': 'outside'}:
        return []
    return [] if mo == got else ['*']


# ------------------------------------------------------------------------------------------------
# generators

SIMPLE = ['a', 'b', 'c', 'foo', 'bar', 'abc', 'x', 'y1', 'one', 'two']
UNI = ['é', 'ß', '日本', '語', '€', '😀', 'я', 'La Peña', 'ñ', '𝔘', 'é', ' ', 'Ā', '߿', 'ࠀ', '￿', '\U00010000', '\U0010ffff']
TRICKY = [' ', 'a b', '%41', '%2541', 'a%2Fb', '100%', '%', '%zz', '%4', '+', 'x;y', ':', 'http:', 'http:x', 'https:y', 'ftp:z', 'a:b', 'HTTP:Q',
          "it's", '~t', 'a.b', '.a', '...', '@', '@x', 'x@@y', '?', 'q?r', '#', 'a#b', '&=', '(1)', 'A', '\\', '\t', 'a\nb', '\x7f', '\x00',
          '[x]', '<y>', '"', '^', '`', '{}', '|', 'a=b&c', '*', '!$', "'"]
INADMISSIBLE = ['', '.', '..', '@@', '@@v', 'a/b', '/', '@@é']
BAD_UTF8 = ['\xff', '\xc3', '\xc0\x80', '\xed\xa0\x80', '\xe2\x82', '\x80']


def to_wsgi(text):
    return text.encode('utf-8').decode('latin-1')


def gen_name(rng, p_bad=0.04):
    r = rng.random()
    if r < 0.4:
        return rng.choice(SIMPLE)
    if r < 0.6:
        return rng.choice(UNI)
    if r < 0.88:
        return rng.choice(TRICKY)
    if r < 0.88 + p_bad:
        return rng.choice(INADMISSIBLE)
    return vfutil.rand_text(rng, 5, allow_empty=False, p_control=0.05, forbid='/') or 'q'


def variant(rng, n):
    """a sibling name sharing a prefix with n (or being a prefix of it)"""
    r = rng.random()
    if r < 0.35:
        return n + rng.choice(['2', 'x', ' ', '%', '.', '-', 'é', ':'])
    if r < 0.55 and len(n) > 1:
        return n[:-1]
    if r < 0.7:
        return q(n)                       # the quoted spelling of the name, as a different resource
    if r < 0.8:
        return n + n
    return n + rng.choice(SIMPLE)


def gen_tree(rng, depth, fan=3, p_bad=0.04):
    def go(d, is_root):
        if not is_root and rng.random() < (0.15 if d > 0 else 0.4):
            return {'g': False, 'k': ([[gen_name(rng), go(0, False)]] if rng.random() < 0.1 else [])}
        if d == 0:
            return {'g': True, 'k': []}
        kids, seen = [], set()
        for _ in range(rng.randint(1, fan)):
            n = gen_name(rng, p_bad)
            if n in seen and rng.random() < 0.9:
                continue
            seen.add(n)
            kids.append([n, go(d - 1, False)])
            if rng.random() < 0.3:
                v = variant(rng, n)
                if v not in seen:
                    seen.add(v)
                    kids.append([v, go(d - 1, False)])
        rng.shuffle(kids)
        return {'g': True, 'k': kids}
    return go(depth, True)


def positions(tree, pos=()):
    """every position reachable by item lookup (first equal key wins)"""
    out = [list(pos)]
    if tree['g']:
        seen = set()
        for n, sub in tree['k']:
            if n in seen:
                continue
            seen.add(n)
            out += positions(sub, pos + (n,))
    return out


def gen_vroot(rng, tree, pos):
    r = rng.random()
    if r < 0.25:
        return None
    if r < 0.55 and pos:                                   # an ancestor of the resource (or the resource itself)
        vt = pos[:rng.randint(1, len(pos))]
        v = '/' + '/'.join(vt)
    elif r < 0.75 and pos:                                 # a sibling of an ancestor sharing a name prefix
        j = rng.randint(1, len(pos))
        vt = pos[:j - 1] + [variant(rng, pos[j - 1])]
        v = '/' + '/'.join(vt)
    elif r < 0.8:
        v = rng.choice(['/', '', '//'])
    elif r < 0.86 and pos:                                 # the quoted spelling of an ancestor's path
        vt = pos[:rng.randint(1, len(pos))]
        v = '/' + '/'.join(q(n) for n in vt)
    elif r < 0.91:                                         # some other resource of the tree / a missing one
        other = rng.choice(positions(tree))
        if rng.random() < 0.3:
            other = other + [gen_name(rng)]
        v = '/' + '/'.join(other)
    elif r < 0.98 and pos:                                 # not the canonical spelling
        vt = pos[:rng.randint(1, len(pos))]
        v = rng.choice(['', '/', '//', '/./', '/../', '/zz/../']) + rng.choice(['/', '//', '/./', '/zz/../']).join(vt) + rng.choice(['', '', '/.', '/x/..', '/x/../'])
    else:
        return '/' + rng.choice(SIMPLE) + rng.choice(BAD_UTF8)
    v = to_wsgi(v)
    if rng.random() < 0.25:
        v += rng.choice(['/', '//'])
    return v


def gen_res(rng, deep=False):
    tree = gen_tree(rng, rng.randint(1, 6 if deep else 4), p_bad=0.04)
    ps = positions(tree)
    pos = rng.choice(ps)
    if rng.random() < 0.6:                                 # prefer deep resources
        pos = max([rng.choice(ps) for _ in range(3)] + [pos], key=len)
    els = []
    if rng.random() < 0.3:
        els = [rng.choice([gen_name(rng, 0.2), vfutil.rand_text(rng, 4)]) for _ in range(rng.randint(1, 3))]
    return {'mode': 'res', 'tree': tree, 'pos': pos, 'anc': rng.randint(0, len(pos)), 'vroot': gen_vroot(rng, tree, pos),
            'els': els, 'host': rng.choice([None, None, 'example.com', 'example.com:8080', 'localhost:80']),
            'script': rng.choice(['', '', '', '/app', '/a b']), 'rootname': rng.choice([None, ''])}


def gen_find(rng, deep=False):
    tree = gen_tree(rng, rng.randint(1, 5 if deep else 4), p_bad=0.06)
    ps = positions(tree)
    target = rng.choice(ps)
    k = rng.randint(0, len(target))
    start, names = target[:k], target[k:]
    abs_ = rng.random() < 0.5
    if abs_:
        names = target
        start = rng.choice(ps)
    r = rng.random()
    if r < 0.3 and True:                                   # a missing name somewhere
        i = rng.randint(0, len(names))
        names = names[:i] + [rng.choice([gen_name(rng), variant(rng, names[i]) if i < len(names) else 'zz', 'missing'])] + \
            (names[i + 1:] if rng.random() < 0.5 else [])
    elif r < 0.36:
        names = names + [rng.choice(INADMISSIBLE)]
    if rng.random() < 0.06:                                # raw paths, correspondence only
        raw = rng.choice(['', '/', 'a//b', '/a/./b', '/a/../b', 'a?x', '/%zz', '%41', '/\xe9', 'a%2Fb', '/a%', '@@', '/@@x', '%7/x'])
        if rng.random() < 0.5 and names:
            raw = ('/' if abs_ else '') + '/'.join(q(n) for n in names) + rng.choice(['/', '//', '/.', '?q=1', '/@@', ''])
        return {'mode': 'find', 'tree': tree, 'start': start, 'path': raw if rng.random() < 0.8 else raw.split('/')}
    return {'mode': 'find', 'tree': tree, 'start': start, 'names': names, 'abs': abs_, 'form': rng.choice(['str', 'tuple'])}


def gen_quote(rng):
    r = rng.random()
    if r < 0.5:
        return {'mode': 'quote', 'seg': gen_name(rng, 0.1)}
    if r < 0.8:
        return {'mode': 'quote', 'seg': vfutil.rand_text(rng, 8, p_control=0.1)}
    return {'mode': 'quote', 'seg': ''.join(chr(rng.choice([rng.randint(0, 0x7f), rng.randint(0x80, 0x7ff), rng.randint(0x800, 0xd7ff),
                                                            rng.randint(0xe000, 0xffff), rng.randint(0x10000, 0x10ffff)]))
                                            for _ in range(rng.randint(1, 5)))}


def gen_case(rng, deep=False):
    r = rng.random()
    if r < 0.62:
        return gen_res(rng, deep)
    if r < 0.92:
        return gen_find(rng, deep)
    return gen_quote(rng)


# ------------------------------------------------------------------------------------------------
# one case through implementation, oracle, model

def check_case(case, model_reply=None):
    """returns (got, extra, mismatch|None, violation|None, info)"""
    got, extra = impl(case)
    exp, info = expected(case, extra)
    viol = mism = None
    bad = compare(case, got, exp, info)
    if bad:
        shown = got
        if case['mode'] == 'res' and 'ok' in got:
            shown = {f: got['ok'][f] for f in bad if f in got['ok']}
        viol = {'case': case, 'impl': shown, 'expected': ({f: exp[f] for f in bad if f in exp} if case['mode'] == 'res' and bad != ['*'] else exp),
                'detail': 'the implementation does not give what the property demands in: %s' % bad}
        f = classify(case, extra, got, exp, info, bad)
        if f:
            viol['finding'] = f
    # the URL the application generates for the context it found must be the URL that was requested (fixed point)
    if viol is None and exp is not None and case['mode'] == 'res' and 'back' in exp and extra.get('self_url') is not None:
        if extra['self_url'] != extra['app'] + extra.get('url_path', ''):
            viol = {'case': case, 'impl': {'self_url': extra['self_url']}, 'expected': {'self_url': extra['app'] + extra['url_path']},
                    'detail': 'inside the request for the generated URL the application generates a different URL for the same resource'}
    if model_reply is not None:
        mo, mspec = decode_model(case, model_reply)
        d = model_differs(case, got, mo)
        if d:
            if case['mode'] == 'res' and 'ok' in got and 'ok' in mo and d != ['*']:
                mism = {'case': case, 'impl': {f: got['ok'][f] for f in d}, 'model': {f: mo['ok'][f] for f in d}}
            else:
                mism = {'case': case, 'impl': got, 'model': mo}
        info['model_spec'] = mspec
        info['model'] = mo
        # Lean-side spec vs this file's oracle
        if mspec is not None and exp is not None and info.get('canon') and mism is None:
            if 'virt' in exp and mspec['virt'] != exp['virt'] or 'url' in exp and mspec['url'] != exp['url']:
                mism = {'case': case, 'impl': {'python_oracle': {k: exp.get(k) for k in ('virt', 'url')}}, 'model': {'lean_spec': mspec}}
    return got, extra, mism, viol, info


def features(case):
    f = []
    names = []
    if case['mode'] == 'res':
        names = case['pos'] + (case.get('els') or [])
    elif case['mode'] == 'find':
        names = case.get('names') or (case['path'] if isinstance(case.get('path'), list) else [case.get('path', '')])
    else:
        names = [case['seg']]
    blob = '\uffff'.join(names)
    if any(ord(c) > 127 for c in blob): f.append('nonascii')
    if any(ord(c) > 0xffff for c in blob): f.append('astral')
    if '%' in blob: f.append('pct')
    if re.search(r'%[0-9a-fA-F]{2}', blob): f.append('looks-escaped')
    if ' ' in blob: f.append('space')
    if any(c in blob for c in '?#[]<>"^`{}|\\'): f.append('reserved-quoted')
    if any(c in blob for c in "!$&'()*+,;=:@"): f.append('reserved-kept')
    if any(scheme_like(n) for n in names): f.append('scheme-like')
    if any(not admissible(n) for n in (case['pos'] if case['mode'] == 'res' else names)): f.append('inadmissible')
    if any(ord(c) < 32 or ord(c) == 127 for c in blob): f.append('control')
    return f


def vroot_kind(case, info):
    v = case.get('vroot')
    if v is None:
        return 'absent'
    vt = info.get('vt')
    if vt is None:
        return 'undecodable'
    k = 'canonical' if info.get('spelled') else 'noncanonical'
    if not vt:
        return 'root-' + k
    pos = case['pos']
    if pos[:len(vt)] == vt:
        rel = 'self' if len(vt) == len(pos) else 'ancestor'
    elif vt[:-1] == pos[:len(vt) - 1] and len(pos) >= len(vt) and (pos[len(vt) - 1].startswith(vt[-1]) or vt[-1].startswith(pos[len(vt) - 1])):
        rel = 'sibling-sharing-prefix'
    elif resolve(case['tree'], vt) is None:
        rel = 'missing'
    else:
        rel = 'elsewhere'
    if rel != 'missing' and resolve(case['tree'], vt) is None:
        rel += '+missing'
    if any(needs_quoting(n) for n in vt):
        rel += '+needs-quoting'
    if v.endswith('/'):
        rel += '+trailing'
    return k + ':' + rel


def nontrivial(case, got, info, feats):
    if case['mode'] == 'res':
        return bool(case['pos']) and (any(needs_quoting(n) for n in case['pos']) or case.get('vroot') is not None or bool(case.get('els')))
    if case['mode'] == 'find':
        names = case.get('names')
        if names is None:
            return True
        return bool(names) and (info.get('missing') or any(needs_quoting(n) for n in names) or not case['abs'])
    return needs_quoting(case['seg'])


def clear_caches():
    if hasattr(T._join_path_tuple, 'cache_clear'):
        T._join_path_tuple.cache_clear()
    for fn in (T.traversal_path_info, T.split_path_info):
        if hasattr(fn, 'cache_clear'):
            fn.cache_clear()
    T._segment_cache.clear()


def N(g=True, **kids):
    return {'g': g, 'k': [[k, v] for k, v in kids.items()]}


def T_(*pairs, g=True):
    return {'g': g, 'k': [list(p) for p in pairs]}


LEAFN = {'g': True, 'k': []}

WITNESSES = [
    # F-C07a (fixed in /repo: f13072b) — virtual root /one, resource /one2/x: must NOT be trimmed
    {'mode': 'res', 'tree': T_(('one', LEAFN), ('one2', T_(('x', LEAFN)))), 'pos': ['one2', 'x'], 'anc': 0, 'vroot': '/one',
     'els': [], 'host': None, 'script': '', 'rootname': None},
    # F-C07b (fixed in /repo: 8fdc2b2) — virtual root /a b (needs quoting) over /a b/c: trimmed, traverses back
    {'mode': 'res', 'tree': T_(('a b', T_(('c', LEAFN)))), 'pos': ['a b', 'c'], 'anc': 0, 'vroot': '/a b',
     'els': [], 'host': None, 'script': '', 'rootname': None},
    # F-C07b (fixed), the other direction — virtual root /%2541 (another resource) must not trim the resource /%41/x
    {'mode': 'res', 'tree': T_(('%41', T_(('x', LEAFN))), ('%2541', LEAFN)), 'pos': ['%41', 'x'], 'anc': 0, 'vroot': '/%2541',
     'els': [], 'host': None, 'script': '', 'rootname': None},
    # F-C07c — relative tuple / string lookup whose first name looks like a URL scheme
    {'mode': 'res', 'tree': T_(('http:x', T_(('b', LEAFN)))), 'pos': ['http:x', 'b'], 'anc': 0, 'vroot': None,
     'els': [], 'host': None, 'script': '', 'rootname': None},
    {'mode': 'find', 'tree': T_(('foo:x', T_(('b', LEAFN)))), 'start': [], 'names': ['foo:x', 'b'], 'abs': False, 'form': 'tuple'},
]


def depth(t):
    return 1 + max([depth(s) for _, s in t['k']], default=0)


def shrink_all(viol, limit=6):
    """shrink unknown violations (known-finding ones are kept as they are: one example is enough)"""
    out, done = [], 0
    for v in viol:
        if v.get('finding') or done >= limit or 'first' in (v.get('impl') or {}) or 'cold' in (v.get('impl') or {}):
            out.append(v)
            continue
        done += 1

        def still(c):
            try:
                _, _, _, w, _ = check_case(c)
            except Exception:
                return False
            return bool(w) and not w.get('finding')
        small = vfutil.shrink(v['case'], still, max_steps=500)
        _, _, _, w, _ = check_case(small)
        out.append(w or v)
    return out


# ------------------------------------------------------------------------------------------------
# small-scope exhaustive enumeration: depth-2 trees x every resource x all virtual roots

EX_NAMES = ['a', 'ab', 'a b']
EX_SUB = ['a', 'ab']


def small_trees(names=EX_NAMES, sub=EX_SUB):
    def subtrees():
        yield None
        yield {'g': False, 'k': []}
        for mask in range(1 << len(sub)):
            yield {'g': True, 'k': [[n, {'g': True, 'k': []}] for i, n in enumerate(sub) if mask >> i & 1]}
    for combo in itertools.product(list(subtrees()), repeat=len(names)):
        yield {'g': True, 'k': [[n, t] for n, t in zip(names, combo) if t is not None]}


def exhaustive_cases(full):
    names = EX_NAMES if full else EX_NAMES[:2] + ['a b']
    trees = list(small_trees(names, EX_SUB if full else EX_SUB))
    if not full:
        trees = trees[::5]
    vroots = [None, '/', '/a', '/ab', '/a b', '/a%20b', '/a/', '/a/a', '/a/ab', '/ab/a', '/a b/a', '/zz', 'a', '/a//ab/../', '/ab/../a b/.']
    out = []
    for tree in trees:
        for pos in positions(tree):
            for v in vroots:
                out.append({'mode': 'res', 'tree': tree, 'pos': pos, 'anc': 0 if not pos else len(pos) - 1, 'vroot': v, 'els': [],
                            'host': None, 'script': '', 'rootname': None})
    return out


def run(ctx):
    rng = ctx.rng
    n = ctx.n(9000, 100000)
    corpus = [c for _, c in ctx.corpus()]
    cases = corpus + [gen_case(rng, deep=(ctx.tier == 'thorough')) for _ in range(n)]
    clear_caches()
    first, extras, hist_viol = [], [], []
    for i, case in enumerate(cases):
        if i % 5 == 0:
            clear_caches()
        got, extra = impl(case)
        again, _ = impl(case)                   # warm (lru_cache / _segment_cache filled)
        if again != got:
            hist_viol.append({'case': case, 'impl': {'cold': got, 'warm': again}, 'expected': 'same outcome',
                              'detail': 'outcome differs between the first (cold) and the second (warm) evaluation'})
        first.append(got); extras.append(extra)
    replies = [None] * len(cases)
    if ctx.driver_path:
        replies = ctx.run_model([model_case(c, e) for c, e in zip(cases, extras)])
    mism, viol, agree = [], list(hist_viol), 0
    seen, nontriv = set(), set()
    dist = {'mode': {}, 'features': {}, 'vroot': {}, 'tree_depth': {}, 'pos_len': {}, 'find_outcome': {}, 'back_outcome': {},
            'elements': {}, 'relative_len': {}, 'oracle_skipped': {}, 'model_outside_fields': 0, 'trimmed': {}}
    for case, got0, extra, mo in zip(cases, first, extras, replies):
        got, extra2, m, v, info = check_case(case, mo)
        if got != got0:
            viol.append({'case': case, 'impl': {'first': got0, 'later': got}, 'expected': 'same outcome',
                         'detail': 'outcome changed when the case was evaluated again later'})
        if m:
            mism.append(m)
        elif mo is not None:
            agree += 1
        if v:
            viol.append(v)
        if 'outside' in info:
            bump(dist['oracle_skipped'], info['outside'])
        feats = features(case)
        bump(dist['mode'], case['mode'])
        for f in feats:
            bump(dist['features'], f)
        if case['mode'] == 'res':
            bump(dist['tree_depth'], depth(case['tree']))
            bump(dist['pos_len'], len(case['pos']))
            bump(dist['elements'], len(case.get('els') or []))
            bump(dist['relative_len'], len(case['pos']) - case['anc'])
            bump(dist['vroot'], vroot_kind(case, info) if 'vt' in info else ('absent' if case.get('vroot') is None else 'oracle-skipped'))
            if 'ok' in got:
                b = got['ok']['back']
                bump(dist['back_outcome'], 'ok-exhausted' if 'ok' in b and b['ok']['view_name'] == '' else 'ok-view-name' if 'ok' in b else b['err'])
                bump(dist['trimmed'], 'trimmed' if got['ok']['virt'] != got['ok']['phys'] else 'untrimmed')
                mm = info.get('model')
                if mm and 'ok' in mm:
                    dist['model_outside_fields'] += sum(1 for f in RES_FIELDS if mm['ok'][f] == {'err': 'outside'})
        elif case['mode'] == 'find':
            bump(dist['find_outcome'], 'ok' if 'ok' in got else got['err'])
        key = vfutil.canon(case)
        if key not in seen:
            seen.add(key)
            if nontrivial(case, got, info, feats):
                nontriv.add(key)
    # history: everything again in shuffled order (the lru_cache(1000) of _join_path_tuple evicts in between)
    order = list(range(len(cases)))
    rng.shuffle(order)
    for i in order[:ctx.n(3000, 30000)]:
        got, _ = impl(cases[i])
        if got != first[i]:
            viol.append({'case': cases[i], 'impl': {'first': first[i], 'after_history': got}, 'expected': 'same outcome',
                         'detail': 'outcome depends on the paths generated earlier (memoised helpers)'})
    dist['history'] = {'join_path_tuple_cache': T._join_path_tuple.cache_info().currsize if hasattr(T._join_path_tuple, 'cache_info') else None,
                       'segment_cache': len(T._segment_cache)}
    # small-scope exhaustive enumeration
    ex = exhaustive_cases(ctx.tier == 'thorough')
    ex_extras = []
    for c in ex:
        _, e = impl(c)
        ex_extras.append(e)
    ex_replies = ctx.run_model([model_case(c, e) for c, e in zip(ex, ex_extras)]) if ctx.driver_path else [None] * len(ex)
    ex_known = {}
    for case, mo in zip(ex, ex_replies):
        got, extra, m, v, info = check_case(case, mo)
        if m:
            mism.append(m)
        elif mo is not None:
            agree += 1
        if v:
            if v.get('finding'):
                bump(ex_known, v['finding'])
                if ex_known[v['finding']] > 1:
                    continue
            viol.append(v)
    dist['exhaustive_scope'] = {'cases': len(ex), 'known_finding_cases': ex_known,
                                'what': 'trees of depth <= 2 (root children among %s: absent / leaf / container with any subset of %s) x every '
                                        'resource x 15 virtual-root headers (none, /, every first-level name raw, one quoted, trailing slash, '
                                        'second-level, missing, no leading slash, with //, ., ..)%s' % (EX_NAMES, EX_SUB, '' if ctx.tier == 'thorough' else ' — every 5th tree in quick')}
    notes = []
    for w in WITNESSES:
        got, extra, m, v, info = check_case(w)
        notes.append('witness %s: %s' % (json.dumps({k: w[k] for k in w if k not in ('tree', 'host', 'script', 'rootname', 'els')}, ensure_ascii=True)[:160],
                                         ((v or {}).get('finding') or ('VIOLATION ' + v['detail'] if v else 'no violation'))))
        if v:
            viol.append(v)
    viol = shrink_all(viol)
    dist['known_finding_cases'] = {}
    for v in viol:
        if v.get('finding'):
            bump(dist['known_finding_cases'], v['finding'])
    return {'evaluations': len(cases) * 3 + len(ex), 'exhaustive': True, 'distinct_nontrivial': len(nontriv), 'rule': RULE, 'agreeing': agree,
            'samples': cases[len(corpus):len(corpus) + 4] + cases[-2:], 'mismatches': mism[:50], 'violations': viol,
            'distribution': dist, 'notes': notes,
            'assumptions': ['resource names are Python str without lone surrogates; the root is named None or ""',
                            'children are found by dict lookup (==/hash of str); the model uses list lookup by equality',
                            'every UTF-8 virtual-root header is in the property\'s domain; the virtual root it designates is read as the traverser '
                            'reads it (split_path_info normalisation: no leading slash, //, ., .., trailing slashes all allowed)',
                            'the WSGI server percent-decodes the request path into PATH_INFO (urllib.parse.unquote_to_bytes, latin-1)'],
            'trusted_base': ['Python codecs (utf-8, latin-1, ascii), str.split/rstrip/startswith/slicing, urllib.parse.quote / unquote_to_bytes, '
                             'WebOb Request (blank, path_info, application_url), functools.lru_cache — tied only by this run',
                             'WebOb Request.blank\'s URL branch (path text starting with letters + ":") is outside the model (recorded finding F-C07c)',
                             'core Lean UTF-8 codec (List.utf8Encode / ByteArray.utf8Decode?) stands for Python\'s strict utf-8 codec']}


def search(ctx):
    """failing-input search on the implementation only: the small-scope enumeration (all trees), then the seeded stream"""
    viol, n = [], 0
    exhaustive = True
    for case in exhaustive_cases(True):
        n += 1
        _, _, _, v, _ = check_case(case)
        if v and not v.get('finding'):
            viol.append(v)
            if len(viol) >= 3:
                return {'violations': shrink_all(viol), 'searched': n, 'exhaustive': False}
        if n % 500 == 0 and ctx.time_left() < 90:
            exhaustive = False
            break
    k = 0
    while not viol and k < 60000 and ctx.time_left() > 60:
        case = gen_case(ctx.rng, deep=True)
        k += 1
        _, _, _, v, _ = check_case(case)
        if v and not v.get('finding'):
            viol.append(v)
    return {'violations': shrink_all(viol), 'searched': n + k, 'exhaustive': exhaustive}


def replay(ctx, rep):
    case = rep.get('case')
    if case is None:
        return {'violates': False, 'note': 'replay names broken obligations only', 'broken': rep.get('broken_obligations')}
    got, extra = impl(case)
    mo = None
    if ctx.driver_path:
        mo = ctx.run_model([model_case(case, extra)])[0]
    got, extra, m, v, info = check_case(case, mo)
    exp, _ = expected(case, extra)
    return {'case': case, 'impl': got, 'model': decode_model(case, mo)[0] if mo else None, 'spec': exp,
            'lean_spec': info.get('model_spec'), 'mismatch': m, 'finding': (v or {}).get('finding'),
            'detail': (v or {}).get('detail'), 'violates': bool(v)}
