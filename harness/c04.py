"""C04 — correspondence of lean/PyramidModel/Actions.lean with pyramid.config.actions
(resolveConflicts / ActionState.execute_actions, driven directly and through real nested
Configurator.include calls), and the property itself evaluated on the implementation by an
independent reference reading of the statement (`expected`)."""
import itertools, json, os, re, sys

import vfutil

RULE = ('(a) action programs: 1..9 top-level actions, each with discriminator None / one of 3 values / a Deferred thunk '
        'reading the log, phase in {-20,-10,0,10}, include path a node of a random include tree (<= 6 nodes), and '
        '0..3 actions it appends while it executes (nesting <= 2); run on ActionState.execute_actions directly '
        '(arbitrary path labels) and through Configurator.action/include/commit (paths built by real nested '
        'include calls, also includes issued while an action executes).  A program is non-trivial when at least one '
        'discriminator value is shared by >= 2 declared actions or some executed action appends actions; (b) configuration '
        'programs: trees of declare/include/commit statements (<= 14 statements, nesting <= 4, specs from <= 5 labels so that '
        're-includes happen, optional route prefixes, callables that declare and include while executing, 12 % autocommit) '
        'run on a real Configurator; non-trivial when >= 2 declarations and (an include or >= 2 commits); distinct = '
        'distinct canonical case JSON')

PHASES = [-20, -10, 0, 10]


# ------------------------------------------------------------------------------------------------
# case structure helpers
# case = {"via": "state"|"config", "top": [node,…]}
# node = {"id": n, "disc": None | n | {"dep": id, "a": None|n, "b": None|n}, "order": int, "path": [n,…], "adds": [node,…]}

def walk(nodes):
    for n in nodes:
        yield n
        yield from walk(n['adds'])


# An action may be declared without a callable (`"call": "none"`: a pure marker that only takes part in conflict
# detection, e.g. what add_request_method(name=…) registers) or without a callable but with an introspectable
# (`"call": "intr"`).  Whether an action has a callable is irrelevant to conflict resolution (the model does not
# even carry the attribute); it only decides what can be *observed*: a marker leaves no trace, an introspectable
# logs the id when it is registered (right after the callable would have run).  Such actions append nothing.
CALLS = ('fn', 'none', 'intr')


def call_of(n):
    return n.get('call', 'fn')


def silent_ids(case):
    """ids whose execution cannot be observed on the implementation"""
    if case['via'] == 'program':
        return {s['id'] for s, _ in walk_prog(case['prog']) if s['op'] == 'declare' and call_of(s) == 'none'}
    return {n['id'] for n in walk(case['top']) if call_of(n) == 'none'}


def _calls_ok(nodes, kids_key):
    """markers append nothing; no thunk reads whether an unobservable action has run"""
    nodes = list(nodes)
    silent = {n['id'] for n in nodes if call_of(n) == 'none'}
    for n in nodes:
        if call_of(n) not in CALLS or (call_of(n) != 'fn' and n[kids_key]):
            return False
        if 'call' in n and n['call'] == 'fn':
            return False                       # canonical form: the default is not written
        if isinstance(n['disc'], dict) and n['disc']['dep'] in silent:
            return False
    return True


class _Intr:
    """a minimal introspectable: execute_actions / Configurator.action call register(introspector, info)"""
    def __init__(self, log, i):
        self.log, self.i = log, i

    def register(self, introspector, action_info):
        self.log.append(self.i)


def well_formed(case):
    try:
        if case.get('via') == 'program':
            return well_formed_program(case)
        if not _calls_ok(walk(case['top']), 'adds'):
            return False
        if case.get('via') not in ('state', 'config') or not isinstance(case['top'], list):
            return False
        ids = []
        for n in walk(case['top']):
            if not (isinstance(n['id'], int) and n['id'] >= 0 and isinstance(n['order'], int)
                    and isinstance(n['path'], list) and all(isinstance(x, int) and 0 <= x < 1000 for x in n['path'])):
                return False
            d = n['disc']
            if isinstance(d, dict):
                if not (isinstance(d['dep'], int) and d['dep'] >= 0 and all(d[k] is None or (isinstance(d[k], int) and d[k] >= 0) for k in 'ab')):
                    return False
            elif not (d is None or (isinstance(d, int) and not isinstance(d, bool) and d >= 0)):
                return False
            ids.append(n['id'])
        if len(set(ids)) != len(ids):
            return False
        if case['via'] == 'config':
            # Configurator.include processes a spec once per action state: every include-tree node needs its own label
            parent = {}
            for n in walk(case['top']):
                p = n['path']
                for i in range(len(p)):
                    if parent.setdefault(p[i], tuple(p[:i])) != tuple(p[:i]):
                        return False
        return True
    except Exception:
        return False


def strict_prefix(base, p):
    return len(base) < len(p) and list(p[:len(base)]) == list(base)


# ------------------------------------------------------------------------------------------------
# the property, read directly (reference semantics; independent of the Lean build)

def expected(case):
    """What the statement of C04 demands of a commit of `case`, as a trace.

    Declared actions D (in declaration order; an executed action's `adds` are declared when it runs),
    executed actions L.  Repeatedly:
      * an unexecuted action that was declared when execution had already moved past its phase is
        refused (regress, lowest such phase);
      * otherwise go through the phases of the unexecuted actions in increasing order; in a phase, thunk
        discriminators are resolved now; a discriminator d of the phase is *settled* iff
          - an action with d has run and its include path is a strict prefix of every action with d in
            the phase (those are silently discarded), or
          - none has run and one action with d in the phase is a strict prefix of all others with d in it;
        unsettled discriminators of the first phase that has any -> conflict naming exactly those;
        otherwise the first (declaration order) action of the phase that has no discriminator or is the
        winner of a discriminator that has not run executes; a phase with nothing to execute is passed.
    The field 'late_siblings' only feeds the distribution report: it counts the settled phases in which an
    already executed discriminator had >= 2 later actions none of which heads the others (the input class of
    the repaired defect F-C04b, d8099dc); it has no influence on the verdict.
    """
    nodes = {n['id']: n for n in walk(case['top'])}
    D = [n['id'] for n in case['top']]
    decl_phase = {i: None for i in D}      # phase reached when the action was declared
    L, evals = [], {}
    discarded = set()                      # "silently discarded": lost in a phase that was settled
    last_phase = None
    late_siblings = 0

    def disc(i):
        d = nodes[i]['disc']
        if isinstance(d, dict):
            return evals[i][1] if i in evals else ('unevaluated', i)
        return d

    while True:
        U = [i for i in D if i not in L and i not in discarded]
        late = [i for i in U if decl_phase[i] is not None and nodes[i]['order'] < decl_phase[i]]
        if late:
            return {'out': 'regress', 'keys': [], 'regress': [min(nodes[i]['order'] for i in late), last_phase],
                    'log': L, 'evals': evals, 'late_siblings': late_siblings}
        nxt = None
        for q in sorted({nodes[i]['order'] for i in U}):
            G = [i for i in U if nodes[i]['order'] == q]
            for i in G:
                d = nodes[i]['disc']
                if isinstance(d, dict) and i not in evals:
                    evals[i] = (len(L), d['a'] if d['dep'] in L else d['b'])
            ran = {}
            for i in L:
                if disc(i) is not None:
                    ran[disc(i)] = i
            unsettled, winners, lsib = set(), set(), 0
            for d in {disc(i) for i in G} - {None}:
                Gd = [i for i in G if disc(i) == d]
                inner = [w for w in Gd if all(x == w or strict_prefix(nodes[w]['path'], nodes[x]['path']) for x in Gd)]
                if d in ran:
                    if not all(strict_prefix(nodes[ran[d]]['path'], nodes[x]['path']) for x in Gd):
                        unsettled.add(d)
                    elif not inner:
                        lsib += 1           # all are below the executed action, none is below all the others: discarded
                elif inner:
                    winners.add(inner[0])
                else:
                    unsettled.add(d)
            if unsettled:
                return {'out': 'conflict', 'keys': sorted(unsettled), 'regress': None, 'log': L, 'evals': evals, 'late_siblings': late_siblings}
            late_siblings += lsib
            run = [i for i in G if disc(i) is None or i in winners]
            discarded.update(i for i in G if i not in run)
            if run:
                nxt = run[0]
                break
        if nxt is None:
            return {'out': 'ok', 'keys': [], 'regress': None, 'log': L, 'evals': evals, 'late_siblings': late_siblings}
        L = L + [nxt]
        last_phase = nodes[nxt]['order']
        for k in nodes[nxt]['adds']:
            D.append(k['id'])
            decl_phase[k['id']] = last_phase


def spec_view(e):
    return {'out': e['out'], 'keys': e['keys'], 'regress': e['regress'], 'log': e['log'],
            'discs': None, 'evals': sorted([i, t, v] for i, (t, v) in e['evals'].items())}


# ------------------------------------------------------------------------------------------------
# the implementation

# Include specs.  A model label n stands for the spec name SPEC_NAMES[n] (n < 24) or 'zz_<n>'.  The table is sorted,
# so the order of spec strings (Python sorts include paths as tuples of strings) is the numeric order of the labels
# (the model sorts lists of numbers); and it is full of names that are *textual* prefixes of one another
# ('inc' / 'inc2' / 'inc_x', 'includeme' / 'includeme_admin', 'a' / 'a/b' / 'ab'), because include chains must be
# compared spec by spec, never as joined text.
SPEC_NAMES = sorted(['a', 'a/b', 'ab', 'abc', 'b', 'inc', 'inc2', 'inc2_sub', 'inc_x', 'includeme', 'includeme2',
                     'includeme_admin', 'includeme_admin_x', 'm', 'm2', 'm_a', 'main', 'main_app', 'sub', 'sub2',
                     'sub_a', 'x', 'x1', 'x_'])
assert len(set(SPEC_NAMES)) == 24 and all(n < 'zz_' for n in SPEC_NAMES)
_SPEC_LABEL = {n: i for i, n in enumerate(SPEC_NAMES)}
# groups of labels whose names are textual prefixes of the group's first name's extensions
SPEC_FAMILIES = [[i for i, n in enumerate(SPEC_NAMES) if n.startswith(root)] for root in ('a', 'inc', 'includeme', 'm', 'sub', 'x')]



def spec_name(n):
    return SPEC_NAMES[n] if n < len(SPEC_NAMES) else 'zz_%03d' % n


def spec_label(spec):
    name = spec.split(':', 1)[1]
    return _SPEC_LABEL[name] if name in _SPEC_LABEL else int(name[3:])


def _dname(v):
    return None if v is None else 'd%d' % v


def _dnum(s):
    if s is None:            # a conflict keyed by None can only come from a changed tree; keep it visible, do not crash
        return -1
    return int(s[1:])


def _outcome(exc, log, evals, nodes):
    from pyramid.exceptions import ConfigurationConflictError, ConfigurationError, ConfigurationExecutionError
    out = {'keys': [], 'regress': None}
    if exc is None:
        out['out'] = 'ok'
    elif isinstance(exc, ConfigurationConflictError):
        out['out'] = 'conflict'
        out['keys'] = sorted(_dnum(k) for k in exc._conflicts)
    elif isinstance(exc, ConfigurationExecutionError):
        out['out'] = 'raised:ConfigurationExecutionError:%s' % getattr(exc.etype, '__name__', exc.etype)
    elif isinstance(exc, ConfigurationError):
        m = re.match(r'Actions were added to order=(-?\d+) after execution had moved on to order=(-?\d+)\.', str(exc))
        if m:
            out['out'] = 'regress'
            out['regress'] = [int(m.group(1)), int(m.group(2))]
        else:
            out['out'] = 'raised:ConfigurationError'
    else:
        out['out'] = 'raised:%s' % type(exc).__name__
    out['log'] = list(log)
    discs = []
    for i in log:
        d = nodes[i]['disc']
        if isinstance(d, dict):
            discs.append([i, evals[i][1] if i in evals else 'unevaluated'])
        else:
            discs.append([i, d])
    out['discs'] = discs
    out['evals'] = sorted([i, t, v] for i, (t, v) in evals.items())
    return out


def _mk_disc(node, log, evals):
    from pyramid.registry import Deferred
    d = node['disc']
    if isinstance(d, dict):
        def thunk(i=node['id'], d=d):
            v = d['a'] if d['dep'] in log else d['b']
            evals[i] = (len(log), v)
            return _dname(v)
        return Deferred(thunk)
    return _dname(d)


def impl_state(case):
    """ActionState.action / execute_actions directly; include paths are tuples of spec-like strings whose
    order is the numeric order of the labels"""
    from pyramid.config.actions import ActionState
    nodes = {n['id']: n for n in walk(case['top'])}
    st = ActionState()
    log, evals = [], {}

    def declare(n):
        def call(n=n):
            log.append(n['id'])
            for k in n['adds']:
                declare(k)
        st.action(_mk_disc(n, log, evals), call if call_of(n) == 'fn' else None, order=n['order'],
                  includepath=tuple('vf:' + spec_name(x) for x in n['path']), info='action %d' % n['id'],
                  introspectables=(_Intr(log, n['id']),) if call_of(n) == 'intr' else ())

    for n in case['top']:
        declare(n)
    exc = None
    try:
        st.execute_actions(introspector=object())
    except Exception as e:
        exc = e
    return _outcome(exc, log, evals, nodes)


def impl_config(case, full=False):
    """Configurator.action + nested Configurator.include + Configurator.commit.  Declarations are issued from
    inside the includeme callables wherever the declaration order allows it (recursive descent over the
    declaration list); a configurator whose includeme has returned is kept and used for later declarations
    with its include path; an include path that does not exist yet when an *executing* action declares
    into it is created by a real include() issued during that execution."""
    from pyramid.config import Configurator
    from pyramid.registry import Registry
    nodes = {n['id']: n for n in walk(case['top'])}
    log, evals = [], {}
    try:
        if full:
            config = Configurator(package=sys.modules[__name__])
            config.commit()
        else:
            config = Configurator(registry=Registry('vf_c04'), package=sys.modules[__name__])
    except Exception as e:
        out = _outcome(e, log, evals, nodes)
        out['out'] = 'setup-' + out['out']
        return out
    cfgs = {(): config}
    paths_seen = {}

    def get_cfg(path, body=None):
        path = tuple(path)
        if path in cfgs:
            if body:
                body(cfgs[path])
            return cfgs[path]
        parent = get_cfg(path[:-1])

        def inc(c):
            cfgs[path] = c
            if body:
                body(c)
        inc.__name__ = inc.__qualname__ = spec_name(path[-1])
        inc.__module__ = __name__
        parent.include(inc)
        if path not in cfgs:
            raise RuntimeError('include of %r was skipped' % (path,))
        return cfgs[path]

    def declare_on(cfg, n):
        def call(n=n):
            log.append(n['id'])
            declare_list(n['adds'])
        got = tuple(spec_label(s) for s in cfg.includepath)
        paths_seen[n['id']] = got
        cfg.action(_mk_disc(n, log, evals), call if call_of(n) == 'fn' else None, order=n['order'],
                   introspectables=(_Intr(log, n['id']),) if call_of(n) == 'intr' else ())

    def declare_list(lst):
        """recursive descent: stay inside an includeme call frame as long as the next declaration belongs to
        the current include path or below it"""
        pos = [0]

        def frame(cfg, cur):
            while pos[0] < len(lst):
                n = lst[pos[0]]
                p = tuple(n['path'])
                if p == cur:
                    pos[0] += 1
                    declare_on(cfg, n)
                elif p[:len(cur)] == cur and p[:len(cur) + 1] not in cfgs:
                    child = p[:len(cur) + 1]
                    get_cfg(child, body=lambda c, child=child: frame(c, child))
                elif cur == ():
                    pos[0] += 1
                    declare_on(get_cfg(p), n)
                else:
                    return
        frame(config, ())

    exc = None
    try:
        declare_list(case['top'])
        config.commit()
    except Exception as e:
        exc = e
    out = _outcome(exc, log, evals, nodes)
    bad = sorted(i for i, p in paths_seen.items() if list(p) != nodes[i]['path'])
    if bad:
        out['include_paths_wrong'] = [[i, list(paths_seen[i])] for i in bad]
    return out


# ------------------------------------------------------------------------------------------------
# configuration programs: trees of statements run through the real Configurator.action / include / commit
# case = {"via":"program","autocommit":bool,"prog":[stmt,…]}
# stmt = {"op":"declare","id":n,"disc":…,"order":i,"body":[stmt,…]}     config.action(disc, callable, order); the callable
#                                                                      logs id, then runs body on the same configurator
#      | {"op":"include","spec":n,"rp":None|n,"body":[stmt,…]}          config.include(inc_<spec>, route_prefix)
#      | {"op":"commit"}                                               config.commit()

def walk_prog(stmts, in_body=False):
    for s in stmts:
        yield s, in_body
        if s.get('op') in ('declare', 'include'):
            yield from walk_prog(s['body'], in_body or s['op'] == 'declare')


def well_formed_program(case):
    if set(case) != {'via', 'autocommit', 'prog'} or not isinstance(case['autocommit'], bool) or not isinstance(case['prog'], list):
        return False
    ids = []
    for s, in_body in walk_prog(case['prog']):
        op = s.get('op')
        if op == 'declare':
            if set(s) - {'call'} != {'op', 'id', 'disc', 'order', 'body'} or not isinstance(s['body'], list):
                return False
            if not (isinstance(s['id'], int) and s['id'] >= 0 and isinstance(s['order'], int)):
                return False
            d = s['disc']
            if isinstance(d, dict):
                if set(d) != {'dep', 'a', 'b'} or not (isinstance(d['dep'], int) and d['dep'] >= 0 and
                        all(d[k] is None or (isinstance(d[k], int) and d[k] >= 0) for k in 'ab')):
                    return False
            elif not (d is None or (isinstance(d, int) and not isinstance(d, bool) and d >= 0)):
                return False
            ids.append(s['id'])
        elif op == 'include':
            if set(s) != {'op', 'spec', 'rp', 'body'} or not isinstance(s['body'], list):
                return False
            if not (isinstance(s['spec'], int) and 0 <= s['spec'] < 1000):
                return False
            if not (s['rp'] is None or (isinstance(s['rp'], int) and 0 <= s['rp'] < 1000)):
                return False
        elif op == 'commit':
            if set(s) != {'op'} or (in_body and not case['autocommit']):
                return False        # commit() from inside an executing action callable is outside the model
        else:
            return False
    if not case['autocommit'] and _commit_under_prefix(case['prog'], False):
        # route_prefix_context sets the prefix on the *including* configurator while the body runs, so a commit()
        # issued inside such a body lets callables closed over the parent see the child's prefix (dynamic scoping);
        # the model treats route prefixes lexically and leaves this combination out
        return False
    if not _calls_ok([s for s, _ in walk_prog(case['prog']) if s['op'] == 'declare'], 'body'):
        return False
    return len(set(ids)) == len(ids)


def _commit_under_prefix(stmts, under):
    for s in stmts:
        if s['op'] == 'commit' and under:
            return True
        if s['op'] == 'include' and _commit_under_prefix(s['body'], under or s['rp'] is not None):
            return True
    return False


class _Abort(Exception):
    pass


def impl_program(case):
    """the program on a real root Configurator: returns per-commit outcomes, the pending actions left, and every
    declaration as observed at config.action time (id, config.includepath, config.route_prefix)"""
    from pyramid.config import Configurator
    from pyramid.registry import Registry
    auto = case['autocommit']
    nodes = {s['id']: s for s, _ in walk_prog(case['prog']) if s['op'] == 'declare'}
    log, evals = [], {}
    declared, commits = [], []
    seg = {'top': [], 'during': {}, 'stack': []}       # what was declared since the last commit, and by whom
    config = Configurator(registry=Registry('vf_c04p'), package=sys.modules[__name__], autocommit=auto)

    def labels(strs):
        return [spec_label(x) for x in strs]

    def rp_labels(strs):
        return [int(x.rsplit('_', 1)[1]) for x in strs]

    def run_stmts(cfg, stmts):
        for s in stmts:
            if s['op'] == 'declare':
                def call(s=s, cfg=cfg):
                    log.append(s['id'])
                    seg['stack'].append(s['id'])
                    try:
                        run_stmts(cfg, s['body'])
                    finally:
                        seg['stack'].pop()
                rp = cfg.route_prefix
                declared.append([s['id'], labels(cfg.includepath), rp_labels(rp.split('/')) if rp else []])
                if seg['stack']:
                    seg['during'].setdefault(seg['stack'][-1], []).append(s['id'])
                else:
                    seg['top'].append(s['id'])
                cfg.action(_mk_disc(s, log, evals), call if call_of(s) == 'fn' else None, order=s['order'],
                           introspectables=(_Intr(log, s['id']),) if call_of(s) == 'intr' else ())
            elif s['op'] == 'include':
                def inc(c, s=s):
                    run_stmts(c, s['body'])
                inc.__name__ = inc.__qualname__ = spec_name(s['spec'])
                inc.__module__ = __name__
                cfg.include(inc, route_prefix=None if s['rp'] is None else 'rp_%03d' % s['rp'])
            else:
                if auto:
                    cfg.commit()
                    continue
                exc = None
                del log[:]
                evals.clear()
                try:
                    cfg.commit()
                except Exception as e:
                    exc = e
                out = _outcome(exc, log, evals, nodes)
                out['flat'] = {'top': list(seg['top']), 'during': {str(k): v for k, v in seg['during'].items()}}
                commits.append(out)
                seg['top'], seg['during'] = [], {}
                if exc is not None:
                    raise _Abort()

    aborted, crash = False, None
    try:
        run_stmts(config, case['prog'])
    except _Abort:
        aborted = True
    except Exception as e:            # anything else is reported, never swallowed
        crash = '%s: %s' % (type(e).__name__, e)
    res = {'declared': declared, 'crash': crash}
    if auto:
        res.update({'log': list(log), 'discs': [[i, evals[i][1] if i in evals else nodes[i]['disc']] for i in log]})
        res['evals'] = sorted([i, t, v] for i, (t, v) in evals.items())
        return res
    res.update({'commits': commits, 'aborted': aborted,
                'pending': [[d[0], d[1]] for d in declared if d[0] in set(seg['top'])]})
    res['pending_count'] = len(config.action_state.actions)
    res['pending_paths'] = [labels(a['includepath']) for a in config.action_state.actions]
    return res


def tree_decls(stmts, path=(), prefix=()):
    """syntactic reading of the program: every declare statement with the include specs / route prefixes on the way
    from the root to the callable that contains it -> {id: (path, prefix)}"""
    out = {}
    for s in stmts:
        if s['op'] == 'declare':
            out[s['id']] = (list(path), list(prefix))
            out.update(tree_decls(s['body'], path, prefix))
        elif s['op'] == 'include':
            out.update(tree_decls(s['body'], path + (s['spec'],), prefix + (() if s['rp'] is None else (s['rp'],))))
    return out


def ref_declared(case, commit_logs):
    """reference reading of Configurator.include/commit, driven by the execution order the implementation showed:
    an include whose spec was processed since the last commit (or start) is skipped; a commit runs the callables
    of the executed actions in the observed order (each on the configurator that declared it) and then forgets
    the processed specs.  Returns the expected declaration sequence [id, path, prefix]."""
    auto = case['autocommit']
    seen, out, closures = set(), [], {}
    logs = list(commit_logs)

    def go(stmts, path, prefix):
        for s in stmts:
            if s['op'] == 'declare':
                out.append([s['id'], list(path), list(prefix)])
                if auto:
                    go(s['body'], path, prefix)
                else:
                    closures[s['id']] = (s['body'], path, prefix)
            elif s['op'] == 'include':
                if s['spec'] not in seen:
                    seen.add(s['spec'])
                    go(s['body'], path + (s['spec'],), prefix + (() if s['rp'] is None else (s['rp'],)))
            else:
                if not auto:
                    if not logs:
                        raise _Abort()
                    lg, ok = logs.pop(0)
                    for i in lg:
                        if i not in closures:      # the implementation executed an action the reference never declared
                            out.append(['executed-but-not-declared', i])
                            raise _Abort()
                        b, p, q = closures[i]
                        go(b, p, q)
                    if not ok:
                        raise _Abort()
                seen.clear()
    try:
        go(case['prog'], (), ())
    except _Abort:
        pass
    return out


def flat_case(case, commit):
    """the commit as a C04 action program: the actions pending at the commit with the include paths the
    configurator gave them, each executed action with the actions its callable declared"""
    nodes = {s['id']: s for s, _ in walk_prog(case['prog']) if s['op'] == 'declare'}
    paths = commit['paths']

    def node(i):
        n = {'id': i, 'disc': nodes[i]['disc'], 'order': nodes[i]['order'], 'path': paths[i],
             'adds': [node(k) for k in commit['flat']['during'].get(str(i), [])]}
        if 'call' in nodes[i]:
            n['call'] = nodes[i]['call']
        return n
    return {'via': 'state', 'top': [node(i) for i in commit['flat']['top']]}


def judge_program(case, got):
    if got.get('crash'):
        return {'case': case, 'impl': got, 'expected': None, 'detail': 'unexpected exception: %s' % got['crash']}
    td = tree_decls(case['prog'])
    wrong = [d for d in got['declared'] if [d[1], d[2]] != [td[d[0]][0], td[d[0]][1]]]
    if wrong:
        return {'case': case, 'impl': got, 'expected': {str(d[0]): td[d[0]] for d in wrong},
                'detail': 'include path / route prefix of a declaration is not the chain of include specs / prefixes '
                          'from the root to the declaring callable: %s' % wrong[:3]}
    if case['autocommit']:
        ref = ref_declared(case, [])
        exp_log = [d[0] for d in ref if d[0] not in silent_ids(case)]
        if got['declared'] != ref or got['log'] != exp_log:
            return {'case': case, 'impl': got, 'expected': {'declared': ref, 'log': exp_log},
                    'detail': 'autocommit: every declaration must execute immediately, in declaration order, a re-included spec must be skipped'}
        return None
    ref = ref_declared(case, [(c['log'], c['out'] == 'ok') for c in got['commits']])
    if got['declared'] != ref:
        return {'case': case, 'impl': got, 'expected': {'declared': ref},
                'detail': 'declarations differ from the reference reading of include/commit (processSpec short-cut, specs forgotten at commit)'}
    paths = {d[0]: d[1] for d in got['declared']}
    for n, c in enumerate(got['commits']):
        c = dict(c, paths=paths)
        flat = flat_case(case, c)
        if not well_formed(flat):
            return {'case': case, 'impl': got, 'expected': None, 'detail': 'commit %d: derived action program is ill-formed' % n}
        v = judge(flat, c)
        if v:
            return {'case': case, 'impl': got, 'expected': v['expected'], 'commit': n, 'flat': flat,
                    'detail': 'commit %d: %s' % (n, v['detail'])}
    ncommit = sum(1 for s, _ in walk_prog(case['prog']) if s['op'] == 'commit')
    if not got['aborted'] and got['pending_count'] != len(got['pending']):
        return {'case': case, 'impl': got, 'expected': None, 'detail': 'pending actions after the run are not the ones declared since the last commit'}
    return None


PVIEW = ('out', 'keys', 'regress', 'log', 'discs')


def compare_model_program(case, got, mo):
    if mo is None:
        return None
    bad = 'error' in mo
    sil = silent_ids(case)
    if not bad and case['autocommit']:
        mv = observable(mo, sil)
        bad = got['log'] != mv['log'] or got['discs'] != mv['discs'] or got['declared'] != mo['declared']
    elif not bad:
        bad = (mo['bad'] or got['aborted'] != mo['aborted'] or got['declared'] != mo['declared']
               or got['pending'] != mo['pending'] or got['pending_paths'] != [p[1] for p in mo['pending']]
               or len(got['commits']) != len(mo['commits'])
               or any(any(g[k] != observable(m, sil)[k] for k in PVIEW) for g, m in zip(got['commits'], mo['commits'])))
    if bad:
        return {'case': case, 'impl': {k: v for k, v in got.items()}, 'model': mo}
    return None


def gen_program(rng):
    auto = rng.random() < 0.12
    nspec = rng.choice([2, 3, 3, 4, 5])
    specs = (rng.choice(SPEC_FAMILIES) * 2)[:nspec] if rng.random() < 0.8 else list(range(1, nspec + 1))
    phases = rng.choice([[0], [0], [0, 10], [-10, 0], [0, 10], [-10, 0, 10]])
    ndisc = rng.choice([1, 2, 2, 3])
    pnone = rng.choice([0.15, 0.3, 0.5])
    pdef = rng.choice([0, 0, 0.15, 0.3])
    pbody = rng.choice([0, 0.15, 0.3])
    pcommit = rng.choice([0, 0.05, 0.12, 0.2])
    pcall = rng.choice([0, 0.2, 0.3, 0.45])
    counter = [0]
    budget = [rng.choice([4, 6, 8, 10, 12, 14])]

    def declare(depth, in_body, min_phase):
        i = counter[0]; counter[0] += 1; budget[0] -= 1
        disc = None if rng.random() < pnone else rng.randint(1, ndisc)
        order = rng.choice(phases)
        if in_body and order < min_phase and rng.random() < 0.85:
            order = min_phase
        if disc is not None and rng.random() < pdef:
            other = rng.choice([None, rng.randint(1, ndisc)])
            dep = rng.randrange(0, max(1, counter[0] + 2))
            disc = {'dep': dep, 'a': disc, 'b': other} if rng.random() < 0.5 else {'dep': dep, 'a': other, 'b': disc}
        body = []
        if rng.random() < pcall:
            return {'op': 'declare', 'id': i, 'disc': disc, 'order': rng.choice(phases), 'body': [],
                    'call': 'none' if rng.random() < 0.65 else 'intr'}
        if depth < 3 and budget[0] > 0 and rng.random() < pbody:
            body = stmts(depth + 1, True, order, rng.choice([1, 1, 2]))
        return {'op': 'declare', 'id': i, 'disc': disc, 'order': order, 'body': body}

    def stmts(depth, in_body, min_phase, n):
        out = []
        for _ in range(n):
            if budget[0] <= 0:
                break
            r = rng.random()
            if r < pcommit and (auto or not in_body):
                out.append({'op': 'commit'})
            elif r < pcommit + 0.3 and depth < 4:
                budget[0] -= 1
                out.append({'op': 'include', 'spec': rng.choice(specs), 'rp': rng.choice([None, None, rng.randint(1, 3)]),
                            'body': stmts(depth + 1, in_body, min_phase, rng.choice([1, 2, 2, 3]))})
            else:
                out.append(declare(depth, in_body, min_phase))
        return out

    prog = stmts(0, False, -100, rng.choice([2, 3, 4, 5, 6, 8]))
    if not auto and rng.random() < 0.8:
        prog.append({'op': 'commit'})
    _fix_calls([x for x, _ in walk_prog(prog) if x['op'] == 'declare'])
    if not auto and _commit_under_prefix(prog, False):
        def strip(ss):
            for x in ss:
                if x['op'] == 'include':
                    x['rp'] = None
                    strip(x['body'])
        strip(prog)
    return {'via': 'program', 'autocommit': auto, 'prog': prog}


def model_input(case):
    if case['via'] == 'program':
        return {'prog': case['prog'], 'autocommit': case['autocommit']}
    return {'top': case['top']}


def impl(case):
    if case['via'] == 'program':
        return impl_program(case)
    if case['via'] == 'config':
        return impl_config(case, full=bool(case.get('full')))
    return impl_state(case)


VIEW = ('out', 'keys', 'regress', 'log')


def observable(res, silent):
    """what of a reference/model result can be seen on the implementation: executions of markers (no callable, no
    introspectable) leave no trace, so they are taken out of the log (and the thunk evaluation points, which are
    log lengths, are counted without them)"""
    if not silent:
        return res
    r = dict(res)
    full = list(res['log'])
    r['log'] = [i for i in full if i not in silent]
    if res.get('discs') is not None:
        r['discs'] = [d for d in res['discs'] if d[0] not in silent]
    if isinstance(res.get('evals'), dict):
        r['evals'] = {i: (len([x for x in full[:t] if x not in silent]), v) for i, (t, v) in res['evals'].items()}
    return r


def judge(case, got):
    """property oracle on one implementation trace -> violation dict or None"""
    if case['via'] == 'program':
        return judge_program(case, got)
    exp = observable(expected(case), silent_ids(case))
    if got.get('include_paths_wrong'):
        return {'case': case, 'impl': got, 'expected': spec_view(exp),
                'detail': 'Configurator.include did not give the nested configurator includepath + (spec,): '
                          'actions %s were declared with another include path' % got['include_paths_wrong']}
    same = all(got[k] == exp[k] for k in VIEW) and got['evals'] == spec_view(exp)['evals']
    if same:
        return None
    v = {'case': case, 'impl': got, 'expected': spec_view(exp)}
    if got['log'] != exp['log']:
        v['detail'] = 'executed actions / their order differ from what the statement demands'
    elif got['out'] != exp['out']:
        v['detail'] = 'commit outcome %s, the statement demands %s' % (got['out'], exp['out'])
    elif got['keys'] != exp['keys']:
        v['detail'] = 'conflict names %s, the contested discriminators are %s' % (got['keys'], exp['keys'])
    else:
        v['detail'] = 'refusal / thunk evaluation point differs'
    return v


def model_view(mo):
    return {k: mo.get(k) for k in VIEW + ('discs',)}


def compare_model(case, got, mo):
    if mo is None:
        return None
    if case['via'] == 'program':
        return compare_model_program(case, got, mo)
    mv = observable(mo, silent_ids(case)) if 'log' in mo else mo
    if 'error' in mo or not mo.get('wf') or any(got[k] != mv.get(k) for k in VIEW) or got['discs'] != mv.get('discs'):
        return {'case': case, 'impl': {k: got[k] for k in VIEW + ('discs',)}, 'model': mo}
    return None


# ------------------------------------------------------------------------------------------------
# generator

def gen_tree(rng, unique_labels):
    """include tree as a list of paths (root first)"""
    n = rng.choice([1, 2, 3, 3, 4, 4, 5, 6])
    fam = rng.choice(SPEC_FAMILIES)            # specs that are textual prefixes of one another
    paths = [[]]
    for k in range(1, n):
        parent = rng.choice(paths) if rng.random() < 0.6 else paths[-1]
        if unique_labels:
            free = [x for x in fam if all(x not in q for q in paths)]
            lab = rng.choice(free) if free and rng.random() < 0.75 else (k if rng.random() < 0.5 else 100 - k)
            if any(lab in q for q in paths):
                lab = 100 - k
        else:
            lab = rng.choice(fam) if rng.random() < 0.8 else rng.choice([1, 2, 3, 11, 20])
        p = parent + [lab]
        if p not in paths:
            paths.append(p)
    return paths


def _fix_calls(nodes):
    """a thunk must not read whether an unobservable marker has run: such a marker gets an introspectable"""
    deps = {n['disc']['dep'] for n in nodes if isinstance(n['disc'], dict)}
    for n in nodes:
        if n.get('call') == 'none' and n['id'] in deps:
            n['call'] = 'intr'


def gen_marker_case(rng):
    """a marker (no callable) resolved first, and a second action with its discriminator reaching resolution later:
    in a later phase, or appended by an executing action of the same or a later phase; include paths equal,
    deeper, shallower or unrelated"""
    paths = [[], [_SPEC_LABEL['inc']], [_SPEC_LABEL['inc'], _SPEC_LABEL['sub']], [_SPEC_LABEL['inc2']]]
    p0 = rng.choice(paths)
    p1 = rng.choice(paths)
    o0 = rng.choice([-10, 0])
    o1 = rng.choice([o0, o0 + 10, o0 + 10])
    marker = {'id': 0, 'disc': 1, 'order': o0, 'path': p0, 'adds': [], 'call': rng.choice(['none', 'none', 'intr'])}
    late = {'id': 1, 'disc': 1, 'order': o1, 'path': p1, 'adds': []}
    if rng.random() < 0.3:
        late['call'] = rng.choice(['none', 'intr'])
    extra = [{'id': 10 + k, 'disc': rng.choice([None, 2, 1]), 'order': rng.choice([o0, o1]), 'path': rng.choice(paths), 'adds': []}
             for k in range(rng.choice([0, 0, 1, 2]))]
    if rng.random() < 0.5:
        top = [marker, late] if rng.random() < 0.7 else [late, marker]
        top += extra
    else:
        parent = {'id': 2, 'disc': rng.choice([None, 2]), 'order': rng.choice([o0, o1]), 'path': rng.choice(paths), 'adds': [late]}
        top = [marker, parent] + extra
        if late['order'] < parent['order']:
            late['order'] = parent['order']
    rng.shuffle(extra)
    return {'via': rng.choice(['state', 'state', 'config']), 'top': top}


def gen_case(rng, via=None):
    via = via or ('config' if rng.random() < 0.3 else 'state')
    paths = gen_tree(rng, via == 'config')
    phases = rng.choice([[0], [0], [0, 10], [-10, 0], [0, 10], [-20, -10, 0, 10], [-10, 0, 10]])
    ndisc = rng.choice([1, 2, 2, 3])
    pnone = rng.choice([0.15, 0.3, 0.5])
    pdef = rng.choice([0, 0, 0.15, 0.3])
    padd = rng.choice([0, 0.1, 0.25, 0.4])
    ntop = rng.choice([1, 2, 3, 3, 4, 4, 5, 5, 6, 7, 8, 9])
    counter = [0]
    budget = [14]
    # a discriminator tends to live in one phase (as the directives do), with exceptions
    home = {d: rng.choice(phases) for d in range(1, ndisc + 1)}
    used = {}                     # discriminator -> include paths already used with it
    chain = rng.choice([0.0, 0.5, 0.8])
    pcall = rng.choice([0, 0.2, 0.3, 0.45])          # actions without a callable (markers / introspectable-only)

    def mk(depth, min_phase):
        i = counter[0]; counter[0] += 1; budget[0] -= 1
        r = rng.random()
        if r < pnone:
            disc, dval = None, None
        else:
            dval = rng.randint(1, ndisc)
            disc = dval
        if dval is not None and rng.random() < 0.8:
            order = home[dval]
        else:
            order = rng.choice(phases)
        if depth > 0 and order < min_phase and rng.random() < 0.85:
            order = min_phase          # most appended actions respect the documented caveat
        if disc is not None and rng.random() < pdef:
            other = rng.choice([None, rng.randint(1, ndisc)])
            dep = rng.randrange(0, max(1, counter[0] + 2))
            disc = {'dep': dep, 'a': disc, 'b': other} if rng.random() < 0.5 else {'dep': dep, 'a': other, 'b': disc}
        path = rng.choice(paths)
        if dval is not None:
            prior = used.setdefault(dval, [])
            if prior and rng.random() < chain:
                # comparable with what is there: strictly below or strictly above an earlier declaration
                base = rng.choice(prior)
                rel = [p for p in paths if p != base and (p[:len(base)] == base or base[:len(p)] == p)]
                if rel:
                    path = rng.choice(rel)
            prior.append(path)
        node = {'id': i, 'disc': disc, 'order': order, 'path': list(path), 'adds': []}
        if rng.random() < pcall:
            node['call'] = 'none' if rng.random() < 0.65 else 'intr'
            if rng.random() < 0.5:
                node['order'] = rng.choice(phases)     # markers meet later/earlier phases of their discriminator
            return node
        if depth < 2 and budget[0] > 0 and rng.random() < padd:
            for _ in range(rng.choice([1, 1, 2, 3])):
                if budget[0] > 0:
                    node['adds'].append(mk(depth + 1, order))
        return node

    top = [mk(0, -100) for _ in range(ntop)]
    _fix_calls(list(walk(top)))
    case = {'via': via, 'top': top}
    if via == 'config' and rng.random() < 0.15:
        case['full'] = True
    return case


def _textual_prefix_pair(nds):
    """two actions with the same plain discriminator whose include chains diverge although one chain, joined into
    one string, is a textual prefix of the other (what a character-wise comparison would take for nesting)"""
    for x in nds:
        for y in nds:
            if x is not y and x['disc'] is not None and x['disc'] == y['disc']:
                px, py = x['path'], y['path']
                if py[:len(px)] != px:
                    jx, jy = '/'.join(map(spec_name, px)), '/'.join(map(spec_name, py))
                    if jx != jy and jy.startswith(jx):
                        return True
    return False


def nontrivial(case):
    discs = {}
    for n in walk(case['top']):
        d = n['disc']
        vals = [d['a'], d['b']] if isinstance(d, dict) else [d]
        for v in set(vals):
            if v is not None:
                discs[v] = discs.get(v, 0) + 1
    return any(c >= 2 for c in discs.values()) or any(n['adds'] for n in walk(case['top']))


def shrink_case(case, pred):
    def still(c):
        return well_formed(c) and pred(c)
    return vfutil.shrink(case, still, max_steps=1500)


def unknown_violation(case):
    v = judge(case, impl(case))
    return bool(v) and not v.get('finding')


# ------------------------------------------------------------------------------------------------

SCOPE_PATHS = [[], [_SPEC_LABEL['inc']], [_SPEC_LABEL['inc'], _SPEC_LABEL['sub']], [_SPEC_LABEL['inc2']]]      # 'inc2' is a sibling of 'inc', not below it
SCOPE_ATOMS = [(d, o, p) for d in (None, 1, 2) for o in (0, 10) for p in range(4)]


SCOPE_ATOMS_CALL = SCOPE_ATOMS + [a + ('none',) for a in SCOPE_ATOMS]


def scope_node(i, a, adds=()):
    n = {'id': i, 'disc': a[0], 'order': a[1], 'path': list(SCOPE_PATHS[a[2]]), 'adds': list(adds)}
    if len(a) > 3:
        n['call'] = a[3]
    return n


def scope_cases(maxsize):
    """every declaration list of <= maxsize actions over {None,1,2} x phases {0,10} x the 4-node include tree x
    {callable, no callable}"""
    for size in range(1, maxsize + 1):
        for combo in itertools.product(SCOPE_ATOMS_CALL, repeat=size):
            yield {'via': 'state', 'top': [scope_node(i, a) for i, a in enumerate(combo)]}


def run(ctx):
    rng = ctx.rng
    n = ctx.n(12000, 250000)
    cases = [c for _, c in ctx.corpus() if well_formed(c)]
    ncorpus = len(cases)
    scope = list(scope_cases(ctx.n(2, 3)))
    cases += scope
    ncorpus += len(scope)
    cases += [gen_case(rng) for _ in range(n)]
    cases += [gen_marker_case(rng) for _ in range(ctx.n(600, 6000))]
    cases += [gen_program(rng) for _ in range(ctx.n(2500, 40000))]
    model = ctx.run_model([model_input(c) for c in cases]) if ctx.driver_path else [None] * len(cases)
    mism, viol, agree = [], [], 0
    seen, nontriv = set(), set()
    dist = {'via': {}, 'outcome': {}, 'declared_actions': {}, 'phases_used': {}, 'with_adds': 0, 'with_deferred': 0,
            'shared_discriminator': 0, 'overridden_some': 0, 'executed_len': {}, 'static_spec_checked': 0,
            'late_siblings_discarded': 0, 'textual_prefix_divergent_chains': 0, 'without_callable': 0, 'marker_then_same_disc_later': 0, 'include_depth_max': {}, 'full_configurator': 0, 'conflict_key_count': {},
            'program': {'autocommit': 0, 'commits': {}, 'reincluded_spec': 0, 'include_in_action_body': 0, 'aborted': 0,
                        'commit_outcomes': {}, 'declared': {}, 'with_route_prefix': 0, 'nesting_max': {}}}
    for case, mo in zip(cases, model):
        got = impl(case)
        m = compare_model(case, got, mo)
        if m:
            mism.append(m)
        elif mo is not None:
            agree += 1
        v = judge(case, got)
        if v:
            viol.append(v)
        # the driver's own declarative spec (static programs) must agree with the model
        if mo is not None and mo.get('spec') is not None:
            dist['static_spec_checked'] += 1
            sp = mo['spec']
            if any(sp[k] != mo[k] for k in ('out', 'keys', 'log')):
                mism.append({'case': case, 'impl': 'lean model vs lean spec', 'model': mo})
        key = json.dumps(case, sort_keys=True)
        if case['via'] == 'program':
            pd = dist['program']
            vfutil.bump(dist['via'], 'program')
            sts = list(walk_prog(case['prog']))
            if case['autocommit']: pd['autocommit'] += 1
            vfutil.bump(pd['commits'], len(got.get('commits', [])))
            for c in got.get('commits', []): vfutil.bump(pd['commit_outcomes'], c['out'])
            if got.get('aborted'): pd['aborted'] += 1
            vfutil.bump(pd['declared'], min(len(got['declared']), 15))
            incs = [x for x, _ in sts if x['op'] == 'include']
            if len({x['spec'] for x in incs}) < len(incs): pd['reincluded_spec'] += 1
            if any(x['op'] == 'include' and b for x, b in sts): pd['include_in_action_body'] += 1
            if any(d[2] for d in got['declared']): pd['with_route_prefix'] += 1
            vfutil.bump(pd['nesting_max'], max([len(d[1]) for d in got['declared']] or [0]))
            if key not in seen:
                seen.add(key)
                if len(got['declared']) >= 2 and (incs or len(got.get('commits', [])) > 1):
                    nontriv.add(key)
            continue
        nds = list(walk(case['top']))
        vfutil.bump(dist['via'], case['via'] + ('+full' if case.get('full') else ''))
        vfutil.bump(dist['outcome'], got['out'])
        vfutil.bump(dist['declared_actions'], min(len(nds), 15))
        vfutil.bump(dist['phases_used'], len({x['order'] for x in nds}))
        vfutil.bump(dist['executed_len'], min(len(got['log']), 12))
        vfutil.bump(dist['include_depth_max'], max(len(x['path']) for x in nds))
        if got['out'] == 'conflict':
            vfutil.bump(dist['conflict_key_count'], len(got['keys']))
        if any(x['adds'] for x in nds): dist['with_adds'] += 1
        if any('call' in x for x in nds): dist['without_callable'] += 1
        if _textual_prefix_pair(nds): dist['textual_prefix_divergent_chains'] += 1
        if any('call' in x and x['disc'] is not None and any(y is not x and y['disc'] == x['disc'] and 'call' not in y and
               (y['order'] > x['order'] or y in [k for z in nds for k in z['adds']]) for y in nds) for x in nds):
            dist['marker_then_same_disc_later'] += 1
        if any(isinstance(x['disc'], dict) for x in nds): dist['with_deferred'] += 1
        if expected(case)['late_siblings'] and got['out'] != 'conflict': dist['late_siblings_discarded'] += 1
        if got['out'] == 'ok' and len(got['log']) < len(nds): dist['overridden_some'] += 1
        if key not in seen:
            seen.add(key)
            if nontrivial(case):
                nontriv.add(key)
                dist['shared_discriminator'] += 1
    unknown = [v for v in viol if not v.get('finding')]
    if unknown:
        unknown.sort(key=lambda v: len(json.dumps(v['case'])))
        small = shrink_case(unknown[0]['case'], unknown_violation)
        got = impl(small)
        sv = judge(small, got)
        if sv and not sv.get('finding'):
            viol = [sv] + viol
    return {'evaluations': len(cases), 'distinct_nontrivial': len(nontriv), 'rule': RULE, 'agreeing': agree,
            'samples': cases[ncorpus:ncorpus + 3] + cases[-2:], 'mismatches': mism[:20], 'violations': viol[:40],
            'distribution': dist, 'exhaustive': True,
            'notes': ['exhaustive sub-scope run first: every declaration list of <= %d actions over discriminators '
                      '{None,1,2} x phases {0,10} x include paths {(),(1),(1,2),(3)} (%d programs); the rest is the seeded random stream' % (ctx.n(2, 3), len(scope)),
                      'every case is judged by harness/c04.py:expected (the statement read as a trace semantics), '
                      'independently of the Lean build, and compared with the Lean model through drv_c04'],
            'assumptions': ['action callables only log their id and append actions; they do not raise',
                            'discriminators are compared by ==/hash (strings d<n>); include-path labels are strings whose '
                            'lexicographic order is the numeric order of the model labels'],
            'trusted_base': ['Python tuple/str comparison, list.sort stability, itertools.groupby, dict ordering (modelled, not verified)']}


def search(ctx):
    """small-scope search for an input on which the implementation violates the property: every list of <= 4
    actions over discriminators {None, 1, 2} x include paths of the 4-node tree {(), (1), (1,2), (3)} x phases
    {0, 10}, in every declaration order, with at most one action that appends one further action; then a
    seeded random stream.  Implementation vs the reference reading only (no Lean)."""
    atoms = SCOPE_ATOMS
    viol, searched, exhaustive = [], 0, True

    def try_case(case):
        nonlocal searched
        searched += 1
        v = judge(case, impl(case))
        if v and not v.get('finding'):
            small = shrink_case(case, unknown_violation)
            sv = judge(small, impl(small))
            viol.append(sv if sv and not sv.get('finding') else v)
            return True
        return False

    node = scope_node

    for size in (1, 2, 3, 4):
        for combo in itertools.product(atoms if size == 4 else SCOPE_ATOMS_CALL, repeat=size):
            if ctx.time_left() < 60 or len(viol) >= 3:
                exhaustive = False
                break
            top = [node(i, a) for i, a in enumerate(combo)]
            if try_case({'via': 'state', 'top': top}) and len(viol) >= 3:
                break
            if size <= 2:
                for k in range(size):
                    for a in atoms:
                        t2 = [node(i, c, [node(9, a)] if i == k else ()) for i, c in enumerate(combo)]
                        try_case({'via': 'state', 'top': t2})
                        if size == 1:
                            try_case({'via': 'config', 'top': t2})
        if len(viol) >= 3:
            exhaustive = False
            break
    if not viol:
        exhaustive = exhaustive and True
        for _ in range(ctx.n(30000, 200000)):
            if ctx.time_left() < 45 or viol:
                break
            try_case(gen_case(ctx.rng))
    return {'violations': viol, 'searched': searched, 'exhaustive': exhaustive and not viol}


def replay(ctx, rep):
    case = rep.get('case')
    if case is None:
        return {'violates': False, 'note': 'replay names broken obligations only', 'broken': rep.get('broken_obligations')}
    got = impl(case)
    mo = ctx.run_model([model_input(case)])[0] if ctx.driver_path else None
    v = judge(case, got)
    if case['via'] == 'program':
        return {'case': case, 'impl': got, 'model': mo, 'mismatch': compare_model(case, got, mo),
                'detail': (v or {}).get('detail'), 'violates': bool(v)}
    return {'case': case, 'impl': got, 'model': mo, 'spec': spec_view(expected(case)),
            'mismatch': compare_model(case, got, mo), 'finding': (v or {}).get('finding'),
            'detail': (v or {}).get('detail'), 'violates': bool(v)}
