"""C16 — static views serve only files inside their root.

Correspondence of lean/PyramidModel/Static.lean with pyramid.static.static_view (and posixpath.join/normpath,
_secure_path), and the property itself evaluated on the implementation by an oracle that never looks at the model.

A temporary directory (tempfile.mkdtemp, outside /repo and /verif, removed before the check returns) holds
  T/site/...            the filesystem root                    T/secret.txt, T/passwd     sentinels next to it
  T/<pkg>/static/...    the package-relative root              T/site2/..., T/site.gz     siblings whose names extend the root's
  T/<pkg>/secret.txt, T/<pkg>/static2/secret.txt               sentinels next to the package root
Every file has unique bytes, so the body of a 200 response identifies the file that was read.

Case shapes (JSON; `<T>`, `<ROOT>`, `<PKG>` in pieces are replaced by the absolute paths at run time so that cases
are independent of the random directory name):
  {"mount":"sub"|"plain","kind":"fs"|"pkg","tree":n,"encs":k,"pieces":[wsgi str,…],"ae":hdr|null,"qs":str}
        raw PATH_INFO = ''.join(pieces) (a WSGI string: chars < 256) through Router.__call__
        sub   = config.add_static_view(name, root)                      (route `<name>/*subpath`, use_subpath=True)
        plain = config.add_view(static_view(root, use_subpath=False))   in a traversal application
  {"mount":"direct","kind":…,"tree":n,"encs":k,"tuple":[str,…],"slash":b,"ae":…}
        static_view(root, use_subpath=True)(context, request) with request.subpath = tuple
  {"op":"np","a":str,"b":str}        posixpath.join / normpath against the model's pjoin / normpath
  {"op":"secure","tuple":[str,…]}    _secure_path against securePath
"""
import io, itertools, json, mimetypes, os, posixpath, random, re, shutil, sys, tempfile, urllib.parse

import vfutil
from vfutil import bump

RULE = ('request cases: raw PATH_INFO assembled from names of the served tree and traversal-significant pieces '
        '(.., ., %2e%2e, %2f, \\, %5c, NUL, %00, //, absolute paths of the tree / the root / the sentinel, overlong '
        'and truncated UTF-8, double encoding, newline, @@) x mounting (add_static_view route, plain traversal view, '
        'direct call with an arbitrary subpath tuple) x root kind (filesystem, package) x content_encodings '
        '(none, gzip, all) x Accept-Encoding header; a request case is non-trivial when its path/tuple contains at '
        'least one traversal-significant piece (anything but plain names separated by single slashes); np/secure '
        'cases are non-trivial when they contain "..", an empty component, or a leading slash in b; distinct = '
        'distinct canonical case JSON')

ENC_SETS = [[], ['gzip'], ['gzip', 'br', 'bzip2', 'xz', 'compress']]
ALL_ENCS = ['gzip', 'compress', 'bzip2', 'xz', 'br']
PREFIXES = {'fs': 'static', 'pkg': 'assets/v 1', 'pkgslash': 'static', 'pkgroot': 's', 'pkgnested': 'static', 'rel': 'static'}
# root kinds: filesystem root; package specs without / with trailing slash; the package ROOT (`pkg:`, empty docroot); a nested
# directory; a root given relative to the package
KIND_SPEC = {'pkg': '<PKG>:static', 'pkgslash': '<PKG>:static/', 'pkgroot': '<PKG>:', 'pkgnested': '<PKG>:static/sub'}
KIND_DROOT = {'pkg': ['static'], 'pkgslash': ['static'], 'pkgroot': [], 'pkgnested': ['static', 'sub'], 'rel': ['static']}
# asset overrides, in the order of the override_asset calls (the LAST call is consulted first): (to_override, override_with)
OV_SETS = [
    [],
    [('<PKG>:static/', '<T>/ovdir/')],                                         # directory <- filesystem directory, trailing slash
    [('<PKG>:static/', '<T>/ovdir')],                                          # … without trailing slash
    [('<PKG>', '<T>/ovdir/')],                                                 # the whole package <- filesystem directory
    [('<PKG>:static/', '<PKG2>:alt/')],                                        # directory <- package directory
    [('<PKG>:static/file.txt', '<PKG2>:single.css')],                          # one file <- package file
    [('<PKG>:static/file.txt', '<T>/ovdir/only-ov.txt')],                      # one file <- filesystem file
    [('<PKG>:static/', '<T>/ovdir/'), ('<PKG>:static/', '<PKG2>:alt/')],       # several: most recent first, fall-through
    [('<PKG>:', '<PKG2>:'), ('<PKG>:static/sub/', '<T>/ovdir/sub/')],          # whole package <- whole package, and a nested directory
]
OV_FILES = [('ovdir/file.txt', 333), ('ovdir/only-ov.txt', 90), ('ovdir/index.html', 140), ('ovdir/sub/a.css', 77), ('ovdir/sub/index.html', 88),
            ('ovdir/static/file.txt', 99), ('ovdir/static/index.html', 98), ('ovdir/big.txt.gz', 60),
            ('<PKG2>/alt/file.txt', 222), ('<PKG2>/alt/extra.txt', 91), ('<PKG2>/alt/sub/index.html', 92), ('<PKG2>/single.css', 93),
            ('<PKG2>/static/passwd', 94), ('ovdir/\\x', 95), ('<PKG>/c:/w.txt', 96)]
INDEX = 'index.html'
SENTINEL = b'SENTINEL-OUTSIDE-ROOT:'


def codes(s):
    return [ord(c) for c in s]


def uncodes(cs):
    return None if cs is None else ''.join(chr(c) for c in cs)


# ------------------------------------------------------------------------------------------------
# the tree

def tree_layout(ts):
    """deterministic from the tree seed: [(relative path, 'd'|'f', size)] of one content root"""
    r = random.Random(ts * 7919 + 13)
    L = [
        ('index.html', 'f', 120), ('file.txt', 'f', 300), ('file.txt.gz', 'f', 90),
        ('big.txt', 'f', 5000), ('big.txt.gz', 'f', 700), ('small.txt', 'f', 80), ('small.txt.gz', 'f', 200),
        ('tie.txt', 'f', 150), ('tie.txt.gz', 'f', 150), ('only.js.gz', 'f', 100),
        ('multi.css', 'f', 900), ('multi.css.gz', 'f', 300), ('multi.css.br', 'f', 200), ('multi.css.bz2', 'f', 250),
        ('multi.css.xz', 'f', 260), ('multi.css.Z', 'f', 800),
        ('secret.txt', 'f', 100), ('passwd', 'f', 100),
        ('sub', 'd', 0), ('sub/index.html', 'f', 400), ('sub/index.html.gz', 'f', 100), ('sub/a.css', 'f', 100),
        ('sub/deep', 'd', 0), ('sub/deep/x.txt', 'f', 100), ('sub/secret.txt', 'f', 100),
        ('noindex', 'd', 0), ('noindex/y.txt', 'f', 100),
        ('sp ace', 'd', 0), ('sp ace/\u00fc.txt', 'f', 100), ('new\nline.txt', 'f', 100), ('nl\n', 'd', 0), ('nl\n/index.html', 'f', 100), ('\u65e5\u672c', 'f', 100),
        ('back\\slash.txt', 'f', 100), ('..\\up', 'f', 100), ('%2e%2e', 'd', 0), ('%2e%2e/in.txt', 'f', 100),
        ('..%2fx', 'f', 100), ('...', 'd', 0), ('.../t.txt', 'f', 100), ('..a', 'f', 100), ('a..', 'f', 100),
        ('.hidden', 'f', 100), ('@@at.txt', 'f', 100), ('q?x', 'f', 100), ('semi;colon', 'f', 100), ('c:', 'd', 0),
        ('c:/w.txt', 'f', 100), ('%00', 'f', 100), ('%5c', 'f', 100), ('site2', 'd', 0), ('site2/secret.txt', 'f', 100),
        # repaired F-C16a: candidates that are directories must be treated as missing
        ('dirindex', 'd', 0), ('dirindex/index.html', 'd', 0),
        ('huge.txt', 'f', 9000), ('huge.txt.gz', 'd', 0),
    ]
    names = ['a', 'b', 'img', 'x.txt', 'y.js', 'z', 'etc', 'tmp', 'static', 'site', 'index.html']
    for d in range(r.randint(2, 4)):
        dn = r.choice(names) + str(d)
        L.append((dn, 'd', 0))
        if r.random() < 0.6:
            L.append((dn + '/index.html', 'f', r.randint(64, 400)))
        for _ in range(r.randint(0, 3)):
            fn = r.choice(names) + r.choice(['', '.txt', '.js'])
            if (dn + '/' + fn, 'f') not in [(p, k) for p, k, _ in L]:
                sz = r.randint(64, 600)
                L.append((dn + '/' + fn, 'f', sz))
                if r.random() < 0.5:
                    L.append((dn + '/' + fn + '.gz', 'f', r.choice([sz, r.randint(64, 600)])))
    seen, out = set(), []
    for p, k, s in L:
        if p not in seen:
            seen.add(p); out.append((p, k, s))
    return out


class Tree:
    """the temporary directory; truth about it is kept in `entries` (absolute path -> ('d'|'f', size))"""

    def __init__(self, ts):
        self.ts = ts
        self.T = os.path.realpath(tempfile.mkdtemp(prefix='c16_'))
        self.pkgname = 'c16pkg_%d_%d' % (os.getpid(), ts)
        self.pkg2name = 'c16ovpkg_%d_%d' % (os.getpid(), ts)
        self.pkgdir = self.T + '/' + self.pkgname
        self.root = {'fs': self.T + '/site', 'pkg': self.pkgdir + '/static', 'pkgslash': self.pkgdir + '/static', 'pkgroot': self.pkgdir,
                     'pkgnested': self.pkgdir + '/static/sub', 'rel': self.pkgdir + '/static'}
        self.entries, self.by_body = {}, {}
        self.apps, self.views = {}, {}
        layout = tree_layout(ts)
        self.layout = layout
        os.mkdir(self.pkgdir)
        self._file(self.pkgdir + '/__init__.py', b'# c16 scratch package\n')
        for kind in ('fs', 'pkg'):
            os.mkdir(self.root[kind])
            for p, k, size in layout:
                full = self.root[kind] + '/' + p
                if k == 'd':
                    os.mkdir(full)
                else:
                    head = ('[C16:%s:%s]' % (kind, p)).encode('utf-8')
                    self._file(full, head + bytes((i * 31 + len(head)) % 251 for i in range(max(0, size - len(head)))))
        for p in ('secret.txt', 'passwd', 'site2/secret.txt', 'site2/index.html', 'site.gz', 'site/../sitex',
                  self.pkgname + '/secret.txt', self.pkgname + '/static2/secret.txt', self.pkgname + '/static.gz',
                  'ovdir2/secret.txt', 'ovdirx', 'ovdir.gz', self.pkg2name + '/secret.txt', self.pkg2name + '/alt2/secret.txt', self.pkg2name + '/altx'):
            full = posixpath.normpath(self.T + '/' + p)
            os.makedirs(os.path.dirname(full), exist_ok=True)
            self._file(full, SENTINEL + p.encode() + b'\n' + b'x' * 40)
        os.makedirs(self.T + '/' + self.pkg2name, exist_ok=True)
        self._file(self.T + '/' + self.pkg2name + '/__init__.py', b'# c16 scratch package (override source)\n')
        for p, size in OV_FILES:
            full = self.T + '/' + p.replace('<PKG2>', self.pkg2name).replace('<PKG>', self.pkgname)
            os.makedirs(os.path.dirname(full), exist_ok=True)
            head = ('[C16:override:%s]' % p).encode('utf-8')
            self._file(full, head + bytes((i * 17 + len(head)) % 251 for i in range(max(0, size - len(head)))))
        for dirpath, dirs, files in os.walk(self.T):
            self.entries[dirpath] = ('d', os.path.getsize(dirpath))
            for f in files:
                full = dirpath + '/' + f
                self.entries[full] = ('f', os.path.getsize(full))
        sys.path.insert(0, self.T)

    def _file(self, full, data):
        with open(full, 'wb') as f:
            f.write(data)
        if data in self.by_body:
            raise RuntimeError('tree contents are not unique')
        self.by_body[data] = full

    def isdir(self, p):
        return self.entries.get(p, ('', 0))[0] == 'd'

    def isfile(self, p):
        return self.entries.get(p, ('', 0))[0] == 'f'

    def fs_line(self):
        return {'op': 'fs', 'entries': [[codes(p), k == 'd', s] for p, (k, s) in sorted(self.entries.items())]}

    def expand(self, s, kind):
        return s.replace('<T>', self.T).replace('<ROOT>', self.root[kind]).replace('<PKG2>', self.pkg2name).replace('<PKG>', self.pkgname)

    def close(self):
        for a in self.apps.values():
            pass
        self.apps.clear(); self.views.clear()
        try:
            sys.path.remove(self.T)
        except ValueError:
            pass
        for m in [m for m in sys.modules if m in (self.pkgname, self.pkg2name) or m.startswith(self.pkgname + '.')]:
            del sys.modules[m]
        shutil.rmtree(self.T, ignore_errors=True)


_TREES = {}


def get_tree(ts):
    if ts not in _TREES:
        _TREES[ts] = Tree(ts)
    return _TREES[ts]


def close_trees():
    for t in list(_TREES.values()):
        t.close()
    _TREES.clear()


# ------------------------------------------------------------------------------------------------
# the real code

class Eater:
    """a resource that accepts every name (so that the default view is reached for every path)"""
    __name__ = ''
    __parent__ = None

    def __getitem__(self, name):
        return self


def root_spec(tree, kind):
    if kind == 'fs':
        return tree.root['fs']
    if kind == 'rel':
        return 'static'                             # relative to the package given to the Configurator / static_view
    return KIND_SPEC[kind].replace('<PKG>', tree.pkgname)


def ov_pairs(tree, case):
    """the override_asset calls of a case, expanded"""
    X = lambda x: x.replace('<T>', tree.T).replace('<PKG2>', tree.pkg2name).replace('<PKG>', tree.pkgname)
    return [(X(a), X(b)) for a, b in OV_SETS[case.get('ov', 0)]]


def get_app(tree, mount, kind, encs, ov=0):
    """(wsgi app | None, static_view instance) for a configuration; built once per tree"""
    key = (mount, kind, encs, ov)
    if key in tree.apps:
        return tree.apps[key], tree.views[key]
    from pyramid.config import Configurator
    from pyramid.static import static_view
    ce = ENC_SETS[encs]
    pkgmod = __import__(tree.pkgname) if kind == 'rel' else None
    if mount == 'sub':
        cfg = Configurator(package=pkgmod) if pkgmod else Configurator()
        cfg.add_static_view(PREFIXES[kind], root_spec(tree, kind), content_encodings=ce)
        cfg.commit()
        view = [i['introspectable']['callable'] for i in cfg.registry.introspector.get_category('views')
                if isinstance(i['introspectable']['callable'], static_view)][0]
    elif mount == 'plain':
        eater = Eater()
        cfg = Configurator(root_factory=lambda request: eater)
        view = static_view(root_spec(tree, kind), use_subpath=False, content_encodings=ce, package_name=tree.pkgname if kind == 'rel' else None)
        cfg.add_view(view)
    else:
        view = static_view(root_spec(tree, kind), use_subpath=True, content_encodings=ce, package_name=tree.pkgname if kind == 'rel' else None)
        cfg = None
    app = None
    if cfg is not None:
        for a, b in ov_pairs(tree, {'ov': ov}):
            cfg.override_asset(to_override=a, override_with=b)
            cfg.commit()
        app = cfg.make_wsgi_app()
    tree.apps[key], tree.views[key] = app, view
    return app, view


def base_environ(path, qs, ae):
    env = {'REQUEST_METHOD': 'GET', 'SCRIPT_NAME': '', 'PATH_INFO': path, 'QUERY_STRING': qs or '',
           'SERVER_NAME': 'localhost', 'SERVER_PORT': '80', 'HTTP_HOST': 'localhost:80', 'SERVER_PROTOCOL': 'HTTP/1.0',
           'wsgi.version': (1, 0), 'wsgi.url_scheme': 'http', 'wsgi.input': io.BytesIO(b''),
           'wsgi.errors': io.StringIO(), 'wsgi.multithread': False, 'wsgi.multiprocess': False, 'wsgi.run_once': False}
    if ae is not None:
        env['HTTP_ACCEPT_ENCODING'] = ae
    return env


def raw_path(case, tree):
    return ''.join(tree.expand(p, case['kind']) for p in case['pieces'])


def raw_tuple(case, tree):
    return [tree.expand(p, case['kind']) for p in case['tuple']]


def canon_response(tree, status, headers, body):
    h = {k.lower(): v for k, v in headers}
    code = int(status.split()[0])
    if code == 200:
        return {'out': 'file', 'path': tree.by_body.get(body), 'enc': h.get('content-encoding'),
                'vary': 'accept-encoding' in [x.strip().lower() for x in h.get('vary', '').split(',')],
                'sentinel': SENTINEL in body, 'len': len(body)}
    if code == 404:
        return {'out': 'notfound'}
    if code in (301, 302, 303, 307, 308):
        return {'out': 'redirect', 'code': code, 'location': h.get('location')}
    return {'out': 'status:%d' % code}


def canon_exc(e):
    from pyramid.exceptions import URLDecodeError
    if isinstance(e, URLDecodeError):
        return {'out': 'urldecode'}
    if isinstance(e, UnicodeEncodeError):
        return {'out': 'unicodeencode'}
    if isinstance(e, ValueError) and 'absolute path in a resource path' in str(e):
        return {'out': 'valueerror'}
    if isinstance(e, IsADirectoryError):
        return {'out': 'isdir', 'path': e.filename if isinstance(e.filename, str) else None}
    return {'out': 'raised:' + type(e).__name__, 'msg': str(e)[:120]}


def impl(case):
    tree = get_tree(case['tree'])
    app, view = get_app(tree, case['mount'], case['kind'], case['encs'], case.get('ov', 0))
    try:
        if case['mount'] == 'direct':
            from pyramid.request import Request
            from pyramid.httpexceptions import HTTPException
            req = Request(base_environ('/d/' if case['slash'] else '/d', '', case.get('ae')))
            req.subpath = tuple(raw_tuple(case, tree))
            try:
                resp = view(None, req)
            except HTTPException as e:
                resp = e
            body = b''
            if resp.status_int == 200:
                it = resp.app_iter
                try:
                    body = b''.join(it)
                finally:
                    if hasattr(it, 'close'):
                        it.close()
            return canon_response(tree, resp.status, resp.headerlist, body)
        got = {}

        def start_response(status, headers, exc_info=None):
            got['status'], got['headers'] = status, headers

        it = app(base_environ(raw_path(case, tree), case.get('qs'), case.get('ae')), start_response)
        try:
            body = b''.join(it)
        finally:
            if hasattr(it, 'close'):
                it.close()
        return canon_response(tree, got['status'], got['headers'], body)
    except Exception as e:          # noqa
        return canon_exc(e)


# ------------------------------------------------------------------------------------------------
# the oracle: the property stated on the observable outputs; independent of the model

_ELEM = re.compile(r"^[ \t]*([A-Za-z0-9!#$%&'*+.^_`|~-]+)[ \t]*(?:;[ \t]*[qQ]=(0(?:\.[0-9]{0,3})?|1(?:\.0{0,3})?))?[ \t]*$")


def parse_accept_encoding(h):
    """RFC 7231 5.3.4: None = no usable header; else {coding(lower): q}"""
    if h is None:
        return None
    out = {}
    for el in h.split(','):
        if el.strip(' \t') == '':
            continue
        m = _ELEM.match(el)
        if not m:
            return None
        out.setdefault(m.group(1).lower(), float(m.group(2)) if m.group(2) else 1.0)
    return out


def client_accepts(parsed, enc):
    if parsed is None:
        return False
    if enc.lower() in parsed:
        return parsed[enc.lower()] > 0
    if '*' in parsed:
        return parsed['*'] > 0
    return False


def accepted_list(ae):
    p = parse_accept_encoding(ae)
    return None if p is None else [e for e in ALL_ENCS if client_accepts(p, e)]


def exts_of(enc):
    return [ext for ext, e in mimetypes.encodings_map.items() if e == enc]


def proper(s):
    return s not in ('', '.', '..') and '/' not in s and '\x00' not in s


def normalise(text):
    """the documented normalisation, written again: empty and '.' segments vanish, '..' removes the segment before
    it, never climbing above the start"""
    out = []
    for s in text.split('/'):
        if s in ('', '.'):
            continue
        if s == '..':
            out[:] = out[:-1]
        else:
            out.append(s)
    return out


def ov_declared(tree, case):
    """(directories, files) the overrides of the case were declared with — only a package-relative view sees them"""
    dirs, files = [], []
    if case['kind'] == 'fs':
        return dirs, files
    for a, b in ov_pairs(tree, case):
        path = a.split(':', 1)[1] if ':' in a else ''
        target = b.rstrip('/') if b.startswith('/') else (tree.T + '/' + b.replace(':', '/', 1)).rstrip('/')
        (dirs if path == '' or path.endswith('/') else files).append(target)
    return dirs, files


def ov_resolve(tree, case, parts):
    """the OS path that `parts` (components below the view's root) designate: the most recent override declared for it in
    which it exists, else the root's own (written from the documentation of override_asset, not from the model)"""
    own = tree.root[case['kind']] + ''.join('/' + x for x in parts)
    if case['kind'] == 'fs' or not case.get('ov'):
        return own
    name = '/'.join(KIND_DROOT[case['kind']] + list(parts))
    for a, b in reversed(ov_pairs(tree, case)):
        path = a.split(':', 1)[1] if ':' in a else ''
        src = b.rstrip('/') if b.startswith('/') else (tree.T + '/' + b.replace(':', '/', 1)).rstrip('/')
        if path == '' or path.endswith('/'):
            if not name.startswith(path):
                continue
            rest = name[len(path):]
            cand = src + ('/' + rest if rest else '')
        else:
            if name != path:
                continue
            cand = src
        if cand in tree.entries:
            return cand
    return own


def designate(tree, case, segs, slash):
    """what the property demands for a proper tuple: ('redirect',) | ('serve', acceptable [(path, enc)], directories)"""
    d = ov_resolve(tree, case, segs)
    if tree.isdir(d):
        if not slash:
            return ('redirect',)
        tparts = list(segs) + [INDEX]
    else:
        tparts = list(segs)
    parsed = parse_accept_encoding(case.get('ae'))
    cands = [(ov_resolve(tree, case, tparts), None)]
    for enc in ENC_SETS[case['encs']]:
        for ext in exts_of(enc):
            if client_accepts(parsed, enc) and tparts:
                cands.append((ov_resolve(tree, case, tparts[:-1] + [tparts[-1] + ext]), enc))
    return ('serve', [c for c in cands if tree.isfile(c[0])], [c[0] for c in cands if tree.isdir(c[0])])


def oracle(case, got, tree):
    """None, or {'detail':…, 'expected':…[, 'finding':…]}; no known-finding class is left (F-C16a/b/f/g/h are repaired)"""
    return oracle0(case, got, tree)


def win_absolute_name(case, tree):
    """the class of the repaired F-C16h (an unguarded pkg_resources call raised; kept for the notes): a package-relative view and a resource name (docroot + normalised request segments, also below an
    override prefix) that is absolute for Windows but not for POSIX - pkg_resources raises ValueError for those"""
    import ntpath
    if case['kind'] == 'fs':
        return False
    try:
        if case['mount'] == 'direct':
            segs = raw_tuple(case, tree)
        else:
            text = raw_path(case, tree).encode('latin-1').decode('utf-8')
            if case['mount'] == 'sub':
                text = text[len('/' + PREFIXES[case['kind']] + '/'):]
            segs = normalise(text)
    except UnicodeError:
        return False
    base = '/'.join(KIND_DROOT[case['kind']] + segs)
    bad = lambda n: (n.startswith('\\') or ntpath.isabs(n)) and not n.startswith('/')
    exts = [''] + [x for enc in ENC_SETS[case['encs']] for x in exts_of(enc)]
    later = [base + x for x in exts[1:]] + [base + '/' + INDEX + x for x in exts]
    if not bad(base):
        # (A) the guarded name is acceptable, a later one (index of a directory called `X:`, a variant) is not
        return any(bad(n) for n in later)
    # (B) the guarded name is refused by the package but a filesystem override source HAS it, so the guard passes; a later
    # name that the source lacks falls through to the package
    for a, b in ov_pairs(tree, case):
        path = a.split(':', 1)[1] if ':' in a else ''
        if b.startswith('/') and (path == '' or path.endswith('/')) and base.startswith(path):
            if (b.rstrip('/') + '/' + base[len(path):].lstrip('/')) in tree.entries:
                return True
    return False


def oracle0(case, got, tree):
    root = tree.root[case['kind']]
    out = got['out']
    # safety, whatever the input: the bytes served are those of a file strictly inside the root
    if out == 'file':
        p = got.get('path')
        if p is None:
            return {'detail': 'the response body is not the content of any file of the tree%s' % (' (it contains sentinel bytes)' if got.get('sentinel') else ''),
                    'expected': 'a file of the root', 'safety': True}
        odirs, ofiles = ov_declared(tree, case)
        if not (any(p.startswith(d + '/') and os.path.realpath(p).startswith(d + '/') for d in [root] + odirs) or p in ofiles):
            return {'detail': 'a file outside the root%s was served%s: %r' % (' and outside every declared override' if case.get('ov') else '',
                                                                             ' (sentinel bytes)' if got.get('sentinel') else '', p),
                    'expected': 'a file inside %r' % ([root] + odirs + ofiles), 'safety': True}
    if case['mount'] == 'direct':
        segs, slash = raw_tuple(case, tree), case['slash']
        if not all(proper(s) for s in segs):
            if out not in ('notfound',):
                return {'detail': 'a tuple with an improper element (%r) was not refused' % segs, 'expected': {'out': 'notfound'}}
            return None
    else:
        raw = raw_path(case, tree)
        try:
            text = raw.encode('latin-1').decode('utf-8')
        except UnicodeDecodeError:
            if out not in ('urldecode', 'notfound'):
                return {'detail': 'PATH_INFO is not UTF-8: must be refused before a file name is formed',
                        'expected': {'out': 'urldecode'}}
            return None
        slash = text.endswith('/')
        if case['mount'] == 'sub':
            pfx = '/' + PREFIXES[case['kind']] + '/'
            if not text.startswith(pfx):
                return None if out == 'notfound' else {'detail': 'path outside the mount point', 'expected': {'out': 'notfound'}}
            rest = text[len(pfx):]
        else:
            rest = text
        segs = normalise(rest)
        if case['mount'] == 'plain':
            sel = [s for s in segs if s.startswith('@@')]
            if sel and sel[0] != '@@':
                # traversal's view selector: the request asks for another (non-existent) view, not for the static view
                return None if out == 'notfound' else {'detail': 'view selector segment', 'expected': {'out': 'notfound'}}
        if not all(proper(s) for s in segs):
            return None if out == 'notfound' else {'detail': 'segment with NUL designates nothing', 'expected': {'out': 'notfound'}}
    if case['kind'] != 'fs' and out == 'notfound':
        # pkg_resources cannot name a resource whose name is absolute for Windows (leading backslash, drive + root): for a
        # package-relative view such a path designates nothing (fbf36b3 answers 404)
        import ntpath
        nm = '/'.join(KIND_DROOT[case['kind']] + list(segs))
        if (nm.startswith('\\') or ntpath.isabs(nm)) and not nm.startswith('/'):
            return None
    want = designate(tree, case, segs, slash)
    if want[0] == 'redirect':
        if out != 'redirect':
            return {'detail': 'directory requested without trailing slash', 'expected': {'out': 'redirect'}}
        if case['mount'] != 'direct':
            loc = got.get('location') or ''
            exp_path = raw_path(case, tree).encode('latin-1') + b'/'
            qs = case.get('qs') or ''
            path_part, _, qs_part = loc.partition('?')
            if not path_part.startswith('http://localhost') or \
                    urllib.parse.unquote_to_bytes(path_part[len('http://localhost'):]) != exp_path or qs_part != qs:
                return {'detail': 'redirect does not just add the slash: %r' % loc, 'expected': 'path_url + "/" [+ "?" + qs]'}
        return None
    _, ok, dirs = want
    if out == 'file':
        if (got['path'], got['enc']) not in ok:
            return {'detail': 'served %r labelled %r' % (got['path'], got['enc']),
                    'expected': {'one of': ok} if ok else {'out': 'notfound'}}
        return None
    if out == 'notfound':
        if ok:
            return {'detail': 'the designated file exists (and a variant the client accepts) but the answer is 404',
                    'expected': {'one of': ok}}
        return None
    v = {'detail': 'answer is neither 404, redirect nor the designated file: %s' % json.dumps(got, default=str)[:200],
         'expected': {'one of': ok} if ok else {'out': 'notfound'}}
    return v


# ------------------------------------------------------------------------------------------------
# the model side

def model_case(case, tree):
    if 'op' in case:
        if case['op'] == 'su':
            return su_model_case(case, tree)
        if case['op'] == 'np':
            return {'op': 'np', 'a': codes(case['a']), 'b': codes(case['b'])}
        return {'op': 'secure', 'tuple': [codes(x) for x in case['tuple']]}
    from pyramid.static import _compile_content_encodings
    _, view = get_app(tree, case['mount'], case['kind'], case['encs'], case.get('ov', 0))
    ce = view.content_encodings
    m = {'op': 'req', 'mount': case['mount'], 'pkg': bool(view.package_name), 'base': codes(tree.pkgdir),
         'docroot': codes(view.docroot if view.package_name else view.norm_docroot), 'index': codes(view.index),
         'encs': [[e, [codes(x) for x in exts]] for e, exts in ce.items()], 'ae': accepted_list(case.get('ae')),
         'prefix': codes('/' + PREFIXES[case['kind']] + '/')}
    if case['mount'] == 'direct':
        m['tuple'] = [codes(x) for x in raw_tuple(case, tree)]
        m['slash'] = case['slash']
    else:
        m['path'] = codes(raw_path(case, tree))
    ovs = []
    for a, b in reversed(ov_pairs(tree, case)):            # most recent first
        path = a.split(':', 1)[1] if ':' in a else ''
        if b.startswith('/'):
            ovs.append([codes(path), 'fs', codes(''), codes(b)])
        else:
            pk, _, pf = b.partition(':')
            ovs.append([codes(path), 'pkg', codes(tree.T + '/' + pk), codes(pf)])
    m['ovs'] = ovs if view.package_name == tree.pkgname else []
    return m


def canon_model(o):
    if o is None:
        return None
    r = {'out': o['out']}
    if o['out'] in ('file', 'isdir'):
        r['path'] = uncodes(o.get('path'))
    if o['out'] == 'file':
        r['enc'] = o.get('enc'); r['vary'] = o.get('vary')
    return r


def canon_impl(g):
    r = {'out': g['out']}
    if g['out'] in ('file', 'isdir'):
        r['path'] = g.get('path')
    if g['out'] == 'file':
        r['enc'] = g.get('enc'); r['vary'] = g.get('vary')
    return r


def impl_aux(case):
    if case['op'] == 'np':
        a, b = case['a'], case['b']
        return {'join': posixpath.join(a, b), 'norm': os.path.normpath(os.path.join(a, b)), 'normb': os.path.normpath(b) if b else '.'}
    from pyramid.static import _secure_path
    return {'secure': _secure_path(tuple(case['tuple']))}


def oracle_aux(case, got):
    if case['op'] == 'secure':
        t = case['tuple']
        want = '/'.join(t) if all(proper(s) for s in t) else None
        if got['secure'] != want:
            return {'detail': '_secure_path(%r) = %r' % (t, got['secure']), 'expected': want}
    return None


def check_case(case, reply=None):
    """-> (got, mismatch|None, violation|None)"""
    if case.get('op') == 'su':
        return su_check(case, reply)
    if 'op' in case:
        got = impl_aux(case)
        mism = None
        if reply is not None:
            mo = {k: uncodes(v) for k, v in reply.items()} if 'error' not in reply else reply
            if mo != got:
                mism = {'case': case, 'impl': got, 'model': mo}
        v = oracle_aux(case, got)
        if v:
            v.update({'case': case, 'impl': got})
        return got, mism, v
    tree = get_tree(case['tree'])
    got = impl(case)
    v = oracle(case, got, tree)
    if v:
        v.update({'case': case, 'impl': got})
        v = json.loads(json.dumps(v, default=str).replace(tree.T, '<T>').replace(tree.pkgname, '<PKG>'))
    mism = None
    if reply is not None:
        if 'error' in reply:
            mism = {'case': case, 'impl': canon_impl(got), 'model': reply}
        else:
            mo = canon_model(reply['model'])
            if mo != canon_impl(got):
                mism = {'case': case, 'impl': canon_impl(got), 'model': mo, 'tuple': reply.get('tuple')}
            elif not reply.get('under', True):
                mism = {'case': case, 'impl': canon_impl(got), 'model': 'served path is not Under the root (underB false)'}
            else:
                # the Lean spec (what the property demands) must agree with the model (static_view_eq_spec)
                sp = canon_model(reply['spec'])
                if sp != mo:
                    mism = {'case': case, 'impl': canon_impl(got), 'model': {'model': mo, 'lean_spec': sp}}
    if mism:
        mism = json.loads(json.dumps(mism, default=str).replace(tree.T, '<T>').replace(tree.pkgname, '<PKG>'))
    return got, mism, v


# ------------------------------------------------------------------------------------------------
# generators

ATTACK = ['..', '.', '../', '/..', '/../', '/./', '//', '///', '%2e%2e', '%2E%2E/', '%2f', '%2F', '..%2f', '\\', '..\\',
          '\\..\\', '%5c', '..%5c', '\x00', '%00', '\xc0\xae', '\xc0\xae\xc0\xae', '\xc0\xaf', '\xe0\x80\xaf', '\x80',
          '\xc3', '%c0%ae', '%252e%252e', '%252f', '\n', '@@', '@@x', ';', '?', '~', ' ', 'C:', '....', '...', '.. ',
          ' ..', '\xef\xbc\x8f', '\xe2\x88\x95', '\xef\xbc\x8e']
OUTSIDE = ['secret.txt', 'passwd', 'site2', 'site', 'site.gz', 'sitex', '<PKG>', 'static', 'static2', 'static.gz', 'etc',
           '<T>', '<ROOT>', '<T>/secret.txt', '<ROOT>/../secret.txt', '/etc/passwd', '__init__.py', 'tmp']
AE = [None, None, None, 'gzip', 'gzip', 'gzip, br', 'br', 'xz, bzip2;q=0.2', 'compress', 'gzip;q=0, br;q=0, *', 'br;q=0, gzip;q=0, xz;q=0, bzip2', '*', 'gzip;q=0', '*;q=0', 'identity;q=0', 'br;q=0.5, gzip;q=0.8', '',
      'bogus;;', 'gzip;q=2', 'GZIP', 'compress, xz', 'gzip;q=0, *', '*;q=0, br', 'deflate', 'bzip2;q=0.001', ',', 'x-gzip, xz;q=0']


VARIANT_BASES = ['file.txt', 'big.txt', 'small.txt', 'tie.txt', 'only.js', 'multi.css', 'multi.css', 'sub', 'sub/index.html', 'huge.txt',
                 'index.html', 'sub/a.css', '']


def wsgi(s):
    """text -> WSGI string (what a server puts into PATH_INFO)"""
    return s.encode('utf-8').decode('latin-1')


def inside_paths(tree):
    return [p for p, k, s in tree.layout]


def gen_request(rng, tree, tree_id):
    mount = rng.choice(['sub', 'sub', 'plain', 'plain', 'direct'])
    kind = rng.choice(['fs', 'pkg'])
    encs = rng.choice([0, 1, 1, 2, 2])
    ae = rng.choice(AE)
    case = {'mount': mount, 'kind': kind, 'tree': tree_id, 'encs': encs, 'ae': ae}
    paths = inside_paths(tree)
    r = rng.random()
    # a base: an existing path of the tree (mostly), or nothing
    segs = rng.choice(paths).split('/') if r < 0.8 else []
    if rng.random() < 0.2:
        # the encoded-variant stream: a file that has variants, a client that says what it accepts
        segs = rng.choice(VARIANT_BASES).split('/')
        case['encs'] = rng.choice([1, 2, 2])
        case['ae'] = rng.choice([a for a in AE if a])
        if rng.random() < 0.6:
            if mount == 'direct':
                case['tuple'] = segs; case['slash'] = rng.random() < 0.7
            else:
                case['pieces'] = ['/' + PREFIXES[kind] + '/' if mount == 'sub' else '/', '/'.join(segs)] + (['/'] if rng.random() < 0.4 else [])
                case['qs'] = ''
            return case
    if segs and rng.random() < 0.25:
        last = segs[-1]
        for suf in ('.gz', '.br'):
            if last.endswith(suf) and rng.random() < 0.7:
                segs[-1] = last[:-len(suf)]
    if mount == 'direct':
        t = list(segs)
        k = rng.choice([0, 0, 0, 1, 1, 2, 3])
        for _ in range(k):
            pos = rng.randint(0, len(t))
            piece = rng.choice(['..', '.', '', '/', 'a/b', '../secret.txt', '/etc/passwd', '<T>/secret.txt', '<ROOT>/file.txt',
                                'x\x00', '\x00', '\\', '..\\..', 'sub/../../secret.txt', '//', '../site2/secret.txt',
                                'sub/index.html', 'file.txt/', '/file.txt', '..', '..', 'secret.txt', 'index.html', 'sub',
                                '../<PKG>/secret.txt', '...', '..a', ' ', '2/secret.txt'] + ATTACK[:8])
            if rng.random() < 0.3 and t:
                i = rng.randrange(len(t))
                t[i] = t[i] + piece if rng.random() < 0.5 else piece + t[i]
            else:
                t.insert(pos, piece)
        case['tuple'] = t
        case['slash'] = rng.random() < 0.5
        return case
    pieces = []
    r2 = rng.random()
    if mount == 'sub':
        pfx = '/' + PREFIXES[kind] + '/'
        if r2 < 0.9:
            pieces.append(pfx)
        elif r2 < 0.93:
            pieces.append(pfx[:-1])
        elif r2 < 0.96:
            pieces.append('/' + rng.choice(['x', 'static', '..', '']) + pfx)
        else:
            pieces.append('/')
    else:
        pieces.append(rng.choice(['/', '/', '/', '', '//']))
    body = []
    for i, s in enumerate(segs):
        if i:
            body.append('/')
        body.append(wsgi(s))
    k = rng.choice([0, 0, 1, 1, 2, 2, 3, 4, 6])
    for _ in range(k):
        pos = rng.randint(0, len(body))
        x = rng.random()
        if x < 0.6:
            piece = rng.choice(ATTACK)
        elif x < 0.85:
            piece = wsgi(rng.choice(OUTSIDE))
        else:
            piece = wsgi(rng.choice(paths))
        sep = rng.random()
        if sep < 0.5:
            piece = '/' + piece
        if sep > 0.3 and sep < 0.8:
            piece = piece + '/'
        body.insert(pos, piece)
    if rng.random() < 0.12:
        # the classic shape: climb out by n levels, then name something outside
        n = rng.randint(1, 6)
        up = rng.choice(['../', '..%2f', '..\\', '%2e%2e/', '\xc0\xae\xc0\xae/', '.././', '..//'])
        body = [up] * n + [wsgi(rng.choice(OUTSIDE))] if rng.random() < 0.5 else body + ['/'] + [up] * n + [wsgi(rng.choice(OUTSIDE))]
    if rng.random() < 0.04:
        # the siblings whose names extend the root's name: root + "2/secret.txt", root + ".gz", root + "x"
        body = [rng.choice(['2/secret.txt', '2/index.html', '.gz', 'x', '2', '2/'])]
        if pieces[-1].endswith('/') and rng.random() < 0.5:
            pieces[-1] = pieces[-1][:-1]
    pieces += body
    if rng.random() < 0.3:
        pieces.append('/')
    case['pieces'] = pieces
    case['qs'] = rng.choice(['', '', '', 'a=1', 'x=%2e%2e&y=/'])
    return case


OV_KINDS = ['pkg', 'pkgslash', 'pkgroot', 'pkgroot', 'pkgnested', 'rel', 'fs']
OV_NAMES = ['file.txt', 'only-ov.txt', 'extra.txt', 'index.html', 'sub/a.css', 'sub/index.html', 'sub/', 'sub', '', 'single.css', 'big.txt',
            'static/file.txt', 'static/', 'static', 'alt/file.txt', 'secret.txt', 'passwd', '__init__.py', 'static/passwd']
OV_ATTACK = ['<T>/secret.txt', '/<T>/secret.txt', '<T>/ovdir2/secret.txt', '<T>/ovdirx', '<T>/<PKG2>/secret.txt', '<T>/ovdir/../secret.txt',
             '../secret.txt', '../../secret.txt', '../ovdir2/secret.txt', '2/secret.txt', 'x', '.gz', '/etc/passwd', '//etc/passwd',
             '\\x', '\\', 'C:/x', 'C:/', 'C:', 'c:\\w.txt', 'C:\\x/y', 'c:/', 'c:/w.txt', 'c:', '\\x', 'c:/', '%2f<T>/secret.txt', '..%2fsecret.txt', '..\\secret.txt', '<T>/ovdir/file.txt', '<T>/<PKG2>/alt/file.txt', '/<T>/ovdir/only-ov.txt']


def kind_rel(kind, p):
    """a path of the content layout, relative to the root of that kind (None when it is not below it)"""
    if kind == 'pkgroot':
        return 'static/' + p
    if kind == 'pkgnested':
        return p[4:] if p.startswith('sub/') else None
    return p


def gen_ovreq(rng, tree, tree_id):
    """the override stream: every root kind x every override set, paths from the roots, the override sources and the attack list"""
    case = gen_request(rng, tree, tree_id)
    if case['mount'] == 'direct' and rng.random() < 0.8:
        case = dict(case, mount=rng.choice(['sub', 'plain']))
        if 'tuple' in case:
            segs = case.pop('tuple'); case.pop('slash', None)
            case['pieces'] = ['/' + PREFIXES[case['kind']] + '/' if case['mount'] == 'sub' else '/', wsgi('/'.join(segs))]
            case['qs'] = ''
    old = case['kind']
    kind = rng.choice(OV_KINDS)
    case['kind'] = kind
    case['ov'] = rng.randrange(len(OV_SETS)) if case['mount'] != 'direct' else 0
    if case['mount'] == 'direct':
        return case
    oldpfx, newpfx = '/' + PREFIXES[old] + '/', '/' + PREFIXES[kind] + '/'
    pieces = [x.replace(oldpfx, newpfx) if i == 0 and case['mount'] == 'sub' else x for i, x in enumerate(case['pieces'])]
    r = rng.random()
    if r < 0.45:
        # a name that matters for the overrides, clean or with one attack piece
        name = rng.choice(OV_NAMES)
        if kind == 'pkgroot' and rng.random() < 0.7 and not name.startswith('static'):
            name = 'static/' + name
        body = [wsgi(name)]
        if rng.random() < 0.25:
            body.insert(rng.randint(0, 1), rng.choice(ATTACK[:12]))
        pieces = [pieces[0] if pieces else '/'] + body
    elif r < 0.65:
        pieces = [pieces[0] if pieces else '/', wsgi(rng.choice(OV_ATTACK))]
    elif kind in ('pkgroot', 'pkgnested') and len(pieces) > 1 and rng.random() < 0.7:
        rel = kind_rel(kind, rng.choice(inside_paths(tree)))
        if rel:
            pieces = [pieces[0], wsgi(rel)] + pieces[2:]
    if pieces and case['mount'] == 'sub' and not pieces[0].startswith(newpfx[:-1]) and rng.random() < 0.8:
        pieces[0] = newpfx
    if rng.random() < 0.2:
        pieces.append('/')
    case['pieces'] = pieces
    return case


NP_PIECES = ['/', '/', '/', '//', '///', '.', '..', '..', 'a', 'bc', 'a.b', '...', '..a', '', '\\', ' ', '\u00fc', '~', '\x00', './', '../', '/.']


def gen_np(rng):
    def s(maxn):
        return ''.join(rng.choice(NP_PIECES) for _ in range(rng.randint(0, maxn)))
    a = s(6) if rng.random() < 0.7 else '/' + '/'.join(rng.choice(['r', 'root', 'x y']) for _ in range(rng.randint(1, 3)))
    return {'op': 'np', 'a': a, 'b': s(9)}


def gen_secure(rng):
    n = rng.choice([0, 1, 1, 2, 2, 3, 4, 6])
    return {'op': 'secure', 'tuple': [rng.choice(['a', 'b.txt', 'sub', '..', '.', '', 'a/b', '/', '\x00', 'x\x00y', '\\', '...', '..a', ' ',
                                                    '\u00fc', '../x', '/etc', '. ', '..\\']) for _ in range(n)]}


SIGNIFICANT = re.compile(r'\.\.|//|%|\\|\x00|[\x80-\xff]|\n|@@|^\.$|/\./|/\.$|<T>|<ROOT>|;|\?')


def significant(case):
    if case.get('op') == 'su':
        names = [su_norm_name(n) for n, _ in case['adds']]
        return len(case['adds']) > 1 or bool(case['busters']) or case.get('query') is not None or len(set(names)) < len(names)
    if 'op' in case:
        if case['op'] == 'np':
            return '..' in case['a'] + '/' + case['b'] or '//' in case['a'] + '/' + case['b'] or case['b'].startswith('/')
        return any(not proper(s) for s in case['tuple'])
    if case['mount'] == 'direct':
        return any(not proper(s) or '<' in s for s in case['tuple'])
    body = ''.join(case['pieces'][1:])
    return bool(SIGNIFICANT.search(body))


EX_ALPHABET = ['/', '..', '.', 'sub', 'file.txt', 'secret.txt', '%2e%2e', '%2f', '\\', '\x00', '\xc0\xae', '<T>', 'site2', '2', '']


def exhaustive_cases(maxlen, tree_id, mounts=('sub', 'plain'), kinds=('fs', 'pkg')):
    """all piece sequences of <= maxlen over a core alphabet, after the mount prefix"""
    alpha = [a for a in EX_ALPHABET if a != '']
    out = []
    for n in range(0, maxlen + 1):
        for combo in itertools.product(alpha, repeat=n):
            for mount in mounts:
                for kind in kinds:
                    pfx = '/' + PREFIXES[kind] + '/' if mount == 'sub' else '/'
                    out.append({'mount': mount, 'kind': kind, 'tree': tree_id, 'encs': 1, 'ae': 'gzip',
                                'pieces': [pfx] + list(combo), 'qs': ''})
    return out


def exhaustive_tuples(maxlen, tree_id):
    alpha = ['..', '.', '', 'sub', 'file.txt', 'secret.txt', 'a/b', '/', '\x00', '<T>', '../secret.txt', '2']
    out = []
    for n in range(0, maxlen + 1):
        for combo in itertools.product(alpha, repeat=n):
            for kind in ('fs', 'pkg'):
                out.append({'mount': 'direct', 'kind': kind, 'tree': tree_id, 'encs': 1, 'ae': None, 'tuple': list(combo), 'slash': False})
    return out


def exhaustive_np(maxlen):
    out = []
    for n in range(0, maxlen + 1):
        for combo in itertools.product('/.a', repeat=n):
            out.append({'op': 'np', 'a': '/r', 'b': ''.join(combo)})
    return out


# regression witnesses of the repaired F-C16f (package-root spec + whole-package override from an absolute directory) and its
# relatives; must behave as the property demands
OV_WITNESSES = [
    {'mount': 'sub', 'kind': 'pkgroot', 'tree': 0, 'encs': 0, 'ae': None, 'ov': 3, 'pieces': ['/s/', '<T>/secret.txt'], 'qs': ''},
    {'mount': 'sub', 'kind': 'pkgroot', 'tree': 0, 'encs': 0, 'ae': None, 'ov': 3, 'pieces': ['/s/', '/etc/passwd'], 'qs': ''},
    {'mount': 'plain', 'kind': 'pkgroot', 'tree': 0, 'encs': 0, 'ae': None, 'ov': 3, 'pieces': ['/', '<T>/ovdir2/secret.txt'], 'qs': ''},
    {'mount': 'sub', 'kind': 'pkgroot', 'tree': 0, 'encs': 0, 'ae': None, 'ov': 3, 'pieces': ['/s/'], 'qs': ''},
    {'mount': 'sub', 'kind': 'pkgroot', 'tree': 0, 'encs': 0, 'ae': None, 'ov': 1, 'pieces': ['/s/', 'static/file.txt'], 'qs': ''},
    {'mount': 'sub', 'kind': 'pkgroot', 'tree': 0, 'encs': 0, 'ae': None, 'ov': 3, 'pieces': ['/s/', 'static/file.txt'], 'qs': ''},
    {'mount': 'sub', 'kind': 'pkg', 'tree': 0, 'encs': 1, 'ae': 'gzip', 'ov': 7, 'pieces': ['/assets/v 1/', 'file.txt'], 'qs': ''},
    {'mount': 'plain', 'kind': 'pkgslash', 'tree': 0, 'encs': 0, 'ae': None, 'ov': 5, 'pieces': ['/', 'file.txt'], 'qs': ''},
]

# witnesses of the OBSERVATIONS O-C16c/d/e of the configuration / URL side (as-built behaviour of static URL generation, outside
# C16's statement; Props.C16 §5 witnesses), replayed on the real code in every run
SU_WITNESSES = [
    # O-C16c: the same local name added again does not replace the registration
    {'op': 'su', 'tree': 0, 'adds': [['static', '<PKG>:static'], ['static', '<ROOT>']], 'prefix': None, 'busters': [], 'override': None,
     'asset': '<PKG>:static/file.txt', 'static_path': True, 'script_name': '', 'query': None, 'anchor': None},
    # O-C16d: a later static view below the URL prefix of an earlier one
    {'op': 'su', 'tree': 0, 'adds': [['a', '<ROOT>'], ['a/b', '<PKG>:static']], 'prefix': None, 'busters': [], 'override': None,
     'asset': '<PKG>:static/file.txt', 'static_path': True, 'script_name': '', 'query': None, 'anchor': None},
    # O-C16e: a string _query with a query-string cache buster
    {'op': 'su', 'tree': 0, 'adds': [['static', '<ROOT>']], 'prefix': None, 'busters': [['<ROOT>', 'q', False, 'x', 'tok', []]], 'override': None,
     'asset': '<ROOT>/file.txt', 'static_path': True, 'script_name': '', 'query': {'str': 'a=1'}, 'anchor': None},
]

# the witnesses of the repaired defects F-C16a / F-C16b (Props.C16.index_directory_is_missing, plain_mount_non_ascii_served):
# regression cases, evaluated on the real code in every run
WITNESSES = [
    {'mount': 'sub', 'kind': 'fs', 'tree': 0, 'encs': 0, 'ae': None, 'pieces': ['/static/', 'dirindex/'], 'qs': ''},
    {'mount': 'plain', 'kind': 'pkg', 'tree': 0, 'encs': 1, 'ae': 'gzip', 'pieces': ['/', 'huge.txt'], 'qs': ''},
    {'mount': 'plain', 'kind': 'fs', 'tree': 0, 'encs': 0, 'ae': None, 'pieces': ['/', 'sp ace/\xc3\xbc.txt'], 'qs': ''},
    {'mount': 'plain', 'kind': 'fs', 'tree': 0, 'encs': 0, 'ae': None, 'pieces': ['/', '\xe6\x97\xa5\xe6\x9c\xac'], 'qs': ''},
]



# ------------------------------------------------------------------------------------------------
# the configuration / URL side: add_static_view, add_cache_buster, static_url / static_path, and the way back
#
#   {"op":"su","tree":n,"adds":[[name, specref],…],"prefix":str|null,"busters":[[specref,"q"|"m",explicit,param,token,[[k,v],…]],…],
#    "override":null|[specref,specref],"asset":specref-with-subpath,"static_path":b,"script_name":str,
#    "query":null|{"dict":b,"pairs":[[k,v],…]}|{"str":s}|{"null":true},"anchor":str|null}
# specrefs use <ROOT> (the filesystem root), <PKG> (the scratch package), <T>.

SU_NAMES = ['static', 'static/', 'assets/v 1', 'a', 'a/b', 'b', 's t', 'ü', '/abs', 'http://cdn.example.com/s', '//cdn.example.com/x/',
            'https://h.example/é', 'x.y', 'static2']
SU_SPECS = ['<ROOT>', '<ROOT>/', '<PKG>:static', '<PKG>:static/', '<ROOT>/sub', '<PKG>:static/sub', '<PKG>:static/sub/deep/', '<PKG>:static2',
            '<T>/site2', '<PKG>:']


def su_norm_spec(spec):
    return spec if spec.endswith('/') or spec.endswith(':') else spec + '/'


def su_norm_name(name):
    return name if name.endswith('/') else name + '/'


def su_expand(tree, s):
    return s.replace('<ROOT>', tree.root['fs']).replace('<PKG>', tree.pkgname).replace('<T>', tree.T)


def su_spec_dir(tree, spec):
    """the directory an (expanded, normalised) spec names"""
    if ':' in spec and not spec.startswith('/'):
        pkg, rel = spec.split(':', 1)
        return (tree.T + '/' + pkg + '/' + rel).rstrip('/')
    return spec.rstrip('/')


def su_build(tree, case):
    from pyramid.config import Configurator
    from pyramid.static import QueryStringConstantCacheBuster, ManifestCacheBuster

    class FixedManifest(ManifestCacheBuster):
        def __init__(self, m):
            self._m = m

        @property
        def manifest(self):
            return self._m

    cfg = Configurator()

    def add_all():
        for name, spec in case['adds']:
            cfg.add_static_view(name, su_expand(tree, spec))
            cfg.commit()
    if case.get('prefix'):
        with cfg.route_prefix_context(case['prefix']):
            add_all()
    else:
        add_all()
    for spec, kind, explicit, param, token, manifest in case['busters']:
        cb = QueryStringConstantCacheBuster(token, param=param) if kind == 'q' else FixedManifest(dict(manifest))
        cfg.add_cache_buster(su_expand(tree, spec), cb, explicit=explicit)
        cfg.commit()
    if case.get('override'):
        cfg.override_asset(to_override=su_expand(tree, case['override'][0]), override_with=su_expand(tree, case['override'][1]))
        cfg.commit()
    return cfg


def su_kw(case):
    kw = {}
    q = case.get('query')
    if q is not None:
        if 'pairs' in q:
            kw['_query'] = dict(q['pairs']) if q['dict'] else [tuple(p) for p in q['pairs']]
        elif 'str' in q:
            kw['_query'] = q['str']
        else:
            kw['_query'] = None
    if case.get('anchor') is not None:
        kw['_anchor'] = case['anchor']
    return kw


def su_impl(case):
    """-> {'url':…|None, 'err':…, 'regs':…, 'busters':…, 'back':canon response|None, 'query_after':…}"""
    from pyramid.request import Request
    from pyramid.interfaces import IStaticURLInfo
    tree = get_tree(case['tree'])
    out = {'url': None, 'err': None, 'back': None}
    try:
        cfg = su_build(tree, case)
    except Exception as e:      # noqa
        return {'url': None, 'err': 'config:' + type(e).__name__, 'back': None, 'regs': None, 'busters': None}
    info = cfg.registry.queryUtility(IStaticURLInfo)
    T = lambda x: None if x is None else x.replace(tree.T, '<T>').replace(tree.pkgname, '<PKG>')
    out['regs'] = [[T(u), T(sp), rn] for u, sp, rn in info.registrations] if info else []
    out['busters'] = [[T(sp), ex] for sp, cb, ex in info.cache_busters] if info else []
    env = base_environ('/', '', None)
    env['SCRIPT_NAME'] = case.get('script_name', '')
    req = Request(env)
    req.registry = cfg.registry
    kw = su_kw(case)
    before = json.dumps(kw.get('_query'), sort_keys=True, default=str)
    try:
        f = req.static_path if case['static_path'] else req.static_url
        out['url'] = f(su_expand(tree, case['asset']), **kw)
    except ValueError as e:
        out['err'] = 'nostatic' if 'No static URL definition' in str(e) else 'ValueError'
    except Exception as e:      # noqa
        out['err'] = type(e).__name__
    out['query_mutated'] = json.dumps(kw.get('_query'), sort_keys=True, default=str) != before
    if out['url'] is not None:
        sp = urllib.parse.urlsplit(out['url'])
        local = sp.netloc in ('', 'localhost', 'localhost:80')
        if local:
            path = urllib.parse.unquote_to_bytes(sp.path).decode('latin-1')
            script = case.get('script_name', '')
            if path.startswith(script):
                app = cfg.make_wsgi_app()
                got = {}
                out['back_path'] = path[len(script):]
                envb = base_environ(path[len(script):], '', None)
                envb['SCRIPT_NAME'] = script
                try:
                    it = app(envb, lambda st, h, exc_info=None: got.update(status=st, headers=h))
                    try:
                        body = b''.join(it)
                    finally:
                        if hasattr(it, 'close'):
                            it.close()
                    out['back'] = canon_response(tree, got['status'], got['headers'], body)
                except Exception as e:      # noqa
                    out['back'] = canon_exc(e)
        out['url'] = T(out['url'])
    return out


def su_effective(case):
    """the registrations the property speaks of: registration order, a re-added name replacing its earlier registration"""
    eff = []
    for name, spec in case['adds']:
        n = su_norm_name(name)
        eff = [e for e in eff if e[0] != n] + [(n, su_norm_spec(spec))]
    return eff


def su_is_url(name):
    try:
        return bool(urllib.parse.urlsplit(name).netloc)
    except ValueError:
        return False


def su_pick_buster(case, asset):
    """documented choice: explicit busters (matched on the overriding asset's spec) before the others, most specific first"""
    raw = asset
    if case.get('override') and asset.startswith(case['override'][0]):        # a directory override: both specs end with '/'
        raw = case['override'][1] + asset[len(case['override'][0]):]
    eff = {}
    for spec, kind, explicit, param, token, manifest in case['busters']:
        eff[(su_norm_spec(spec), explicit)] = (kind, param, token, manifest)
    cands = [(ex, len(sp), sp) for (sp, ex) in eff if (raw if ex else asset).startswith(sp)]
    if not cands:
        return None, raw
    ex, _, sp = max(cands)
    return eff[(sp, ex)], raw


def su_oracle(case, got, tree):
    """the property on the configuration / URL side"""
    case = json.loads(su_expand(tree, json.dumps(case)))            # every placeholder replaced: prefixes are compared on real specs
    asset = case['asset']
    if got['err'] and got['err'].startswith('config:'):
        return {'detail': 'configuration failed: %s' % got['err'], 'expected': 'a configuration'}
    eff = su_effective(case)
    hit = [(n, sp) for n, sp in eff if asset.startswith(sp)]
    # O-C16c's class: the first covering entry of the raw list is a local name that was added again later
    # (the list as O-C16c leaves it: external names replaced, local names accumulated; a local entry is stale when the same
    # name was added again after it)
    kept = []
    for i, (n, sp) in enumerate(case['adds']):
        n = su_norm_name(n)
        if su_is_url(n):
            kept = [k for k in kept if k[1] != n]
        kept.append((i, n, su_norm_spec(sp)))
    raw_hits = [k for k in kept if asset.startswith(k[2])]
    stale = bool(raw_hits) and not su_is_url(raw_hits[0][1]) and \
        any(su_norm_name(n) == raw_hits[0][1] for n, _ in case['adds'][raw_hits[0][0] + 1:]) and \
        (not hit or (raw_hits[0][1], raw_hits[0][2]) != hit[0])
    v = su_oracle2(case, got, tree, asset, hit)
    if v and stale and not v.get('observation'):
        v['observation'] = 'O-C16c'
    return v


def su_oracle2(case, got, tree, asset, hit):
    if not hit:
        if got['err'] != 'nostatic':
            return {'detail': 'no registration covers %r at a path boundary, yet: %s' % (asset, json.dumps(got)[:160]), 'expected': {'err': 'nostatic'}}
        return None
    name, spec = hit[0]
    sub = asset[len(spec):]
    buster, raw = su_pick_buster(case, asset)
    q = case.get('query')
    pairs = None if q is None else [tuple(p) for p in q['pairs']] if 'pairs' in q else 'other'
    want_pairs = [] if pairs is None else pairs
    if buster and buster[0] == 'm':
        sub2 = dict(buster[3]).get(sub, sub)
    else:
        sub2 = sub
    if buster and buster[0] == 'q':
        if pairs == 'other':
            # a string / None `_query` is a documented argument of route_url; the buster has no documented way to add to it
            if got['url'] is None:
                return {'detail': 'static_url raised %s for a %s _query with a query-string cache buster' % (got['err'], 'str' if 'str' in q else 'None'),
                        'expected': 'a URL', 'observation': 'O-C16e'}
            return None
        if q is not None and q.get('dict') and any(k == buster[1] for k, _ in want_pairs):
            want_pairs = [(k, buster[2] if k == buster[1] else v) for k, v in want_pairs]
        else:
            want_pairs = list(want_pairs) + [(buster[1], buster[2])]
    if got['url'] is None:
        return {'detail': 'static_url raised %s' % got['err'], 'expected': 'a URL under %r' % name}
    url = su_expand(tree, got['url'])
    sp = urllib.parse.urlsplit(url)
    if pairs != 'other':
        if urllib.parse.parse_qsl(sp.query, keep_blank_values=True) != [(str(k), str(v)) for k, v in want_pairs]:
            return {'detail': 'query of %r is not the given one%s' % (got['url'], ' plus the cache-bust token' if buster and buster[0] == 'q' else ''),
                    'expected': want_pairs}
    if urllib.parse.unquote(sp.fragment) != (case.get('anchor') or ''):
        return {'detail': 'anchor not passed through: %r' % got['url'], 'expected': case.get('anchor')}
    path = urllib.parse.unquote(sp.path)
    if su_is_url(name):
        segs = sub2.split('/')
        if sub2 and not (all(x for x in segs[:-1]) and all(x not in ('.', '..') for x in segs)):
            return None                         # urljoin resolves dot and empty segments: C17's ground (`outside` in its model)
        base = urllib.parse.urlsplit(name)
        if sp.netloc != base.netloc or path != urllib.parse.unquote(base.path) + sub2:
            if case['static_path']:
                return None                     # F-C17c (C17's): static_path of an external registration is the absolute URL
            return {'detail': 'external URL %r is not the base URL joined with the subpath' % got['url'], 'expected': name + sub2}
        return None
    pre = ('/' + case['prefix'].strip('/') if case.get('prefix') else '')
    want_path = case.get('script_name', '') + pre + '/' + name.lstrip('/') + sub2
    if path != want_path:
        return {'detail': 'path of %r is not <script>/<name>/<subpath>' % got['url'], 'expected': want_path}
    if not case['static_path'] and sp.netloc not in ('localhost', 'localhost:80'):
        return {'detail': 'host of %r' % got['url'], 'expected': 'localhost'}
    # the way back: the same application serves that URL with the file the spec designates
    if case.get('override'):
        return None                             # asset overrides also change what a package root serves: not modelled
    back = got.get('back')
    segs = [x for x in sub2.split('/')]
    target = su_spec_dir(tree, su_expand(tree, spec)) + ''.join('/' + x for x in segs)
    proper_sub = all(proper(x) for x in segs) and all(ord(c) < 0x110000 for c in sub2)
    if not proper_sub:
        return None
    xspec = su_expand(tree, spec)
    if not xspec.startswith('/') and ':' in xspec and back is not None and back['out'] == 'notfound':
        import ntpath
        d0 = xspec.split(':', 1)[1].rstrip('/')
        nm0 = (d0 + '/' if d0 else '') + sub2
        if (nm0.startswith('\\') or ntpath.isabs(nm0)) and not nm0.startswith('/'):
            return None                             # pkg_resources cannot name it (see su_c16_back)
    exp = 'file' if tree.isfile(target) else 'redirect' if tree.isdir(target) else 'notfound'
    ok = back is not None and back['out'] == exp and (exp != 'file' or back.get('path') == target)
    if not ok:
        v = {'detail': 'the generated URL %r, requested from the same application, answers %s' % (got['url'], json.dumps(back, default=str)[:140].replace(tree.T, '<T>')),
             'expected': {'out': exp, 'path': target.replace(tree.T, '<T>')}}
        # O-C16d: the round trip is demanded only where the GENERATING view is also the RECEIVING one — another static route
        # that precedes it in mapper order (declared earlier, or this one was re-declared and moved to the end) and whose
        # prefix the path starts with receives the request instead (what that view must answer is checked by su_c16_back)
        reqpath = path[len(case.get('script_name', '')):]
        mine = pre + '/' + name.lstrip('/')
        recv = [r for r in su_routes(case, tree) if reqpath.startswith(r[0])]
        if recv and (recv[0][0] != mine or recv[0][1] != su_spec_dir(tree, su_expand(tree, spec))):
            v['observation'] = 'O-C16d'
        return v
    return None


def su_model_case(case, tree):
    X = lambda s: su_expand(tree, s)
    raw = []
    if case.get('override'):
        a, b = X(case['override'][0]), X(case['override'][1])
        asset = X(case['asset'])
        if asset.startswith(a):
            raw.append([codes(asset), codes(b + asset[len(a):])])
    q = case.get('query')
    mq = None
    if q is not None:
        if 'pairs' in q:
            mq = {'dict': q['dict'], 'pairs': [[codes(str(k)), codes(str(v))] for k, v in (dict(q['pairs']).items() if q['dict'] else q['pairs'])]}
        elif 'str' in q:
            mq = {'str': codes(q['str'])}
        else:
            mq = {'null': True}
    return {'op': 'su', 'adds': [[codes(n), codes(X(sp))] for n, sp in case['adds']], 'prefix': None if not case.get('prefix') else codes(case['prefix']),
            'busters': [[codes(X(sp)), k, ex, codes(pa), codes(tk), [[codes(a), codes(b)] for a, b in mf]] for sp, k, ex, pa, tk, mf in case['busters']],
            'raw': raw, 'path': codes(X(case['asset'])), 'static_path': case['static_path'], 'script_name': codes(case.get('script_name', '')),
            'query': mq, 'anchor': None if case.get('anchor') is None else codes(case['anchor'])}


def su_routes(case, tree):
    """the static routes in MAPPER order: (URL prefix, root directory, spec); a route declared again under the same name replaces
    the earlier one and moves to the end (RoutesMapper.connect), so an earlier-declared shorter prefix can come to precede it"""
    pre = ('/' + case['prefix'].strip('/') if case.get('prefix') else '')
    routes = []
    for name, spec in case['adds']:
        n = su_norm_name(name)
        if su_is_url(n):
            continue
        pfx = pre + '/' + n.lstrip('/')
        routes = [r for r in routes if r[0] != pfx] + [(pfx, su_spec_dir(tree, su_expand(tree, su_norm_spec(spec))), su_expand(tree, spec))]
    return routes


def su_c16_back(case, got, tree):
    """C16's OWN statement on the way-back request, whatever URL generation did: the static view that receives the request
    (first route, in route order, whose prefix the path starts with) serves what the normalised remainder designates below ITS
    root — never a file outside it."""
    back = got.get('back')
    if back is None or case.get('override') or 'back_path' not in got:
        return None
    routes = su_routes(case, tree)
    if back['out'] == 'file':
        roots = [r[1] for r in routes]
        if back.get('path') is None or not any(back['path'].startswith(r + '/') for r in roots):
            return {'detail': 'the way-back request was answered with a file outside every static root: %r' % back.get('path'), 'expected': 'never', 'safety': True}
    try:
        text = got['back_path'].encode('latin-1').decode('utf-8')
    except UnicodeError:
        return None if back['out'] in ('urldecode', 'notfound') else {'detail': 'undecodable way-back path answered %s' % back['out'], 'expected': 'urldecode'}
    hit = [r for r in routes if text.startswith(r[0])]
    if not hit:
        exp, target = 'notfound', None
    else:
        pfx, root, rspec = hit[0]
        segs = normalise(text[len(pfx):])
        if not rspec.startswith('/') and ':' in rspec:
            import ntpath
            d = rspec.split(':', 1)[1].rstrip('/')
            nm = (d + '/' if d else '') + '/'.join(segs)
            bad = lambda x: (x.startswith('\\') or ntpath.isabs(x)) and not x.startswith('/')
            if back['out'] == 'notfound' and bad(nm):
                return None                         # pkg_resources cannot name it: designates nothing for a package view
        if not all(proper(x) for x in segs):
            exp, target = 'notfound', None
        else:
            d = root + ''.join('/' + x for x in segs)
            if tree.isdir(d):
                target = d + '/' + INDEX
                exp = 'redirect' if not text.endswith('/') else 'file' if tree.isfile(target) else 'notfound'
            else:
                target = d
                exp = 'file' if tree.isfile(d) else 'notfound'
    if back['out'] != exp or (exp == 'file' and back.get('path') != target):
        return {'detail': 'way-back request %r answered %s' % (text, json.dumps(back, default=str)[:140]),
                'expected': {'out': exp, 'path': target if exp == 'file' else None}}
    return None


def su_check(case, reply=None):
    tree = get_tree(case['tree'])
    got = su_impl(case)
    v = su_c16_back(case, got, tree)                # a genuine C16 violation first
    if v is None:
        v = su_oracle(case, got, tree)
        if v and v.get('observation'):
            # as-built behaviour of static URL generation that C16's statement does not speak about: counted, not reported
            got['observation'] = v['observation']
            v = None
    if v:
        v.update({'case': case, 'impl': got})
        v = json.loads(json.dumps(v, default=str).replace(tree.T, '<T>').replace(tree.pkgname, '<PKG>'))
    mism = None
    if reply is not None:
        if 'error' in reply:
            mism = {'case': case, 'impl': got, 'model': reply}
        else:
            T = lambda x: None if x is None else x.replace(tree.T, '<T>').replace(tree.pkgname, '<PKG>')
            m_url = T(uncodes(reply['url']))
            m_regs = [[T(uncodes(u)), T(uncodes(sp)), uncodes(rn) or None] for u, sp, rn in reply['regs']]
            m_bust = [[T(uncodes(sp)), ex] for sp, ex in reply['busters']]
            i_err = got['err']
            if reply['err'] == 'outside':
                pass                                # outside the modelled fragment (urljoin dot segments, str/None query with a buster)
            elif got['regs'] is not None and (m_regs != got['regs'] or m_bust != got['busters']):
                mism = {'case': case, 'impl': {'regs': got['regs'], 'busters': got['busters']}, 'model': {'regs': m_regs, 'busters': m_bust}}
            elif (m_url, reply['err']) != (got['url'], 'nostatic' if i_err == 'nostatic' else None if got['url'] is not None else i_err):
                mism = {'case': case, 'impl': {'url': got['url'], 'err': i_err}, 'model': {'url': m_url, 'err': reply['err']}}
    return got, mism, v


def gen_su(rng, tree, tree_id):
    n = rng.choice([1, 1, 2, 2, 3, 4])
    adds = []
    for _ in range(n):
        name = rng.choice(SU_NAMES)
        if adds and rng.random() < 0.12:
            name = rng.choice(adds)[0]                                        # the same name again
            if not name.endswith('/') and rng.random() < 0.4:
                name += '/'
        adds.append([name, rng.choice(SU_SPECS)])
    case = {'op': 'su', 'tree': tree_id, 'adds': adds, 'prefix': rng.choice([None, None, None, None, 'pre', 'p/q']),
            'busters': [], 'override': None, 'static_path': rng.random() < 0.5, 'script_name': rng.choice(['', '', '', '/app', '/a b']),
            'query': None, 'anchor': rng.choice([None, None, None, 'top', 'a b#c', ''])}
    # the asset: under one of the registrations (mostly), next to one, or nowhere
    r = rng.random()
    spec = su_norm_spec(rng.choice(adds)[1])
    paths = inside_paths(tree)
    if r < 0.75:
        sub = rng.choice(paths)
        if rng.random() < 0.3:
            sub = rng.choice(['sub/', 'sub', '', 'nope.txt', 'sub/../file.txt', 'a//b', './file.txt', 'file.txt?x', 'sp ace/ü.txt', '%2e%2e/in.txt'])
        case['asset'] = spec + sub
    elif r < 0.9:
        case['asset'] = spec.rstrip('/') + rng.choice(['2/secret.txt', '.gz', 'x', '2'])      # boundary: a sibling whose name extends the spec
    else:
        case['asset'] = rng.choice(['<PKG>:nowhere/x', '/etc/passwd', '<T>/secret.txt', 'otherpkg:static/file.txt'])
    for _ in range(rng.choice([0, 0, 1, 1, 2, 3])):
        bspec = rng.choice([spec, spec + 'sub', '<PKG>:static', '<ROOT>', '<PKG>:static2', '<PKG>:', spec.rstrip('/')])
        if rng.random() < 0.7:
            case['busters'].append([bspec, 'q', rng.random() < 0.3, rng.choice(['x', 'v', 'a']), rng.choice(['tok', 'a b&c', 'ü1']), []])
        else:
            sub = case['asset'][len(spec):] if case['asset'].startswith(spec) else 'file.txt'
            case['busters'].append([bspec, 'm', rng.random() < 0.3, '', '', [[sub, rng.choice(['big.txt', 'sub/a.css', 'file-1234.txt', sub])], ['zzz', 'yyy']]])
    qk = rng.random()
    if qk < 0.25:
        case['query'] = {'dict': rng.random() < 0.5, 'pairs': rng.choice([[['a', '1']], [['x', '0'], ['a', '1']], [], [['k k', 'v&v'], ['x', 'y']]])}
    elif qk < 0.3:
        case['query'] = rng.choice([{'str': 'a=1&b=2'}, {'null': True}])
    if rng.random() < 0.1:
        case['override'] = ['<PKG>:static/sub/', '<PKG>:static2/']
    return case


# ------------------------------------------------------------------------------------------------
# running

def evaluate(ctx, cases, want_model=True):
    """impl + oracle + model for a list of cases (grouped by tree); returns rows (case, got, mism, viol, reply)"""
    replies = [None] * len(cases)
    if want_model and ctx.driver_path:
        lines, idx = [], []
        cur = None
        for i, c in enumerate(cases):
            t = c.get('tree')
            if t is not None and t != cur:
                lines.append(get_tree(t).fs_line()); idx.append(None); cur = t
            lines.append(model_case(c, get_tree(t) if t is not None else None)); idx.append(i)
        out = ctx.run_model(lines)
        for i, r in zip(idx, out):
            if i is not None:
                replies[i] = r
    rows = []
    for c, r in zip(cases, replies):
        got, m, v = check_case(c, r)
        rows.append((c, got, m, v, r))
    return rows


def shrink_violation(v):
    case = v['case']
    fid = v.get('finding')

    def still(c):
        try:
            if case.get('op') == 'su':
                if set(c) != set(case) or c.get('op') != 'su' or not isinstance(c.get('asset'), str) or not c.get('adds') or \
                        not all(isinstance(a, list) and len(a) == 2 and all(isinstance(x, str) and x for x in a) for a in c['adds']) or \
                        not all(isinstance(b, list) and len(b) == 6 and b[1] in ('q', 'm') and isinstance(b[0], str) and b[0] and isinstance(b[3], str) and b[3] + b[1] != 'q'
                                and isinstance(b[4], str) and isinstance(b[5], list) and all(isinstance(m, list) and len(m) == 2 for m in b[5]) for b in c['busters']) or \
                        not isinstance(c.get('script_name'), str) or c.get('tree') != case['tree'] or c.get('prefix') != case.get('prefix') or \
                        c.get('override') != case.get('override') or c.get('query') != case.get('query') or c.get('script_name') != case.get('script_name'):
                    return False
                _, _, w = check_case(c)
                return bool(w) and w.get('finding') == fid and w['detail'][:24] == v['detail'][:24]
            if 'op' in c:
                if set(c) != set(case):
                    return False
            elif c.get('mount') == 'direct':
                if not isinstance(c.get('tuple'), list) or not all(isinstance(x, str) for x in c['tuple']):
                    return False
            else:
                if not isinstance(c.get('pieces'), list) or not all(isinstance(x, str) and all(ord(ch) < 256 for ch in x) for x in c['pieces']):
                    return False
            if 'op' not in c and (c.get('encs') not in (0, 1, 2) or c.get('tree') != case.get('tree') or c.get('kind') != case['kind']
                                  or c.get('mount') != case['mount'] or not isinstance(c.get('ae'), (str, type(None)))):
                return False
            _, _, w = check_case(c)
            return bool(w) and w.get('finding') == fid and bool(w.get('safety')) == bool(v.get('safety'))
        except Exception:
            return False

    small = vfutil.shrink(case, still, max_steps=400)
    if small != case:
        _, _, w = check_case(small)
        if w:
            w['shrunk_from'] = case
            return w
    return v


def run(ctx):
    rng = ctx.rng
    try:
        return _run(ctx, rng)
    finally:
        close_trees()


def _run(ctx, rng):
    n_req = ctx.n(6000, 300000)
    n_np = ctx.n(3000, 60000)
    n_sec = ctx.n(1000, 20000)
    trees = [0] if ctx.tier == 'quick' else [0, 1 + ctx.seed % 5]
    corpus = [c for _, c in ctx.corpus()]
    cases = list(corpus)
    for t in trees:
        tr = get_tree(t)
        cases += [gen_request(rng, tr, t) for _ in range(n_req // len(trees))]
    cases.sort(key=lambda c: (c.get('tree') is None, c.get('tree') or 0))      # one fs line per tree; stable
    cases += [gen_np(rng) for _ in range(n_np)] + [gen_secure(rng) for _ in range(n_sec)]
    ex = exhaustive_cases(ctx.n(2, 4), 0) + exhaustive_tuples(ctx.n(2, 4), 0) + exhaustive_np(ctx.n(6, 10))
    # the configuration / URL side (generated last, so that the request stream of a seed is what it always was)
    su_corpus = [c for c in cases if c.get('op') == 'su']
    cases = [c for c in cases if c.get('op') != 'su']
    su = su_corpus + SU_WITNESSES + [gen_su(rng, get_tree(0), 0) for _ in range(ctx.n(900, 12000))]
    # root kinds x asset overrides (generated after everything else, for the same reason)
    ovc = OV_WITNESSES + [gen_ovreq(rng, get_tree(0), 0) for _ in range(ctx.n(4000, 120000))]
    rows = evaluate(ctx, cases) + evaluate(ctx, ex) + evaluate(ctx, WITNESSES) + evaluate(ctx, su) + evaluate(ctx, ovc)
    # second pass over the request cases in shuffled order: the view caches (filemap, lru_cache) must not matter
    again = [c for c in cases if 'op' not in c]
    first = {vfutil.canon(c): canon_impl(g) for c, g, _, _, _ in rows if 'op' not in c}
    rng.shuffle(again)
    hist = []
    for c in again[:ctx.n(3000, 30000)]:
        g = canon_impl(impl(c))
        if g != first[vfutil.canon(c)]:
            hist.append({'case': c, 'impl': {'first': first[vfutil.canon(c)], 'later': g}, 'expected': 'same answer',
                         'detail': 'the answer depends on earlier requests (filemap / lru_cache)'})
    mism, viol, agree = [], list(hist), 0
    seen, nontriv = set(), set()
    tree_root = lambda c: get_tree(c['tree']).root[c['kind']]
    dist = {'overrides': {}, 'mount': {}, 'kind': {}, 'outcome': {}, 'outcome_by_mount': {}, 'pieces': {}, 'accept_encoding': {}, 'served_encoding': {},
            'content_encodings': {}, 'attack_pieces': {}, 'names_outside_root': 0, 'tuple_refused_by_secure_path': 0,
            'aux': {}, 'exhaustive_scope': {}, 'regression_witnesses': {}, 'static_url': {'answer': {}, 'registrations': {}, 'busters': {}, 'way_back': {},
                                                                                     'same_name_again': 0, 'boundary_sibling': 0, 'query': {}, 'observations': {}},
'lean_spec_equals_model': 0, 'lean_spec_differs': 0,
            'trees': {str(t): len(get_tree(t).entries) for t in trees}, 'nontrivial_by_kind': {}}
    known_seen = {}
    for c, got, m, v, r in rows:
        if m:
            mism.append(m)
        elif r is not None:
            agree += 1
        if v:
            viol.append(v)
        key = vfutil.canon(c)
        if key not in seen:
            seen.add(key)
            if significant(c):
                nontriv.add(key)
                bump(dist['nontrivial_by_kind'], c.get('op') or c['mount'])
        if c.get('op') == 'su':
            d = dist['static_url']
            bump(d['answer'], 'url:external' if got['url'] and not got['url'].startswith(('/', 'http://localhost')) else 'url:local' if got['url'] else str(got['err']))
            bump(d['registrations'], len(c['adds'])); bump(d['busters'], len(c['busters']))
            bump(d['way_back'], (got.get('back') or {}).get('out', 'not requested'))
            names = [su_norm_name(n) for n, _ in c['adds']]
            d['same_name_again'] += len(set(names)) < len(names)
            d['boundary_sibling'] += not any(c['asset'].startswith(su_norm_spec(sp)) for _, sp in c['adds']) and any(c['asset'].startswith(su_norm_spec(sp).rstrip('/')) for _, sp in c['adds'])
            bump(d['query'], 'absent' if c.get('query') is None else 'dict' if c['query'].get('dict') else 'pairs' if 'pairs' in c['query'] else 'str/None')
            if got.get('observation'):
                bump(d['observations'], got['observation'])
            bump(dist['aux'], 'su')
            continue
        if 'op' in c:
            bump(dist['aux'], c['op'])
            continue
        bump(dist['mount'], c['mount']); bump(dist['kind'], c['kind'])
        if c.get('ov'):
            bump(dist['overrides'], 'set %d' % c['ov'])
            if got['out'] == 'file' and got.get('path') and not got['path'].startswith(tree_root(c) + '/'):
                bump(dist['overrides'], 'served from an override source')
        bump(dist['outcome'], got['out'])
        bump(dist['outcome_by_mount'], c['mount'] + ':' + got['out'])
        bump(dist['content_encodings'], str(len(ENC_SETS[c['encs']])))
        bump(dist['accept_encoding'], 'none' if c.get('ae') is None else 'invalid' if parse_accept_encoding(c['ae']) is None else 'valid')
        if got['out'] == 'file':
            bump(dist['served_encoding'], got['enc'] or 'identity')
        parts = c.get('pieces') or c.get('tuple')
        bump(dist['pieces'], min(len(parts), 12))
        joined = '\x01'.join(parts)
        for a in ('..', '%2e', '%2f', '\\', '%5c', '\x00', '%00', '//', '\xc0', '<T>', '<ROOT>', '%25', '\n', '@@'):
            if a.lower() in joined.lower():
                bump(dist['attack_pieces'], repr(a))
        if any(o in joined for o in ('secret.txt', 'passwd', 'site2', '<T>', '<PKG>', 'static2')):
            dist['names_outside_root'] += 1
        if r is not None and 'model' in r:
            if r.get('tuple') is not None and not all(proper(uncodes(s)) for s in r['tuple']):
                dist['tuple_refused_by_secure_path'] += 1
            bump(dist, 'lean_spec_equals_model' if r['spec'] == r['model'] else 'lean_spec_differs')
    dist['exhaustive_scope'] = {
        'request_cases': len(exhaustive_cases(ctx.n(2, 4), 0)), 'tuple_cases': len(exhaustive_tuples(ctx.n(2, 4), 0)),
        'normpath_cases': len(exhaustive_np(ctx.n(6, 10))),
        'what': 'all sequences of <= %d pieces over %r after the mount prefix x {sub,plain} x {fs,pkg}; all subpath tuples of '
                '<= %d elements over 12 elements x {fs,pkg}; normpath(join("/r", b)) for every b over {/,.,a} up to length %d'
                % (ctx.n(2, 4), [a for a in EX_ALPHABET if a], ctx.n(2, 4), ctx.n(6, 10))}
    # the most serious first: when a file outside the root was served, report those cases (the runner shows the shortest)
    safety = [v for v in viol if v.get('safety')]
    dropped = 0
    if safety:
        dropped = len(viol) - len(safety)
        viol = safety
    viol = [shrink_violation(v) for v in viol[:6]] + viol[6:]
    for w in WITNESSES:
        bump(dist['regression_witnesses'], impl(w)['out'])
    notes = ['regression witness %s -> impl %s' % (json.dumps(w['pieces']), json.dumps(canon_impl(impl(w)), default=str)[:160].replace(get_tree(0).T, '<T>'))
             for w in WITNESSES]
    OBS = {'O-C16c': 'add_static_view with a local name that is already registered keeps the earlier registration (the name is compared with the URL column): static_url of the old spec still answers, through the re-bound route',
           'O-C16d': 'a static view whose URL prefix lies below that of a static route preceding it in mapper order (declared earlier, or this one was re-declared and moved to the end): the generated URL is received by the other view',
           'O-C16e': 'a str / None _query with a query-string cache buster raises (tuple(query)); a dict _query is mutated in place'}
    for k in sorted(OBS):
        notes.append('observation %s seen %d times (as-built behaviour of static URL generation, outside the property statement): %s'
                     % (k, dist['static_url']['observations'].get(k, 0), OBS[k]))
    if dropped:
        notes.append('%d further (functional) violations not listed: a file outside the root was served' % dropped)
    samples = [c for c in cases if 'op' not in c][len(corpus):len(corpus) + 4] + cases[-2:]
    return {'evaluations': len(rows) + min(len(again), ctx.n(3000, 30000)), 'exhaustive': True, 'distinct_nontrivial': len(nontriv), 'rule': RULE,
            'agreeing': agree, 'samples': samples, 'mismatches': mism[:50], 'violations': viol, 'distribution': dist, 'notes': notes,
            'assumptions': ['POSIX (os.sep == "/"); no symlinks, mounts or case folding in the served tree (string-level containment, DESIGN §7)',
                            'SCRIPT_NAME is empty; GET requests; no Range / conditional headers',
                            'Accept-Encoding: the oracle parses the header itself (RFC 7231 5.3.4); identity is always an allowed answer (RFC 7231 5.3.4 last paragraph)',
                            'an answer is the status + the file identified by the body bytes + Content-Encoding (+ Vary for the model comparison)'],
            'trusted_base': ['posixpath.join/normpath (C implementation in CPython 3.12), os.path.isdir/exists/getsize, open(): modelled as pjoin/normpath over '
                             'an abstract file system listing, tied by this run (np stream + every request)',
                             'pkg_resources DefaultProvider (_fn = os.path.join(module_path, *name.split("/"))): modelled, tied by this run',
                             'WebOb Request.path_url / accept_encoding.acceptable_offers, FileResponse: observed, not modelled (the list of accepted encodings is computed by the oracle\'s own parser)',
                             'route matching for `<name>/*subpath` and traversal over an all-accepting resource: modelled in Static.lean (routeRemainder, traversalReaches), tied by this run',
                             'core Lean UTF-8 decoder stands for Python\'s strict utf-8 codec']}


def search(ctx):
    """deeper search for an input on which the implementation violates the property: the exhaustive scopes one
    step larger than in run(), plus a fresh random stream"""
    try:
        return _search(ctx)
    finally:
        close_trees()


def _search(ctx):
    if True:
        viol, n = [], 0
        rng = random.Random(ctx.seed * 1000003 + 16)
        tr = get_tree(0)
        streams = [exhaustive_tuples(3, 0), exhaustive_cases(3, 0), [gen_request(rng, tr, 0) for _ in range(ctx.n(20000, 100000))],
                   [gen_secure(rng) for _ in range(5000)]]
        exhaustive = True
        for stream in streams:
            for c in stream:
                if ctx.time_left() < 60:
                    exhaustive = False
                    break
                n += 1
                _, _, v = check_case(c)
                if v and not v.get('finding'):
                    viol.append(v)
                    if len(viol) >= 3:
                        return {'violations': [shrink_violation(x) for x in viol], 'searched': n, 'exhaustive': False}
        return {'violations': [shrink_violation(x) for x in viol], 'searched': n, 'exhaustive': exhaustive}


def replay(ctx, rep):
    case = rep.get('case')
    if case is None:
        return {'violates': False, 'note': 'replay names broken obligations only', 'broken': rep.get('broken_obligations')}
    try:
        rows = evaluate(ctx, [case], want_model=bool(ctx.driver_path))
        c, got, m, v, r = rows[0]
        T = get_tree(case['tree']).T if 'tree' in case else None

        def scrub(x):
            s = json.dumps(x, default=str)
            return json.loads(s.replace(T, '<T>')) if T else x
        return scrub({'case': case, 'impl': got, 'model': None if r is None or 'model' not in r else canon_model(r['model']) if 'op' not in case else r,
                      'spec': None if r is None or 'spec' not in r else canon_model(r['spec']),
                      'oracle': v and {k: v[k] for k in ('detail', 'expected', 'finding') if k in v}, 'mismatch': m, 'violates': bool(v)})
    finally:
        close_trees()
