"""C18 — correspondence of lean/PyramidModel/TopoSort.lean with pyramid.util.TopologicalSorter, with
Tweens (implicit / explicit chains through a real Configurator + Router) and with the view-deriver
pipeline; and the property itself evaluated on the implementation."""
import itertools, json, os, subprocess, sys, threading, types

from pyramid.util import TopologicalSorter, FIRST, LAST
from pyramid.exceptions import ConfigurationError, CyclicDependencyError

import vfutil

RULE = ('constraint graphs over up to 7 present names + 3 absent names + the two sentinels; every add has '
        'after/before in {None, a name, a sentinel, a list of 1..3 alternatives}; names are re-added (replacing); '
        'sorter flavours: plain (default_before=LAST), tween-style (default_after=FIRST); a case is non-trivial when '
        'it has >= 2 names and at least one constraint between two present names, or ends in an error; '
        'distinct = distinct canonical case JSON.  Streams: direct TopologicalSorter; HISTORIES on one sorter (add / public '
        'remove / sorted() at arbitrary points, every answer judged against the declarations in force: all canonical '
        'histories of <= 5 ops over two names (with absent alternatives) and over three names + random ones over <= 5 names; a history is non-trivial when a present '
        'name is removed or sorted() is asked at least twice); DETERMINISM across processes (the same sequences with >= 2 present, mutually unordered alternatives evaluated in child interpreters with PYTHONHASHSEED 0..3, outputs identical and equal to the model); PREDICATE histories through the Configurator '
        '(add_view/route/subscriber_predicate with weighs_more_than/weighs_less_than over several commits, re-adds with other '
        'hints or factories, a consumer committed in every round, the order PredicateList.make uses read back after '
        'every round); add_tween via Configurator '
        '(implicit + explicit pyramid.tweens) observed through enter/exit logs of a real request; '
        'add_view_deriver via Configurator observed through the wrapping order around a real view call')

POOL = ['a', 'b', 'c', 'd', 'e', 'f', 'g']       # ids 2..8
ABSENT = ['zz1', 'zz2', 'zz3']                     # ids 9..11


def nid(x, first=FIRST, last=LAST):
    if x is first: return 0
    if x is last: return 1
    if x in POOL: return 2 + POOL.index(x)
    return 9 + ABSENT.index(x)


def name_of(i, first=FIRST, last=LAST):
    if i == 0: return first
    if i == 1: return last
    if i < 9: return POOL[i - 2]
    return ABSENT[i - 9]


def gen_constraint(rng, npool):
    r = rng.random()
    if r < 0.35:
        return None
    cands = list(range(2, 2 + npool)) + [0, 1] + [9, 10, 11]
    weights = [4] * npool + [1, 1] + [1, 1, 1]
    if r < 0.75:
        return [rng.choices(cands, weights)[0]], True      # scalar
    k = rng.choice([1, 2, 2, 3])
    return [rng.choices(cands, weights)[0] for _ in range(k)], False


def gen_case(rng, maxnames=7):
    """60%: constraints drawn consistently with a hidden total order (mostly sortable, some absent alternatives);
    40%: unconstrained draws (cycles, unsatisfied requirements, sentinel misuse)"""
    npool = rng.randint(1, maxnames)
    flavour = rng.choice(['plain', 'plain', 'tween'])
    if rng.random() < 0.4:
        nops = rng.randint(1, npool + 2)
        ops = []
        for _ in range(nops):
            n = rng.randrange(2, 2 + npool)
            a = gen_constraint(rng, npool)
            b = gen_constraint(rng, npool)
            ops.append([n, a and a[0], b and b[0], bool(a and a[1]), bool(b and b[1])])
        return {'flavour': flavour, 'ops': ops}
    hidden = list(range(2, 2 + npool)); rng.shuffle(hidden)
    rank = {n: i for i, n in enumerate(hidden)}
    seq = list(hidden); rng.shuffle(seq)
    seq += [rng.choice(hidden) for _ in range(rng.choice([0, 0, 1, 2]))]      # re-adds
    ops = []
    for n in seq:
        def pick(side):
            r = rng.random()
            if r < 0.4: return None, False
            pool = [m for m in hidden if (rank[m] < rank[n] if side == 'after' else rank[m] > rank[n])]
            pool += [0] if side == 'after' else [1]
            k = 1 if r < 0.75 else rng.choice([2, 3])
            alts = [rng.choice(pool) for _ in range(k)]
            if k > 1 and rng.random() < 0.4:
                alts[rng.randrange(k)] = rng.choice([9, 10, 11])
            return alts, k == 1
        a, sa = pick('after'); b, sb = pick('before')
        ops.append([n, a, b, sa, sb])
    return {'flavour': flavour, 'ops': ops}


def model_case(case):
    fl = case['flavour']
    return {'first': 0, 'last': 1,
            'defBefore': [1] if fl == 'plain' else None,
            'defAfter': None if fl == 'plain' else [0],
            'ops': [[o[0], o[1], o[2]] for o in case['ops']],
            'explicit': case.get('explicit', [])}


def to_arg(lst, scalar):
    if lst is None:
        return None
    vals = [name_of(i) for i in lst]
    return vals[0] if scalar and len(vals) == 1 else tuple(vals)


def impl_direct(case):
    if case['flavour'] == 'plain':
        ts = TopologicalSorter()
    else:
        ts = TopologicalSorter(default_before=None, default_after=FIRST, first=FIRST, last=LAST)
    try:
        for n, a, b, sa, sb in case['ops']:
            ts.add(name_of(n), 'val-%d' % n, after=to_arg(a, sa), before=to_arg(b, sb))
    except Exception as e:
        return {'result': {'raised': 'add:' + type(e).__name__}, 'names': []}
    names = [nid(x) for x in ts.names]
    try:
        r = ts.sorted()
    except CyclicDependencyError as e:
        return {'result': {'cyclic': sorted(nid(k) for k in e.cycles)}, 'names': names}
    except ConfigurationError as e:
        msg = str(e)
        kind = 'unsatBefore' if 'before dependencies' in msg else 'unsatAfter'
        who = [w.strip() for w in msg.split(':', 1)[1].split(',')]
        return {'result': {kind: sorted(nid(w) for w in who)}, 'names': names}
    except Exception as e:
        return {'result': {'raised': type(e).__name__}, 'names': names}
    ok_vals = all(v == 'val-%d' % nid(n) for n, v in r)
    return {'result': {'ok': [nid(n) for n, _ in r]}, 'names': names, 'vals_ok': ok_vals}


# ---------------------------------------------------------------- the property, stated on the case
def current_decls(case):
    """last add per name, in order of last addition; defaults applied"""
    fl = case['flavour']
    decl = {}
    for n, a, b, *_ in case['ops']:
        if a is None and b is None:
            a, b = ((None, [1]) if fl == 'plain' else ([0], None))
        decl.pop(n, None)
        decl[n] = (a, b)
    return decl


def expected(case):
    decl = current_decls(case)
    present = {0, 1} | set(decl)
    unsat_b = sorted(n for n, (a, b) in decl.items() if b is not None and not any(x in present for x in b))
    unsat_a = sorted(n for n, (a, b) in decl.items() if a is not None and not any(x in present for x in a))
    arcs = {(0, 1)}
    for n, (a, b) in decl.items():
        for x in (a or []):
            if x in present: arcs.add((x, n))
        for x in (b or []):
            if x in present: arcs.add((n, x))
    # cycle detection by repeatedly stripping nodes without incoming arcs (independent of the model's loop)
    nodes = set(present); es = set(arcs)
    while True:
        free = [v for v in nodes if not any(e[1] == v for e in es)]
        if not free: break
        for v in free:
            nodes.discard(v)
        es = {e for e in es if e[0] in nodes and e[1] in nodes}
    return {'decl': decl, 'unsat_b': unsat_b, 'unsat_a': unsat_a, 'cyclic': bool(nodes), 'arcs': arcs}


def property_ok(case, got):
    """None when the implementation's outcome satisfies C18 on this case, else a description"""
    ex = expected(case)
    res = got['result']
    if ex['unsat_b']:
        return None if res == {'unsatBefore': ex['unsat_b']} else 'expected unsatisfied-before error for %s' % ex['unsat_b']
    if ex['unsat_a']:
        return None if res == {'unsatAfter': ex['unsat_a']} else 'expected unsatisfied-after error for %s' % ex['unsat_a']
    if ex['cyclic']:
        return None if 'cyclic' in res else 'constraints are cyclic but no CyclicDependencyError'
    if 'ok' not in res:
        return 'satisfiable acyclic constraints but an error was raised: %s' % res
    out = res['ok']
    if sorted(out) != sorted(ex['decl']) or len(set(out)) != len(out):
        return 'result is not a permutation of the added names'
    pos = {n: i for i, n in enumerate(out)}
    for a, b in ex['arcs']:
        if a in pos and b in pos and not pos[a] < pos[b]:
            return 'constraint %s before %s not honoured' % (a, b)
    if not got.get('vals_ok', True):
        return 'values not paired with their names'
    return None


def nontrivial(case, got):
    ex = expected(case)
    if 'ok' not in got['result']:
        return True
    return len(ex['decl']) >= 2 and any(a > 1 and b > 1 for a, b in ex['arcs'])


# ---------------------------------------------------------------- sorter HISTORIES: add / public remove / sorted() anywhere
# One long-lived TopologicalSorter; ops  ['add', n, after, before, scalar_after, scalar_before] | ['remove', n] | ['sorted'].
# `sorted()` may be asked at ANY point and several times; every answer is compared with the model's answer for the state at
# that point, and with the property evaluated on the declarations IN FORCE at that point (last add of every name that was
# not removed afterwards).  remove() of a name that is not there: the real call raises ValueError from `self.names.remove`
# before touching anything ('absent'); the model mirrors it (state unchanged).

def sorted_reply(ts):
    names = [nid(x) for x in ts.names]
    try:
        r = ts.sorted()
    except CyclicDependencyError as e:
        return {'result': {'cyclic': sorted(nid(k) for k in e.cycles)}, 'names': names}
    except ConfigurationError as e:
        msg = str(e)
        kind = 'unsatBefore' if 'before dependencies' in msg else 'unsatAfter'
        who = [w.strip() for w in msg.split(':', 1)[1].split(',')]
        return {'result': {kind: sorted(nid(w) for w in who)}, 'names': names}
    except Exception as e:
        return {'result': {'raised': type(e).__name__}, 'names': names}
    try:
        ok_vals = all(v == 'val-%d' % nid(n) for n, v in r)
        return {'result': {'ok': [nid(n) for n, _ in r]}, 'names': names, 'vals_ok': ok_vals}
    except Exception as e:          # a result naming something that is not (or no longer) a known item
        return {'result': {'raised': 'result:' + type(e).__name__}, 'names': names}


def impl_history(case):
    if case['flavour'] == 'plain':
        ts = TopologicalSorter()
    else:
        ts = TopologicalSorter(default_before=None, default_after=FIRST, first=FIRST, last=LAST)
    out = []
    for op in case['hops']:
        if op[0] == 'add':
            _, n, a, b, sa, sb = op
            try:
                ts.add(name_of(n), 'val-%d' % n, after=to_arg(a, sa), before=to_arg(b, sb))
                out.append('added')
            except Exception as e:
                out.append({'raised': 'add:' + type(e).__name__})
        elif op[0] == 'remove':
            try:
                ts.remove(name_of(op[1]))
                out.append('removed')
            except ValueError:
                out.append('absent')
            except Exception as e:
                out.append({'raised': 'remove:' + type(e).__name__})
        else:
            out.append(sorted_reply(ts))
    return {'replies': out, 'names': [nid(x) for x in ts.names]}


def model_history(case):
    fl = case['flavour']
    return {'first': 0, 'last': 1, 'defBefore': [1] if fl == 'plain' else None, 'defAfter': None if fl == 'plain' else [0],
            'ops': [], 'explicit': [],
            'hops': [['add', o[1], o[2], o[3]] if o[0] == 'add' else list(o) for o in case['hops']]}


def in_force(case, k):
    """the add-only case equivalent to the first k ops: last add of every name not removed since, in order of last addition"""
    decl = {}
    for op in case['hops'][:k]:
        if op[0] == 'add':
            decl.pop(op[1], None)
            decl[op[1]] = op
        elif op[0] == 'remove':
            decl.pop(op[1], None)
    return {'flavour': case['flavour'], 'ops': [[o[1], o[2], o[3], o[4], o[5]] for o in decl.values()]}


def check_history(case, mo):
    """returns (mismatch, violation, got); got['result'] = the last sorted() answer (for the distribution)"""
    got = impl_history(case)
    mism = viol = None
    if mo is not None:
        strip = lambda r: ({'result': r['result'], 'names': r['names']} if isinstance(r, dict) and 'result' in r else r)
        if [strip(r) for r in got['replies']] != mo.get('replies') or got['names'] != mo.get('names'):
            mism = {'case': case, 'impl': got, 'model': mo, 'stream': 'history'}
    last = {'result': 'no-query'}
    for k, (op, rep) in enumerate(zip(case['hops'], got['replies'])):
        if op[0] == 'sorted':
            last = rep
            if viol is None:
                eq = in_force(case, k)
                v = property_ok(eq, rep)
                if v:
                    viol = {'case': case, 'at': k, 'impl': rep, 'in_force': eq['ops'], 'expected': v, 'stream': 'history',
                            'detail': 'sorted() call number %d of a history (after %d ops): %s' % (
                                sum(1 for o in case['hops'][:k + 1] if o[0] == 'sorted'), k, v)}
        elif op[0] == 'add' and rep != 'added' and viol is None:
            viol = {'case': case, 'at': k, 'impl': rep, 'expected': 'added', 'stream': 'history', 'detail': 'add() raised'}
    return mism, viol, dict(got, result=last['result'])


def valid_history(c):
    try:
        if c.get('flavour') not in ('plain', 'tween') or not c.get('hops'):
            return False
        for o in c['hops']:
            if o[0] == 'add':
                if len(o) != 6 or not valid_direct({'flavour': 'plain', 'ops': [o[1:]]}):
                    return False
            elif o[0] == 'remove':
                if len(o) != 2 or not isinstance(o[1], int) or not 2 <= o[1] <= 8:
                    return False
            elif o != ['sorted']:
                return False
        return True
    except Exception:
        return False


def shrink_history_case(case):
    def fails(c):
        return valid_history(c) and check_history(c, None)[1] is not None
    small = vfutil.shrink(case, fails, max_steps=600)
    _, v, _ = check_history(small, None)
    if v is None:
        _, v, _ = check_history(case, None)
    return v


def gen_history(rng):
    npool = rng.randint(1, 5)
    flavour = rng.choice(['plain', 'plain', 'tween'])
    hops = []
    for _ in range(rng.randint(2, 12)):
        r = rng.random()
        if r < 0.5:
            n = rng.randrange(2, 2 + npool)
            a = gen_constraint(rng, npool); b = gen_constraint(rng, npool)
            hops.append(['add', n, a and a[0], b and b[0], bool(a and a[1]), bool(b and b[1])])
        elif r < 0.72:
            hops.append(['remove', rng.randrange(2, 2 + npool)])
        else:
            hops.append(['sorted'])
    hops.append(['sorted'])
    return {'flavour': flavour, 'hops': hops}


def history_alphabet(k, alts):
    """ops over the first k pool names: add x with (after, before) in {none, after y, before y[, after (absent, y),
    before (absent, y)]} for every other name y, remove x, sorted"""
    names = list(range(2, 2 + k))
    ops = [['sorted']]
    for x in names:
        ops.append(['remove', x])
        ops.append(['add', x, None, None, False, False])
        for y in names:
            if y == x:
                continue
            ops.append(['add', x, [y], None, True, False])
            ops.append(['add', x, None, [y], False, True])
            if alts:
                ops.append(['add', x, [9, y], None, False, False])
                ops.append(['add', x, None, [9, y], False, False])
    return ops


def canonical_history(hops):
    """names are interchangeable: keep only histories that mention them in the order 2, 3, 4 (first occurrence)"""
    nxt = 2
    for o in hops:
        for x in ([o[1]] + (o[2] or []) + (o[3] or []) if o[0] == 'add' else [o[1]] if o[0] == 'remove' else []):
            if 2 <= x <= 8:
                if x > nxt:
                    return False
                if x == nxt:
                    nxt += 1
    return True


def small_histories(k, alts, maxlen, flavours=('plain', 'tween')):
    """all canonical histories of <= maxlen ops over history_alphabet(k, alts) that end with sorted() and contain at
    least one add (a history is judged at every sorted() in it, so the prefixes are covered)"""
    alpha = history_alphabet(k, alts)
    for n in range(2, maxlen + 1):
        for body in itertools.product(alpha, repeat=n - 1):
            if not any(o[0] == 'add' for o in body) or not canonical_history(body):
                continue
            for fl in flavours:
                yield {'flavour': fl, 'hops': [list(o) for o in body] + [['sorted']]}


# ---------------------------------------------------------------- PREDICATE histories through the real Configurator
# add_view_predicate / add_route_predicate / add_subscriber_predicate with weighs_more_than (= after) / weighs_less_than
# (= before) over several COMMITS; a later round may re-add a name with other hints or another factory (across commits that
# is not a conflict: the re-added name replaces the earlier one).  Every round also registers a consumer (a view / route /
# subscriber using the custom predicates in force) in the same commit, so that PredicateList.make is consulted between the
# rounds, and after the commit make() is called directly with every predicate we have a value for: the order of the
# predicates it returns IS the order make() uses (weights), and the class of each returned predicate tells which factory is
# in force.  Model: the plain sorter fed with the built-in predicates (no hints) and then the declarations made so far.
PRED_KINDS = ('view', 'route', 'subscriber')
PRED_NAMES = ['pa', 'pb', 'pc']            # ids 2..4
PRED_ABSENT = ['zq1', 'zq2', 'zq3']        # ids 9..11
_PRED_FACTORIES = {}
_PRED_BUILTINS = {}


def pred_factory(n, variant):
    key = (n, variant)
    if key not in _PRED_FACTORIES:
        class P:
            def __init__(self, val, info):
                self.val = val

            def text(self):
                return '%s#%d = %r' % (PRED_NAMES[n - 2], variant, self.val)
            phash = text

            def __call__(self, *args):
                return True
        P._c18 = key
        P.__name__ = 'P_%s_%d' % (PRED_NAMES[n - 2], variant)
        _PRED_FACTORIES[key] = P
    return _PRED_FACTORIES[key]


def pred_builtins(kind):
    """(names of the predicates a fresh Configurator has for `kind`, values make() accepts for them) — read from the tree
    under test once per run"""
    if kind not in _PRED_BUILTINS:
        from pyramid.config import Configurator
        from pyramid.registry import predvalseq
        from pyramid.interfaces import IRequest
        config = Configurator()
        pl = config.get_predlist(kind)
        names = list(pl.sorter.names)
        cand = {'xhr': True, 'request_method': 'GET', 'path_info': '/a', 'request_param': 'a', 'header': 'X-A',
                'accept': 'text/html', 'containment': object, 'request_type': IRequest, 'match_param': 'a=1',
                'physical_path': '/a', 'is_authenticated': True, 'effective_principals': 'x', 'traverse': '/x',
                'custom': predvalseq((lambda *a: True,))}
        values = {}
        for nme in names:
            if nme in cand:
                try:
                    pl.make(config, **{nme: cand[nme]})
                    values[nme] = cand[nme]
                except Exception:
                    pass
        _PRED_BUILTINS[kind] = (names, values)
    return _PRED_BUILTINS[kind]


def pred_name(i, kind):
    if i == 0: return FIRST
    if i == 1: return LAST
    if i < 9: return PRED_NAMES[i - 2]
    if i < 20: return PRED_ABSENT[i - 9]
    return pred_builtins(kind)[0][i - 20]


def pred_arg(lst, scalar, kind):
    if lst is None:
        return None
    vals = [pred_name(i, kind) for i in lst]
    return vals[0] if scalar and len(vals) == 1 else tuple(vals)


def classify_config_error(e):
    s_ = str(e)
    if isinstance(e, CyclicDependencyError) or 'CyclicDependencyError' in s_ or 'Implicit ordering cycle' in s_:
        return 'cyclic'
    if 'Unsatisfied' in s_:
        return 'unsat'
    if 'conflict' in s_.lower():
        return 'conflict'
    return 'error:' + s_[:80]


def impl_pred_history(case):
    from pyramid.config import Configurator
    from pyramid.response import Response
    from zope.interface import Interface
    kind = case['kind']
    bnames, bvalues = pred_builtins(kind)
    out = []
    try:
        config = Configurator()
    except Exception as e:
        return [{'result': 'raised-in-setup:' + type(e).__name__}]
    in_force = {}
    for k, ops in enumerate(case['rounds']):
        try:
            for n, a, b, sa, sb, fac in ops:
                getattr(config, 'add_%s_predicate' % kind)(
                    PRED_NAMES[n - 2], pred_factory(n, fac),
                    weighs_more_than=pred_arg(a, sa, kind), weighs_less_than=pred_arg(b, sb, kind))
                in_force[n] = fac
            kw = {PRED_NAMES[n - 2]: 1 for n in in_force}
            if kind == 'view':
                config.add_view(lambda c, r: Response('ok'), name='round%d' % k, **kw)
            elif kind == 'route':
                config.add_route('round%d' % k, '/round%d' % k, **kw)
            else:
                config.add_subscriber(lambda *ev: None, Interface, **kw)
            config.commit()
            pl = config.get_predlist(kind)
            vals = dict(bvalues)
            vals.update(kw)
            order, preds, phash = pl.make(config, **vals)
        except (CyclicDependencyError, ConfigurationError) as e:
            out.append({'result': classify_config_error(e)}); break
        except Exception as e:
            out.append({'result': 'raised:' + type(e).__name__}); break
        fac2name = {}
        for nme in bnames:
            fac2name[pl.sorter.name2val.get(nme)] = nme
        seq, variants = [], {}
        for p_ in preds:
            c18 = getattr(type(p_), '_c18', None)
            if c18 is not None:
                seq.append(c18[0]); variants[str(c18[0])] = c18[1]
            elif type(p_) in fac2name:
                seq.append(20 + bnames.index(fac2name[type(p_)]))
            else:
                seq.append(-1)
        out.append({'result': 'ok', 'order': seq, 'variants': variants})
    return out


def pred_prefix_ops(case, k):
    """the add calls on the sorter up to and including round k: the built-ins (no hints), then the user's"""
    bnames, _ = pred_builtins(case['kind'])
    ops = [[20 + i, None, None, False, False] for i in range(len(bnames))]
    ops += [[o[0], o[1], o[2], o[3], o[4]] for r in case['rounds'][:k + 1] for o in r]
    return {'flavour': 'plain', 'ops': ops}


def check_pred_history(case, mos):
    gots = impl_pred_history(case)
    mism = viol = None
    _, bvalues = pred_builtins(case['kind'])
    bnames = pred_builtins(case['kind'])[0]
    observable = {20 + i for i, nme in enumerate(bnames) if nme in bvalues} | {2, 3, 4}
    for k, got in enumerate(gots):
        full = pred_prefix_ops(case, k)
        in_force = {}
        for r in case['rounds'][:k + 1]:
            for o in r:
                in_force[o[0]] = o[5]
        mo = mos[k] if mos else None
        if mo is not None and not mism:
            if 'ok' in mo['result']:
                exp_model = {'result': 'ok', 'order': [x for x in mo['result']['ok'] if x in observable],
                             'variants': {str(n): f for n, f in sorted(in_force.items())}}
            else:
                exp_model = {'result': 'cyclic' if 'cyclic' in mo['result'] else 'unsat'}
            g = dict(got)
            if 'variants' in g:
                g['variants'] = dict(sorted(g['variants'].items()))
            if g != exp_model:
                mism = {'case': case, 'round': k, 'impl': got, 'model': exp_model, 'stream': 'predicates'}
        if viol:
            continue
        ex = expected(full)
        want = 'unsat' if (ex['unsat_b'] or ex['unsat_a']) else 'cyclic' if ex['cyclic'] else 'ok'
        v = None
        if got['result'] != want:
            v = 'expected outcome %s for the declarations in force' % want
        elif want == 'ok':
            seq = got['order']
            pos = {n: i for i, n in enumerate(seq)}
            if len(pos) != len(seq) or -1 in pos:
                v = 'make() returned a predicate twice / an unknown predicate'
            elif {n for n in seq if n < 9} != set(in_force):
                v = 'the custom predicates make() used are not the ones in force'
            elif got['variants'] != {str(n): f for n, f in in_force.items()}:
                v = 'a re-added predicate name does not use its latest factory'
            else:
                for a, b in ex['arcs']:
                    if a in pos and b in pos and not pos[a] < pos[b]:
                        v = 'constraint %s weighs less than %s not honoured by the order make() uses' % (a, b)
                        break
        if v:
            viol = {'case': case, 'round': k, 'impl': got, 'expected': v, 'stream': 'predicates',
                    'detail': '%s predicates after round %d of a multi-commit history: %s' % (case['kind'], k, v)}
    return mism, viol, (gots[-1] if gots else {'result': 'none'})


def gen_pred_constraint(rng, npool, nb):
    r = rng.random()
    if r < 0.35:
        return None
    cands = list(range(2, 2 + npool)) + ([20, 21, 20 + nb - 1] if nb >= 2 else []) + [0, 1] + [9, 10]
    weights = [4] * npool + ([2, 1, 2] if nb >= 2 else []) + [1, 1] + [1, 1]
    if r < 0.75:
        return [rng.choices(cands, weights)[0]], True
    return [rng.choices(cands, weights)[0] for _ in range(2)], False


def gen_pred_history(rng):
    kind = rng.choice(['view', 'view', 'route', 'subscriber'])
    nb = len(pred_builtins(kind)[0])
    npool = rng.randint(1, 3)
    rounds = []
    for r in range(rng.choice([2, 2, 3, 3, 4])):
        ops = []
        for n in rng.sample(range(2, 2 + npool), rng.randint(1, npool)):
            a = gen_pred_constraint(rng, npool, nb); b = gen_pred_constraint(rng, npool, nb)
            ops.append([n, a and a[0], b and b[0], bool(a and a[1]), bool(b and b[1]), rng.randrange(2)])
        rounds.append(ops)
    return {'flavour': 'predicate', 'kind': kind, 'rounds': rounds}


def pred_hint_shapes(x, y, nb):
    """(after, before) shapes for name x relative to another custom name y"""
    sh = [(None, None), ([y], None), (None, [y]), ([9, y], None), (None, [9, y]), ([9], None), ([y], [y])]
    if nb >= 2:
        sh += [(None, [20]), ([20 + nb - 1], None)]
    return sh


def small_pred_histories(kind, nrounds):
    """two custom names added in round 0 (the second with every hint shape relative to the first); every later round
    re-adds one of them with every hint shape and either factory, or adds a third name"""
    nb = len(pred_builtins(kind)[0])

    def op(n, sh, fac):
        a, b = sh
        return [n, a, b, bool(a and len(a) == 1), bool(b and len(b) == 1), fac]
    later = []
    for x, y in ((2, 3), (3, 2)):
        for sh in pred_hint_shapes(x, y, nb):
            for fac in (0, 1):
                later.append([op(x, sh, fac)])
    for sh in pred_hint_shapes(4, 2, nb):
        later.append([op(4, sh, 0)])
    for sh0 in pred_hint_shapes(3, 2, nb):
        first = [op(2, (None, None), 0), op(3, sh0, 0)]
        for rest in itertools.product(later, repeat=nrounds - 1):
            yield {'flavour': 'predicate', 'kind': kind, 'rounds': [first] + [list(r) for r in rest]}


def valid_pred_history(c):
    try:
        if c.get('flavour') != 'predicate' or c.get('kind') not in PRED_KINDS or not c.get('rounds') or any(not r for r in c['rounds']):
            return False
        nb = len(pred_builtins(c['kind'])[0])
        for r in c['rounds']:
            if len({o[0] for o in r}) < len(r):
                return False
            for o in r:
                if not (len(o) == 6 and o[0] in (2, 3, 4) and o[5] in (0, 1) and isinstance(o[3], bool) and isinstance(o[4], bool)):
                    return False
                for x in (o[1], o[2]):
                    if x is not None and not (isinstance(x, list) and x and all(
                            isinstance(y, int) and (0 <= y <= 4 or 9 <= y <= 11 or 20 <= y < 20 + nb) for y in x)):
                        return False
        return True
    except Exception:
        return False


def shrink_pred_history(case):
    def bad(c):
        return valid_pred_history(c) and check_pred_history(c, None)[1] is not None
    try:
        small = vfutil.shrink(case, bad, max_steps=200)
        return check_pred_history(small, None)[1] or check_pred_history(case, None)[1]
    except Exception:
        return check_pred_history(case, None)[1]


# ---------------------------------------------------------------- configurator streams
def _tween_module():
    name = 'verif_c18_tweens'
    if name in sys.modules:
        return sys.modules[name]
    m = types.ModuleType(name)
    m.LOG = []
    for t in POOL:
        def factory(handler, registry, t=t):
            def tween(request):
                m.LOG.append(('enter', t))
                try:
                    return handler(request)
                finally:
                    m.LOG.append(('exit', t))
            return tween
        setattr(m, t, factory)
    sys.modules[name] = m
    return m


def impl_tweens(case):
    """case['ops'] over POOL names as tweens `verif_c18_tweens.<x>`; optional explicit list"""
    from pyramid.config import Configurator
    from pyramid.tweens import EXCVIEW, INGRESS, MAIN
    from pyramid.interfaces import ITweens
    from pyramid.request import Request
    from pyramid.response import Response
    m = _tween_module()
    dn = lambda i: INGRESS if i == 0 else MAIN if i == 1 else (m.__name__ + '.' + name_of(i) if i < 9 else 'absent.' + name_of(i))
    settings = {}
    if case.get('explicit'):
        settings['pyramid.tweens'] = [dn(i) for i in case['explicit']]
    try:
        config = Configurator(settings=settings)
        for n, a, b, sa, sb in case['ops']:
            under = None if a is None else (dn(a[0]) if sa and len(a) == 1 else tuple(dn(x) for x in a))
            over = None if b is None else (dn(b[0]) if sb and len(b) == 1 else tuple(dn(x) for x in b))
            config.add_tween(dn(n), under=under, over=over)
        config.add_view(lambda r: (m.LOG.append(('core',)), Response('ok'))[1], name='')
        app = config.make_wsgi_app()
    except CyclicDependencyError:
        return {'result': 'cyclic'}
    except ConfigurationError as e:
        s = str(e)
        if 'cannot be over INGRESS' in s or 'cannot be under MAIN' in s:
            return {'result': 'rejected'}
        if 'CyclicDependencyError' in s:
            return {'result': 'cyclic'}
        if 'Unsatisfied' in s:
            return {'result': 'unsat'}
        if 'conflict' in s.lower():
            return {'result': 'conflict'}
        return {'result': 'error:' + s[:80]}
    except Exception as e:
        return {'result': 'raised:' + type(e).__name__}
    del m.LOG[:]
    try:
        Request.blank('/').get_response(app)
    except Exception as e:           # a chain assembled in a wrong order may not even be callable
        return {'result': 'raised-on-request:' + type(e).__name__}
    tr = []
    for ev in m.LOG:
        if ev[0] == 'core': tr.append(1000000)
        elif ev[0] == 'enter': tr.append(nid(ev[1]))
        else: tr.append(-nid(ev[1]) - 1)
    tw = config.registry.queryUtility(ITweens)
    try:
        implicit = [12 if x == EXCVIEW else nid(x.split('.')[-1]) for x, _ in tw.implicit()]
    except Exception:
        implicit = None            # only possible with an explicit chain (the implicit order is then never computed)
    return {'result': 'ok', 'trace': tr, 'implicit': implicit}


def gen_tween_case(rng):
    npool = rng.randint(1, 5)
    ops, used = [], []
    for n in rng.sample(range(2, 2 + npool), rng.randint(1, npool)):      # each tween once (a re-add would conflict)
        a = gen_constraint(rng, npool); b = gen_constraint(rng, npool)
        ops.append([n, a and a[0], b and b[0], bool(a and a[1]), bool(b and b[1])])
        used.append(n)
    explicit = []
    if rng.random() < 0.3:
        explicit = rng.sample(used, rng.randint(1, len(used)))
    return {'flavour': 'tween', 'ops': ops, 'explicit': explicit}


def model_tween_case(case):
    # EXCVIEW (id 12) is added by Configurator.setup_registry before any user tween, with no constraints
    mc = model_case(case)
    mc['ops'] = [[12, None, None]] + mc['ops']
    return mc


def check_tween(case, mo):
    got = impl_tweens(case)
    rejected = any((b and 0 in b) or (a and 1 in a) for _, a, b, *_ in case['ops'])
    exp_model = None
    if mo is not None:
        user = lambda l: [x for x in l if x not in (12, -13)]
        if rejected:
            exp_model = {'result': 'rejected'}
        elif case.get('explicit'):
            exp_model = {'result': 'ok', 'trace': user(mo['trace']), 'implicit': mo['result'].get('ok')}
        elif 'ok' in mo['result']:
            exp_model = {'result': 'ok', 'trace': user(mo['trace']), 'implicit': mo['result']['ok']}
        else:
            exp_model = {'result': 'cyclic' if 'cyclic' in mo['result'] else 'unsat'}
    mism = None
    if exp_model is not None and got != exp_model:
        mism = {'case': case, 'impl': got, 'model': exp_model, 'stream': 'tweens'}
    # property on the implementation: first = outermost (entered first, left last); explicit replaces implicit
    viol = None
    if got['result'] != 'ok' and not rejected:
        ex = expected({'flavour': 'tween', 'ops': [[12, None, None, False, False]] + case['ops']})
        want = 'ok' if case.get('explicit') else 'unsat' if (ex['unsat_b'] or ex['unsat_a']) else 'cyclic' if ex['cyclic'] else 'ok'
        if got['result'] != want:
            viol = {'case': case, 'impl': got, 'expected': want, 'detail': 'tween chain: expected outcome %s' % want, 'stream': 'tweens'}
    if got['result'] == 'ok':
        tr = got['trace']
        enters = [x for x in tr if 0 <= x < 1000000]
        exits = [-x - 1 for x in tr if x < 0]
        want = case['explicit'] if case.get('explicit') else [x for x in got['implicit'] if x != 12]
        if enters != want or exits != want[::-1] or tr != enters + [1000000] + [-x - 1 for x in exits]:
            viol = {'case': case, 'impl': got, 'expected': {'enter_order': want}, 'detail': 'tweens do not wrap in chain order (first outermost)', 'stream': 'tweens'}
        elif not case.get('explicit'):
            v = property_ok({'flavour': 'tween', 'ops': [[12, None, None, False, False]] + case['ops']},
                            {'result': {'ok': got['implicit']}})
            if v and not rejected:
                viol = {'case': case, 'impl': got, 'expected': v, 'detail': 'implicit tween order violates a declared constraint: ' + v, 'stream': 'tweens'}
    return mism, viol, got


# ------------------------------------------------------------------------------------------------------
# tween HISTORIES: several commits on one configurator; a later round may re-add an existing tween name with other
# hints (across commits that is not a conflict: "a re-added name replaces the earlier one").  After every round the
# implicit chain is asked for AND a fresh application is built and called, so that anything remembered from an earlier
# round (a memoised chain, a stale sorter field) shows.  The model is a function of the declarations made so far.

def gen_tween_history(rng):
    npool = rng.randint(2, 5)
    rounds = []
    for r in range(rng.choice([2, 2, 3, 3, 4])):
        k = rng.randint(1, min(3, npool))
        ops = []
        for n in rng.sample(range(2, 2 + npool), k):
            a = gen_constraint(rng, npool); b = gen_constraint(rng, npool)
            ops.append([n, a and a[0], b and b[0], bool(a and a[1]), bool(b and b[1])])
        rounds.append(ops)
    return {'flavour': 'tween', 'rounds': rounds, 'explicit': []}


def history_prefix(case, k):
    ops = [op for r in case['rounds'][:k + 1] for op in r]
    return {'flavour': 'tween', 'ops': ops, 'explicit': []}


def impl_tween_history(case):
    from pyramid.config import Configurator
    from pyramid.tweens import EXCVIEW, INGRESS, MAIN
    from pyramid.interfaces import ITweens
    from pyramid.request import Request
    from pyramid.response import Response
    m = _tween_module()
    dn = lambda i: INGRESS if i == 0 else MAIN if i == 1 else (m.__name__ + '.' + name_of(i) if i < 9 else 'absent.' + name_of(i))
    out = []
    try:
        config = Configurator()
        config.add_view(lambda r: (m.LOG.append(('core',)), Response('ok'))[1], name='')
        config.commit()
    except Exception as e:           # the tree under test cannot even set a configurator up
        return [{'result': 'raised-in-setup:' + type(e).__name__}]
    for ops in case['rounds']:
        try:
            for n, a, b, sa, sb in ops:
                under = None if a is None else (dn(a[0]) if sa and len(a) == 1 else tuple(dn(x) for x in a))
                over = None if b is None else (dn(b[0]) if sb and len(b) == 1 else tuple(dn(x) for x in b))
                config.add_tween(dn(n), under=under, over=over)
            config.commit()
            tw = config.registry.queryUtility(ITweens)
            implicit = [12 if x == EXCVIEW else nid(x.split('.')[-1]) for x, _ in tw.implicit()]
            app = config.make_wsgi_app()
        except CyclicDependencyError:
            out.append({'result': 'cyclic'}); break
        except ConfigurationError as e:
            s_ = str(e)
            r = ('rejected' if ('cannot be over INGRESS' in s_ or 'cannot be under MAIN' in s_) else
                 'cyclic' if 'CyclicDependencyError' in s_ else 'unsat' if 'Unsatisfied' in s_ else
                 'conflict' if 'conflict' in s_.lower() else 'error:' + s_[:80])
            out.append({'result': r}); break
        except Exception as e:
            out.append({'result': 'raised:' + type(e).__name__}); break
        del m.LOG[:]
        try:
            Request.blank('/').get_response(app)
        except Exception as e:
            out.append({'result': 'raised-on-request:' + type(e).__name__}); break
        tr = []
        for ev in m.LOG:
            if ev[0] == 'core': tr.append(1000000)
            elif ev[0] == 'enter': tr.append(nid(ev[1]))
            else: tr.append(-nid(ev[1]) - 1)
        out.append({'result': 'ok', 'trace': tr, 'implicit': implicit})
    return out


def check_tween_history(case, mos):
    """mos: model replies for every prefix (or None).  Returns (mismatch, violation, last_got)"""
    gots = impl_tween_history(case)
    mism = viol = None
    for k, got in enumerate(gots):
        pc = history_prefix(case, k)
        rejected = any((b and 0 in b) or (a and 1 in a) for _, a, b, *_ in pc['ops'])
        mo = mos[k] if mos else None
        if mo is not None and not mism:
            user = lambda l: [x for x in l if x not in (12, -13)]
            if rejected:
                exp_model = {'result': 'rejected'}
            elif 'ok' in mo['result']:
                exp_model = {'result': 'ok', 'trace': user(mo['trace']), 'implicit': mo['result']['ok']}
            else:
                exp_model = {'result': 'cyclic' if 'cyclic' in mo['result'] else 'unsat'}
            if got != exp_model:
                mism = {'case': case, 'round': k, 'impl': got, 'model': exp_model, 'stream': 'tween-history'}
        if viol or rejected:
            continue
        full = {'flavour': 'tween', 'ops': [[12, None, None, False, False]] + pc['ops']}
        ex = expected(full)
        want = 'unsat' if (ex['unsat_b'] or ex['unsat_a']) else 'cyclic' if ex['cyclic'] else 'ok'
        if got['result'] != want:
            viol = {'case': case, 'round': k, 'impl': got, 'expected': want, 'stream': 'tween-history',
                    'detail': 'tween chain after round %d of a multi-commit history: expected outcome %s for the declarations in force' % (k, want)}
        elif got['result'] == 'ok':
            tr = got['trace']
            enters = [x for x in tr if 0 <= x < 1000000]
            exits = [-x - 1 for x in tr if x < 0]
            wantl = [x for x in got['implicit'] if x != 12]
            v = property_ok(full, {'result': {'ok': got['implicit']}})
            if enters != wantl or exits != wantl[::-1]:
                viol = {'case': case, 'round': k, 'impl': got, 'expected': {'enter_order': wantl}, 'stream': 'tween-history',
                        'detail': 'tweens do not wrap in chain order (first outermost)'}
            elif v:
                viol = {'case': case, 'round': k, 'impl': got, 'expected': v, 'stream': 'tween-history',
                        'detail': 'after round %d the implicit tween order does not honour the declarations in force (a re-added name replaces the earlier one): %s' % (k, v)}
    return mism, viol, (gots[-1] if gots else {'result': 'ok'})


def shrink_history(case):
    def bad(c):
        try:
            if c.get('flavour') != 'tween' or c.get('explicit') != [] or not c.get('rounds') or any(not r for r in c['rounds']):
                return False
            for r in c['rounds']:
                for o in r:
                    if not (isinstance(o, list) and len(o) == 5 and isinstance(o[0], int) and 2 <= o[0] <= 8):
                        return False
                    for x in (o[1], o[2]):
                        if x is not None and not (isinstance(x, list) and x and all(isinstance(y, int) and 0 <= y <= 11 for y in x)):
                            return False
                    if not (isinstance(o[3], bool) and isinstance(o[4], bool)):
                        return False
            if any(len({o[0] for o in r}) < len(r) for r in c['rounds']):
                return False
            return check_tween_history(c, None)[1] is not None
        except Exception:
            return False
    try:
        small = vfutil.shrink(case, bad, max_steps=300)
        v = check_tween_history(small, None)[1]
        return v or check_tween_history(case, None)[1]
    except Exception:
        return check_tween_history(case, None)[1]


DERIVER_IDS = {}


def impl_derivers(case, gen):
    """user derivers u0..u3 (ids 2..5 of POOL) added with under/over among default deriver names"""
    from pyramid.config import Configurator
    from pyramid.interfaces import IViewDerivers
    from pyramid.request import Request
    from pyramid.response import Response
    from pyramid.viewderivers import INGRESS, VIEW
    names = gen['deriver_names']     # id -> name for default derivers, ids 20..
    dn = lambda i: INGRESS if i == 0 else VIEW if i == 1 else (name_of(i) if i < 20 else names[i - 20])
    log = []

    def mk(t):
        def deriver(view, info):
            def wrapped(context, request):
                log.append(('enter', t))
                try:
                    return view(context, request)
                finally:
                    log.append(('exit', t))
            return wrapped
        deriver.__name__ = t
        return deriver
    try:
        config = Configurator()
        for n, a, b, sa, sb in case['ops']:
            under = None if a is None else (dn(a[0]) if sa and len(a) == 1 else tuple(dn(x) for x in a))
            over = None if b is None else (dn(b[0]) if sb and len(b) == 1 else tuple(dn(x) for x in b))
            config.add_view_deriver(mk(name_of(n)), name=name_of(n), under=under, over=over)
        config.add_view(lambda c, r: (log.append(('core',)), Response('ok'))[1], name='')
        app = config.make_wsgi_app()
    except CyclicDependencyError:
        return {'result': 'cyclic'}
    except ConfigurationError as e:
        s = str(e)
        if 'cannot be' in s or 'reserved' in s:
            return {'result': 'rejected'}
        if 'CyclicDependencyError' in s:
            return {'result': 'cyclic'}
        if 'Unsatisfied' in s:
            return {'result': 'unsat'}
        return {'result': 'error:' + s[:80]}
    except Exception as e:
        return {'result': 'raised:' + type(e).__name__}
    try:
        Request.blank('/').get_response(app)
    except Exception as e:
        return {'result': 'raised-on-request:' + type(e).__name__}
    order = [n for n, _ in config.registry.getUtility(IViewDerivers).sorted()]
    rev = {v: k + 20 for k, v in enumerate(names)}
    ids = [rev[n] if n in rev else nid(n) for n in order]
    enters = [nid(t) for k, *r in log if k == 'enter' for t in r]
    exits = [nid(t) for k, *r in log if k == 'exit' for t in r]
    return {'result': 'ok', 'order': ids, 'enters': enters, 'exits': exits, 'core': sum(1 for e in log if e[0] == 'core')}


def deriver_model_ops(case, gen):
    """the add calls the configurator makes on the sorter: generated default chain, then the user's,
    with add_view_deriver's normalisation (defaults, sorted tuples, mapped_view appended when over VIEW)"""
    names = gen['deriver_names']
    idx = {n: 20 + i for i, n in enumerate(names)}
    key = lambda i: ('INGRESS' if i == 0 else 'VIEW' if i == 1 else name_of(i) if i < 20 else names[i - 20])

    def norm(n, under, over):
        under = [idx['decorated_view']] if under is None else list(under)
        over = [idx['rendered_view']] if over is None else list(over)
        sort = lambda l: sorted(l, key=key)
        over, under = sort(over), sort(under)
        if 1 in over and n != idx['mapped_view']:
            over = sort(over + [idx['mapped_view']])
        return [n, under, over]
    ops = []
    for d in gen['default_derivers']:
        tr = lambda x: 0 if x == 'INGRESS' else 1 if x == 'VIEW' else idx[x]
        ops.append(norm(idx[d['name']], [tr(d['under'])], [tr(d['over'])]))
    for n, a, b, *_ in case['ops']:
        ops.append(norm(n, a, b))
    return ops


def gen_deriver_case(rng, gen):
    nd = len(gen['deriver_names'])
    k = rng.randint(1, 3)
    ops = []
    for n in rng.sample(range(2, 6), k):
        def c():
            r = rng.random()
            if r < 0.3: return None
            cands = list(range(20, 20 + nd)) + [0, 1] + [9] + list(range(2, 6))
            w = [3] * nd + [1, 1, 1] + [1] * 4
            if r < 0.7: return [rng.choices(cands, w)[0]], True
            return [rng.choices(cands, w)[0] for _ in range(2)], False
        a, b = c(), c()
        ops.append([n, a and a[0], b and b[0], bool(a and a[1]), bool(b and b[1])])
    return {'flavour': 'deriver', 'ops': ops}


def check_deriver(case, mo, gen):
    got = impl_derivers(case, gen)
    names = gen['deriver_names']
    idx = {n: 20 + i for i, n in enumerate(names)}
    rejected = any((b and 0 in b) or (a and (1 in a or idx['mapped_view'] in a)) for _, a, b, *_ in case['ops'])
    mism = viol = None
    if mo is not None:
        if rejected:
            exp = 'rejected'
        elif 'ok' in mo['result']:
            exp = 'ok'
        else:
            exp = 'cyclic' if 'cyclic' in mo['result'] else 'unsat'
        if got['result'] != exp or (exp == 'ok' and got['order'] != mo['result']['ok']):
            mism = {'case': case, 'impl': got, 'model': mo['result'], 'stream': 'derivers'}
    if got['result'] != 'ok' and not rejected:
        ex = expected({'flavour': 'tween', 'ops': [[o[0], o[1], o[2], False, False] for o in deriver_model_ops(case, gen)]})
        want = 'unsat' if (ex['unsat_b'] or ex['unsat_a']) else 'cyclic' if ex['cyclic'] else 'ok'
        if got['result'] != want:
            viol = {'case': case, 'impl': got, 'expected': want, 'detail': 'view deriver pipeline: expected outcome %s' % want, 'stream': 'derivers'}
    if got['result'] == 'ok':
        order = got['order']
        user = [x for x in order if x < 20]
        if got['enters'] != user or got['exits'] != user[::-1] or got['core'] != 1:
            viol = {'case': case, 'impl': got, 'expected': {'enter_order': user}, 'detail': 'derivers do not wrap the view in sorted order', 'stream': 'derivers'}
        elif [x for x in order if x >= 20] != [idx[n] for n in gen['expected_default_order']] or order[-1] != idx['mapped_view']:
            # the default pipeline keeps its order (permission check outermost of the defaults) and the user's callable
            # (mapped_view) stays innermost whatever user derivers are added
            viol = {'case': case, 'impl': got, 'expected': gen['expected_default_order'], 'detail': 'default deriver pipeline reordered / mapped_view not innermost', 'stream': 'derivers'}
        elif not case['ops'] and order[0] != idx['secured_view']:
            viol = {'case': case, 'impl': got, 'expected': 'secured_view outermost', 'detail': 'permission check not outermost', 'stream': 'derivers'}
        else:
            ops = deriver_model_ops(case, gen)
            v = property_ok({'flavour': 'tween', 'ops': [[o[0], o[1], o[2], False, False] for o in ops]}, {'result': {'ok': order}})
            if v:
                viol = {'case': case, 'impl': got, 'expected': v, 'detail': 'deriver order violates a declared constraint: ' + v, 'stream': 'derivers'}
    return mism, viol, got


# the documented default pipeline (docs/narr/hooks.rst "View Derivers"), stated here independently of the code; used as
# the expected order, and as the model's input when the probes of extract/c18.py could not observe the chain (a tree
# on which `Configurator()` itself fails): the checks then still run and report the failing input
DOCUMENTED_ORDER = ['secured_view', 'csrf_view', 'owrapped_view', 'http_cached_view', 'decorated_view', 'rendered_view', 'mapped_view']
DOCUMENTED_CHAIN = [('secured_view', 'INGRESS', 'VIEW'), ('owrapped_view', 'secured_view', 'VIEW'),
                    ('http_cached_view', 'owrapped_view', 'VIEW'), ('decorated_view', 'http_cached_view', 'VIEW'),
                    ('rendered_view', 'decorated_view', 'VIEW'), ('mapped_view', 'rendered_view', 'VIEW'),
                    ('csrf_view', 'secured_view', 'owrapped_view')]


def load_gen(ctx):
    """facts observed on the tree under test by extract/c18.py (also compiled into Gen/C18.lean)"""
    import importlib.util, os
    p = os.path.join(ctx.verif, 'extract', 'c18.py')
    spec = importlib.util.spec_from_file_location('extract_c18_h', p)
    m = importlib.util.module_from_spec(spec); spec.loader.exec_module(m)
    f = m.facts(ctx.src)
    names = f.get('deriver_names') or []
    known = set(names) | {'INGRESS', 'VIEW'}
    usable = (names and 'unknown' not in names and set(DOCUMENTED_ORDER) <= set(names)
              and all(d.get('under') in known and d.get('over') in known for d in f['default_derivers']))
    if not usable:
        f['probe_unusable'] = True
        f['default_derivers'] = [{'name': n, 'under': u, 'over': o} for n, u, o in DOCUMENTED_CHAIN]
        f['deriver_names'] = [n for n, _, _ in DOCUMENTED_CHAIN]
    f['expected_default_order'] = list(DOCUMENTED_ORDER)
    return f


# ---------------------------------------------------------------- DETERMINISM ACROSS PROCESSES
# "... and is the same whenever the same additions are made": one process always agrees with itself, but an order that
# depends on the iteration order of a set of strings changes with the per-process string hash seed.  The same addition
# sequences are therefore evaluated in CHILD interpreters with PYTHONHASHSEED = 0, 1, 2, 3 (PYTHONPATH = the tree under
# test; one child per seed evaluates the whole batch by importing this harness) and the outputs must be identical -
# and equal to the model's order.  A case carries 'det': 'direct' | 'tweens' | 'derivers'.
DET_SEEDS = (0, 1, 2, 3)
_DET_CHILD = r"""
import sys, json, importlib.util
src, verif = sys.argv[1], sys.argv[2]
sys.path[:0] = [src, verif + '/lib', verif]
import warnings; warnings.simplefilter('ignore')
spec = importlib.util.spec_from_file_location('harness_c18_child', verif + '/harness/c18.py')
h = importlib.util.module_from_spec(spec); sys.modules['harness_c18_child'] = h; spec.loader.exec_module(h)
data = json.load(sys.stdin)
out = []
for c in data['cases']:
    try:
        out.append(h.det_eval(c, data['gen']))
    except Exception as e:
        out.append({'raised': type(e).__name__ + ': ' + str(e)[:100]})
sys.stdout.write('\nC18DET ' + json.dumps(out) + '\n')
"""


def det_eval(case, gen):
    """what one process observes for one determinism case (canonical, JSON)"""
    kind = case['det']
    if kind == 'direct':
        return impl_direct(case)['result']
    if kind == 'tweens':
        g = impl_tweens(case)
        return {'result': g['result'], 'implicit': g.get('implicit'), 'trace': g.get('trace')}
    g = impl_derivers(case, gen)
    return {'result': g['result'], 'order': g.get('order'), 'enters': g.get('enters')}


def det_fixed_cases(gen):
    """items whose after= / before= list has >= 2 alternatives that are all present and mutually unordered: the order in
    which the alternatives become ready is decided by the order of the arcs, i.e. by how the list is iterated"""
    cases = []
    for fl in ('plain', 'tween'):
        for k in (2, 3, 4, 5):
            alts = list(range(3, 3 + k))
            others = [[n, None, None, False, False] for n in alts]
            for side in ('before', 'after', 'both'):
                op = [2, alts if side in ('after', 'both') else None, alts[::-1] if side == 'before' else (alts if side == 'both' and k == 2 else None), False, False]
                if side == 'both':
                    op = [2, alts[:k // 2 + 1], alts[k // 2 + 1:] or None, False, False]
                cases.append({'det': 'direct', 'flavour': fl, 'ops': [op] + others})
                cases.append({'det': 'direct', 'flavour': fl, 'ops': others + [op]})
        # two items naming the same alternatives, in opposite order
        cases.append({'det': 'direct', 'flavour': fl, 'ops': [[2, None, [4, 5, 6], False, False], [3, None, [6, 5, 4], False, False],
                                                          [4, None, None, False, False], [5, None, None, False, False], [6, None, None, False, False]]})
    for k in (2, 3, 4):
        alts = list(range(3, 3 + k))
        others = [[n, None, None, False, False] for n in alts]
        cases.append({'det': 'tweens', 'flavour': 'tween', 'explicit': [], 'ops': others + [[2, None, alts, False, False]]})
        cases.append({'det': 'tweens', 'flavour': 'tween', 'explicit': [], 'ops': [[2, alts, None, False, False]] + others})
    nd = len(gen['deriver_names'])
    if nd >= 5:
        cases.append({'det': 'derivers', 'flavour': 'deriver', 'ops': [[2, None, [22, 23, 24], False, False]]})
        cases.append({'det': 'derivers', 'flavour': 'deriver', 'ops': [[2, [20, 21], [23, 24], False, False]]})
        cases.append({'det': 'derivers', 'flavour': 'deriver', 'ops': [[3, None, None, False, False], [4, None, None, False, False], [2, [3, 4], None, False, False]]})
        cases.append({'det': 'derivers', 'flavour': 'deriver', 'ops': [[3, None, None, False, False], [4, None, None, False, False], [5, None, None, False, False],
                                                                     [2, None, [5, 4, 3], False, False]]})
    return cases


def det_random_cases(rng, n, gen):
    out = []
    for _ in range(n):
        r = rng.random()
        if r < 0.7:
            c = gen_case(rng, maxnames=6)
            if any((o[1] and len(o[1]) > 1) or (o[2] and len(o[2]) > 1) for o in c['ops']):
                out.append(dict(c, det='direct'))
        elif r < 0.85:
            out.append(dict(gen_tween_case(rng), det='tweens', explicit=[]))
        else:
            out.append(dict(gen_deriver_case(rng, gen), det='derivers'))
    return out


def det_children(ctx, cases, gen):
    """{seed: [output per case] | None}"""
    payload = json.dumps({'cases': cases, 'gen': {'deriver_names': gen['deriver_names']}}).encode()
    res = {}

    def one(seed):
        try:
            env = dict(os.environ, PYTHONHASHSEED=str(seed), PYTHONPATH=ctx.src)
            p = subprocess.run([sys.executable, '-c', _DET_CHILD, ctx.src, ctx.verif], input=payload, stdout=subprocess.PIPE,
                               stderr=subprocess.PIPE, env=env, timeout=300)
            lines = [l for l in p.stdout.decode(errors='replace').splitlines() if l.startswith('C18DET ')]
            res[seed] = json.loads(lines[-1][len('C18DET '):]) if lines else None
            if not lines:
                res['err%d' % seed] = p.stderr.decode(errors='replace')[-300:]
        except Exception as e:
            res[seed] = None
            res['err%d' % seed] = '%s: %s' % (type(e).__name__, e)
    ts = [threading.Thread(target=one, args=(sd,)) for sd in DET_SEEDS]
    for t in ts: t.start()
    for t in ts: t.join()
    return res


def det_model(ctx, cases, gen):
    if not ctx.driver_path:
        return [None] * len(cases)
    inputs = []
    for c in cases:
        if c['det'] == 'direct':
            inputs.append(model_case(c))
        elif c['det'] == 'tweens':
            inputs.append(model_tween_case(c))
        else:
            inputs.append({'first': 0, 'last': 1, 'defBefore': None, 'defAfter': [0], 'explicit': [], 'ops': deriver_model_ops(c, gen)})
    return ctx.run_model(inputs)


def det_check(ctx, cases, gen):
    """-> (violations, mismatches, note)"""
    if not cases:
        return [], [], None
    res = det_children(ctx, cases, gen)
    if any(res.get(sd) is None or len(res[sd]) != len(cases) for sd in DET_SEEDS):
        return [], [], 'determinism check could not run in child interpreters: %s' % {k: v for k, v in res.items() if str(k).startswith('err')}
    mos = det_model(ctx, cases, gen)
    viol, mism = [], []
    for i, c in enumerate(cases):
        outs = {sd: res[sd][i] for sd in DET_SEEDS}
        base = outs[DET_SEEDS[0]]
        diff = [sd for sd in DET_SEEDS[1:] if outs[sd] != base]
        if diff:
            viol.append({'case': c, 'stream': 'determinism', 'impl': {'PYTHONHASHSEED=%d' % DET_SEEDS[0]: base, 'PYTHONHASHSEED=%d' % diff[0]: outs[diff[0]]},
                         'expected': 'the same order in every process',
                         'detail': 'the same additions give a different order under PYTHONHASHSEED=%d and PYTHONHASHSEED=%d' % (DET_SEEDS[0], diff[0])})
            continue
        mo = mos[i]
        if mo is not None:
            if c['det'] == 'direct':
                ok = base == mo['result']
            elif base.get('result') != 'ok':
                ok = True          # outcome kinds are compared by the configurator streams
            elif c['det'] == 'tweens':
                ok = 'ok' in mo['result'] and base.get('implicit') == mo['result']['ok']
            else:
                ok = 'ok' in mo['result'] and base.get('order') == mo['result']['ok']
            if not ok:
                mism.append({'case': c, 'impl': base, 'model': mo.get('result'), 'stream': 'determinism'})
    return viol, mism, None


# ---------------------------------------------------------------- entry points
def check_direct(case, mo):
    got = impl_direct(case)
    got2 = impl_direct(case)
    mism = viol = None
    if mo is not None and (got['result'] != mo['result'] or got['names'] != mo['names']):
        mism = {'case': case, 'impl': got, 'model': mo, 'stream': 'direct'}
    v = property_ok(case, got)
    if v is None and got != got2:
        v = 'two identical sequences of additions gave different results'
    if v:
        viol = {'case': case, 'impl': got, 'expected': v, 'detail': v, 'stream': 'direct'}
    return mism, viol, got


def valid_direct(c):
    try:
        if c.get('flavour') not in ('plain', 'tween') or not c.get('ops'):
            return False
        for o in c['ops']:
            if len(o) != 5 or not isinstance(o[0], int) or not 2 <= o[0] <= 8:
                return False
            for l in (o[1], o[2]):
                if l is not None and (not isinstance(l, list) or not l or any((not isinstance(x, int)) or x < 0 or x > 11 for x in l)):
                    return False
            if not isinstance(o[3], bool) or not isinstance(o[4], bool):
                return False
        return True
    except Exception:
        return False


def shrink_direct(case):
    """smallest valid case that still violates the property on the implementation"""
    def fails(c):
        return valid_direct(c) and check_direct(c, None)[1] is not None
    return vfutil.shrink(case, fails, max_steps=600)


def shrunk_violation(case):
    small = shrink_direct(case)
    _, v, _ = check_direct(small, None)
    if v is None:
        _, v, _ = check_direct(case, None)
    return v


def run(ctx):
    rng = ctx.rng
    gen = load_gen(ctx)
    mism, viol, agree = [], [], 0
    seen, nontriv = set(), set()
    dist = {'stream': {}, 'outcome': {}, 'names': {}, 'readds': 0, 'alternative_lists': 0, 'sentinel_constraints': 0}

    def account(stream, case, got):
        vfutil.bump(dist['stream'], stream)
        r = got['result']
        vfutil.bump(dist['outcome'], r if isinstance(r, str) else list(r)[0])
        key = vfutil.canon([stream, case])
        if key not in seen:
            seen.add(key)
            if stream == 'history':
                if 'removed' in got['replies'] or sum(1 for o in case['hops'] if o[0] == 'sorted') >= 2:
                    nontriv.add(key)
            elif stream != 'direct' or nontrivial(case, got):
                nontriv.add(key)

    # 1. direct sorter: corpus, then exhaustive insertion orders of small graphs, then random
    cases = [c for _, c in ctx.corpus() if c.get('flavour') in ('plain', 'tween') and 'stream' not in c and 'ops' in c and 'hops' not in c and not c.get('det')]
    ncorp = len(cases)
    n = ctx.n(4000, 150000)
    cases += [gen_case(rng) for _ in range(n)]
    model = ctx.run_model([model_case(c) for c in cases]) if ctx.driver_path else [None] * len(cases)
    for case, mo in zip(cases, model):
        m, v, got = check_direct(case, mo)
        if m: mism.append(m)
        elif mo is not None: agree += 1
        if v:
            viol.append(shrunk_violation(case))
        account('direct', case, got)
        vfutil.bump(dist['names'], len({o[0] for o in case['ops']}))
        if len({o[0] for o in case['ops']}) < len(case['ops']): dist['readds'] += 1
        if any((o[1] and len(o[1]) > 1) or (o[2] and len(o[2]) > 1) for o in case['ops']): dist['alternative_lists'] += 1
        if any((o[1] and (0 in o[1] or 1 in o[1])) or (o[2] and (0 in o[2] or 1 in o[2])) for o in case['ops']): dist['sentinel_constraints'] += 1
    samples = cases[ncorp:ncorp + 3]

    # 1a. determinism across processes (child interpreters with PYTHONHASHSEED 0..3): a small fixed scope + a few random
    detc = [c for _, c in ctx.corpus() if c.get('det')] + det_fixed_cases(gen) + det_random_cases(rng, ctx.n(40, 400), gen)
    dv, dm, dnote = det_check(ctx, detc, gen)
    viol += dv[:3]
    mism += dm
    agree += len(detc) - len(dm) - len(dv) if (ctx.driver_path and dnote is None) else 0
    dist['determinism_cases'] = len(detc)
    det_note = dnote

    # 1b. histories on one long-lived sorter (add / public remove / sorted() at arbitrary points): corpus, every
    # canonical history of <= 5 ops over two names (with absent alternatives) and over three names (none / after y /
    # before y), then random ones over up to 5 names
    dist['history_ops'] = {}; dist['history_queries'] = {}; dist['history_removes'] = {'removed': 0, 'absent': 0}
    hist = [c for _, c in ctx.corpus() if 'hops' in c]
    nsmall = len(hist)
    hist += list(small_histories(2, True, 5, ('plain',)))
    hist += list(small_histories(3, False, 5, ('plain',)))
    nsmall = len(hist) - nsmall
    hist += [gen_history(rng) for _ in range(ctx.n(1500, 60000))]
    hmod = ctx.run_model([model_history(c) for c in hist]) if ctx.driver_path else [None] * len(hist)
    hviol = 0
    for case, mo in zip(hist, hmod):
        m, v, got = check_history(case, mo)
        if m: mism.append(m)
        elif mo is not None: agree += 1
        if v:
            hviol += 1
            if hviol <= 5:
                viol.append(shrink_history_case(case))
        account('history', case, got)
        vfutil.bump(dist['history_ops'], len(case['hops']))
        vfutil.bump(dist['history_queries'], sum(1 for o in case['hops'] if o[0] == 'sorted'))
        for r in got['replies']:
            if r in ('removed', 'absent'): dist['history_removes'][r] += 1
    dist['history_exhaustive_small'] = nsmall
    samples += hist[-1:]

    # 2. tweens through the configurator
    tcases = [gen_tween_case(rng) for _ in range(ctx.n(150, 3000))]
    tmodel = ctx.run_model([model_tween_case(c) for c in tcases]) if ctx.driver_path else [None] * len(tcases)
    for case, mo in zip(tcases, tmodel):
        m, v, got = check_tween(case, mo)
        if m: mism.append(m)
        elif mo is not None: agree += 1
        if v: viol.append(v)
        account('tweens', case, got)
    samples += tcases[:1]

    # 2b. tween histories (several commits, re-adds, chain asked for after every round)
    hcases = [c for _, c in ctx.corpus() if 'rounds' in c and c.get('flavour') == 'tween'] + [gen_tween_history(rng) for _ in range(ctx.n(120, 2500))]
    flat, index = [], []
    for c in hcases:
        ks = list(range(len(c['rounds'])))
        index.append((len(flat), len(ks)))
        flat += [model_tween_case(history_prefix(c, k)) for k in ks]
    hmodel = ctx.run_model(flat) if ctx.driver_path else None
    dist['history_rounds'] = {}
    dist['history_readds'] = 0
    for c, (st, ln) in zip(hcases, index):
        m, v, got = check_tween_history(c, hmodel[st:st + ln] if hmodel else None)
        if m: mism.append(m)
        elif hmodel is not None: agree += 1
        if v: viol.append(shrink_history(c) or v)
        account('tween-history', c, got)
        vfutil.bump(dist['history_rounds'], len(c['rounds']))
        names = [o[0] for r in c['rounds'] for o in r]
        if len(set(names)) < len(names): dist['history_readds'] += 1
    samples += hcases[-1:]

    # 2c. predicate histories through the configurator (several commits, re-adds with other hints / factories, make()
    # consulted between the rounds): corpus, all small two-round histories for views, sampled ones for routes and
    # subscribers, random ones
    pcases = [c for _, c in ctx.corpus() if c.get('flavour') == 'predicate']
    pcases += list(small_pred_histories('view', 2))
    for kind in ('route', 'subscriber'):
        allk = list(small_pred_histories(kind, 2))
        pcases += rng.sample(allk, min(len(allk), ctx.n(60, 10 ** 6)))
    if ctx.tier != 'quick':
        allk = list(small_pred_histories('view', 3))
        pcases += rng.sample(allk, min(len(allk), 3000))
    pcases += [gen_pred_history(rng) for _ in range(ctx.n(200, 4000))]
    flat, index = [], []
    for c in pcases:
        ks = list(range(len(c['rounds'])))
        index.append((len(flat), len(ks)))
        flat += [model_case(pred_prefix_ops(c, k)) for k in ks]
    pmodel = ctx.run_model(flat) if ctx.driver_path else None
    dist['predicate_kinds'] = {}; dist['predicate_rounds'] = {}; dist['predicate_readds'] = 0; dist['predicate_factory_changes'] = 0
    pviol = 0
    for c, (st, ln) in zip(pcases, index):
        m, v, got = check_pred_history(c, pmodel[st:st + ln] if pmodel else None)
        if m: mism.append(m)
        elif pmodel is not None: agree += 1
        if v:
            pviol += 1
            if pviol <= 5:
                viol.append(shrink_pred_history(c) or v)
        account('predicates', c, got)
        vfutil.bump(dist['predicate_kinds'], c['kind'])
        vfutil.bump(dist['predicate_rounds'], len(c['rounds']))
        seenf = {}
        readd = facchg = False
        for r in c['rounds']:
            for o in r:
                if o[0] in seenf:
                    readd = True
                    if seenf[o[0]] != o[5]: facchg = True
                seenf[o[0]] = o[5]
        dist['predicate_readds'] += readd
        dist['predicate_factory_changes'] += facchg
    samples += pcases[-1:]

    # 3. view derivers through the configurator
    dcases = [{'flavour': 'deriver', 'ops': []}] + [gen_deriver_case(rng, gen) for _ in range(ctx.n(150, 3000))]
    dmodel = ctx.run_model([{'first': 0, 'last': 1, 'defBefore': None, 'defAfter': [0], 'explicit': [],
                             'ops': deriver_model_ops(c, gen)} for c in dcases]) if ctx.driver_path else [None] * len(dcases)
    for case, mo in zip(dcases, dmodel):
        m, v, got = check_deriver(case, mo, gen)
        if m: mism.append(m)
        elif mo is not None: agree += 1
        if v: viol.append(v)
        account('derivers', case, got)
    samples += dcases[1:2]

    total = len(cases) + len(tcases) + len(dcases) + len(hcases) + len(hist) + len(pcases) + len(detc)
    excl = {'flavour': 'plain', 'ops': [[2, [], None, False, False], [2, None, [1], False, True]]}
    notes = ([det_note] if det_note else []) + ['excluded point (Props.C18.empty_alternatives_excluded) replayed on the real code: %s' % json.dumps(impl_direct(excl)['result']),
             'excluded point: an EMPTY alternatives list (after=[] / before=[]) can never be satisfied and leaves a stale '
             'requirement behind when the name is re-added (remove() tests `if after:`); outside the property domain '
             '(every constraint names at least one item)']
    return {'evaluations': total, 'distinct_nontrivial': len(nontriv), 'rule': RULE, 'agreeing': agree, 'samples': samples,
            'mismatches': mism, 'violations': viol, 'distribution': dist, 'notes': notes,
            'assumptions': ['tween/deriver callables are well-behaved wrappers (call the wrapped handler exactly once)',
                            'the harness mirrors add_view_deriver/add_tween argument normalisation when building model inputs; '
                            'a divergence shows up as a correspondence mismatch']}


def search(ctx):
    """small-scope exhaustive: histories of <= 5 ops (add / remove / sorted, see below); then <= 3 names, each added once or twice, constraints from {None, one present name,
    a sentinel, an absent name, a 2-alternative list}, both flavours, all insertion orders"""
    viol, n = [], 0
    import time
    # determinism across processes: the fixed scope and 300 random sequences with alternative lists
    gen0 = load_gen(ctx)
    detc = det_fixed_cases(gen0) + det_random_cases(ctx.rng, 300, gen0)
    dv, _, _ = det_check(ctx, detc, gen0)
    n += len(detc)
    if dv:
        return {'violations': dv[:3], 'searched': n, 'exhaustive': False}
    # histories: every canonical sequence of <= 5 ops over {add x with none / after y / before y / after (absent, y) /
    # before (absent, y), remove x, sorted} for two names (both flavours) and three names; judged at every sorted() in it
    hstop = time.time() + (40 if ctx.tier == 'quick' else 400)
    hex_ = True
    for k, alts in ((2, True), (3, True)):
        for case in small_histories(k, alts, 5, ('plain',) if k == 3 else ('plain', 'tween')):
            n += 1
            _, v, _ = check_history(case, None)
            if v:
                viol.append(shrink_history_case(case))
                if len(viol) >= 3:
                    return {'violations': viol, 'searched': n, 'exhaustive': False}
            if n % 5000 == 0 and (time.time() > hstop or ctx.time_left() < 90):
                hex_ = False
                break
        if not hex_:
            break
    stop = time.time() + (60 if ctx.tier == 'quick' else 600)
    cons = [None, [2], [3], [4], [0], [1], [9], [2, 9], [3, 4]]
    for flavour in ('plain', 'tween'):
        for k in (1, 2, 3):
            names = list(range(2, 2 + k))
            for perm in itertools.permutations(names):
                for cs in itertools.product(cons, repeat=2 * k):
                    ops = [[perm[i], cs[2 * i], cs[2 * i + 1], False, False] for i in range(k)]
                    case = {'flavour': flavour, 'ops': ops}
                    n += 1
                    _, v, _ = check_direct(case, None)
                    if v:
                        viol.append(shrunk_violation(case))
                        if len(viol) >= 3:
                            return {'violations': viol, 'searched': n, 'exhaustive': False}
                    if n % 2000 == 0 and (time.time() > stop or ctx.time_left() < 60):
                        return finish_search(ctx, viol, n, False)
    return finish_search(ctx, viol, n, hex_)


def finish_search(ctx, viol, n, exhaustive):
    # configurator streams on the seeded generators
    gen = load_gen(ctx)
    _, v, _ = check_deriver({'flavour': 'deriver', 'ops': []}, None, gen)
    if v: viol.append(v)
    for _ in range(300):
        _, v, _ = check_tween(gen_tween_case(ctx.rng), None)
        if v: viol.append(v); break
    for _ in range(400):
        hc = gen_tween_history(ctx.rng)
        _, v, _ = check_tween_history(hc, None)
        if v: viol.append(shrink_history(hc) or v); break
    for _ in range(300):
        _, v, _ = check_deriver(gen_deriver_case(ctx.rng, gen), None, gen)
        if v: viol.append(v); break
    # predicate histories: every small two-round history for the three kinds, then three-round ones (time-boxed)
    import time
    pstop = time.time() + (40 if ctx.tier == 'quick' else 400)
    np_ = 0
    found = False
    for nr in (2, 3):
        for kind in PRED_KINDS:
            for pc in small_pred_histories(kind, nr):
                np_ += 1
                _, v, _ = check_pred_history(pc, None)
                if v:
                    viol.append(shrink_pred_history(pc) or v); found = True
                    break
                if np_ % 50 == 0 and (time.time() > pstop or ctx.time_left() < 45):
                    exhaustive = False; found = True
                    break
            if found: break
        if found: break
    return {'violations': viol, 'searched': n + 601 + np_, 'exhaustive': exhaustive}


def replay(ctx, rep):
    case = rep.get('case')
    if case is None:
        return {'violates': False, 'note': 'replay names broken obligations only', 'broken': rep.get('broken_obligations')}
    stream = rep.get('stream') or ('history' if 'hops' in case else 'derivers' if case.get('flavour') == 'deriver' else 'tween-history' if 'rounds' in case else 'tweens' if 'explicit' in case else 'direct')
    if case.get('det'):
        gen = load_gen(ctx)
        dv, dm, dnote = det_check(ctx, [case], gen)
        children = det_children(ctx, [case], gen)
        return {'case': case, 'stream': 'determinism', 'impl': {('PYTHONHASHSEED=%s' % k): (v[0] if v else None) for k, v in children.items() if k in DET_SEEDS},
                'mismatch': dm[0] if dm else None, 'violation': dv[0] if dv else None, 'note': dnote, 'violates': bool(dv)}
    if 'hops' in case:
        stream = 'history'
        mo = ctx.run_model([model_history(case)])[0] if ctx.driver_path else None
        m, v, got = check_history(case, mo)
    elif case.get('flavour') == 'predicate':
        stream = 'predicates'
        mo = ctx.run_model([model_case(pred_prefix_ops(case, k)) for k in range(len(case['rounds']))]) if ctx.driver_path else None
        m, v, got = check_pred_history(case, mo)
        got = impl_pred_history(case)
    elif stream == 'direct':
        mo = ctx.run_model([model_case(case)])[0] if ctx.driver_path else None
        m, v, got = check_direct(case, mo)
    elif stream == 'tween-history' or 'rounds' in case:
        mos = ctx.run_model([model_tween_case(history_prefix(case, k)) for k in range(len(case['rounds']))]) if ctx.driver_path else None
        m, v, got = check_tween_history(case, mos)
        mo = mos
    elif stream == 'tweens':
        mo = ctx.run_model([model_tween_case(case)])[0] if ctx.driver_path else None
        m, v, got = check_tween(case, mo)
    else:
        gen = load_gen(ctx)
        mo = ctx.run_model([{'first': 0, 'last': 1, 'defBefore': None, 'defAfter': [0], 'explicit': [], 'ops': deriver_model_ops(case, gen)}])[0] if ctx.driver_path else None
        m, v, got = check_deriver(case, mo, gen)
    return {'case': case, 'stream': stream, 'impl': got, 'model': mo, 'mismatch': m, 'violation': v, 'violates': bool(v)}
