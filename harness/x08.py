"""X08 — route prefixes and the mounting of includes: correspondence harness, property oracle, search, replay.

Case kinds (JSON):
 {"op":"tree","top":OT,"auto":bool,"body":[S,...]}     a configuration program run on a real Configurator(route_prefix=top)
     S = {"k":"route","n":str,"p":str,"inh":bool,"st":bool}   config.add_route(n, p, inherit_slash=inh, static=st)
       | {"k":"static","n":str}                               config.add_static_view(n, 'pyramid:static')
       | {"k":"ctx","p":OT,"b":[S...]}                        with config.route_prefix_context(p): ...
       | {"k":"inc","p":OT,"b":[S...]}                        config.include(fn, route_prefix=p)   (fn runs b on its configurator)
       | {"k":"try","b":[S...]}                               try: ... except (Boom, ConfigurationError): pass
       | {"k":"raise"} | {"k":"probe"}                        raise Boom / record config.route_prefix
 {"op":"match","incs":[OT...],"pat":str,"inh":bool,"paths":[str...]}   nested includes, one route + view, requests through the Router
 {"op":"fn","a":OT,"b":OT,"c":OT,"pat":str,"inh":bool}   the pure functions, read off real route_prefix_context / add_route
 {"op":"url","t":str}                                    urllib.parse.urlparse (netloc, hostname, path)
"""
import json, os, sys, warnings
import vfutil

RULE = ('distinct cases (canonical JSON) that are not trivial; trivial = a tree in which no route / static view is registered under a '
        'non-empty prefix and no prefix is probed inside a block; a fn case with fewer than two non-empty prefixes among a, b, c; '
        'a match case without a prefix or without a path that matches; a url case without "//" or ":"')


class Boom(Exception):
    pass


# ------------------------------------------------------------------------------------------------------------------
def mods(ctx):
    src = ctx.src
    if src not in sys.path or sys.path[0] != src:
        sys.path.insert(0, src)
    warnings.simplefilter('ignore')
    import pyramid.config as C
    import pyramid.config.routes as CR
    import pyramid.config.views as CV
    import pyramid.urldispatch as U
    from pyramid.config import Configurator
    from pyramid.exceptions import ConfigurationError
    from pyramid.interfaces import IStaticURLInfo
    from pyramid.threadlocal import manager
    from pyramid.request import Request
    from pyramid.response import Response
    for m in (C, CR, CV, U):
        if not os.path.realpath(m.__file__).startswith(os.path.realpath(src)):
            raise RuntimeError('pyramid imported from %s, not from the tree under test %s' % (m.__file__, src))
    return {'Configurator': Configurator, 'ConfigurationError': ConfigurationError, 'IStaticURLInfo': IStaticURLInfo,
            'manager': manager, 'Request': Request, 'Response': Response, 'uid': [0], 'shared': None}


# ------------------------------------------------------------------------------------------------------------------
# implementation side
def _make_includeme(M, body, sink):
    M['uid'][0] += 1

    def includeme(config):
        _run_body(M, config, body, sink)
    includeme.__name__ = includeme.__qualname__ = 'x08_inc_%d' % M['uid'][0]      # include() runs a given spec only once
    return includeme


def _run_body(M, config, body, sink):
    for s in body:
        k = s['k']
        if k == 'route':
            config.add_route(s['n'], s['p'], inherit_slash=s['inh'], static=s['st'])
        elif k == 'static':
            config.add_static_view(s['n'], 'pyramid:static')
        elif k == 'ctx':
            with config.route_prefix_context(s['p']):
                _run_body(M, config, s['b'], sink)
        elif k == 'inc':
            config.include(_make_includeme(M, s['b'], sink), route_prefix=s['p'])
        elif k == 'try':
            try:
                _run_body(M, config, s['b'], sink)
            except (Boom, M['ConfigurationError']):
                pass
        elif k == 'raise':
            raise Boom()
        elif k == 'probe':
            sink['probes'].append(config.route_prefix)
        else:
            raise ValueError('bad statement %r' % (s,))


def impl_tree(M, case):
    depth0 = len(M['manager'].stack)
    config = M['Configurator'](route_prefix=case['top'], autocommit=bool(case.get('auto', True)))
    sink = {'probes': []}
    raised = None
    try:
        _run_body(M, config, case['body'], sink)
    except Boom:
        raised = 'boom'
    except M['ConfigurationError'] as e:
        raised = 'inheritSlash' if 'inherit_slash' in str(e) else 'ConfigurationError: %s' % str(e)[:80]
    except Exception as e:      # noqa
        raised = 'crash: %s: %s' % (type(e).__name__, str(e)[:120])
    out = {'raised': raised, 'probes': sink['probes'], 'final': config.route_prefix, 'stack_leak': len(M['manager'].stack) - depth0}
    while len(M['manager'].stack) > depth0:
        M['manager'].pop()
    try:
        config.commit()
    except Exception as e:      # noqa
        out['commit'] = '%s: %s' % (type(e).__name__, str(e)[:160])
    mapper = config.get_routes_mapper()
    out['routes'] = [[r.name, r.pattern] for r in mapper.routelist]
    out['statics'] = [[r.name, r.pattern] for r in mapper.static_routes]
    out['effective'] = {}
    info = config.registry.queryUtility(M['IStaticURLInfo'])
    regs = list(getattr(info, 'registrations', [])) if info is not None else []
    out['regs'] = [[u, rn] for (u, _spec, rn) in regs]
    return out


def wsgi_path(path):
    return path.encode('utf-8').decode('latin-1')


def _router(M, build):
    config = M['Configurator']()
    holder = {}

    def view(request):
        return M['Response'](body=json.dumps({'md': {k: (list(v) if isinstance(v, tuple) else v) for k, v in request.matchdict.items()}}).encode('ascii'),
                             content_type='application/json')
    build(config)
    config.add_view(view, route_name='r')
    holder['app'] = config.make_wsgi_app()
    mapper = config.get_routes_mapper()
    return holder['app'], [[r.name, r.pattern] for r in mapper.routelist], [[r.name, r.pattern] for r in mapper.static_routes]


def _ask(M, app, path):
    req = M['Request'].blank('/')
    req.environ['PATH_INFO'] = wsgi_path(path)
    try:
        resp = req.get_response(app)
    except Exception as e:      # noqa
        return {'err': type(e).__name__}
    if resp.status_int == 200:
        return {'match': True, 'md': json.loads(resp.text)['md']}
    if resp.status_int == 404:
        return {'match': False}
    return {'status': resp.status_int}


def impl_match(M, case):
    incs, pat, inh = case['incs'], case['pat'], case['inh']

    def nested(config, i=0):
        if i == len(incs):
            config.add_route('r', pat, inherit_slash=inh)
        else:
            config.include(_make_includeme(M, None, None) if False else _inc_for(M, lambda c: nested(c, i + 1)), route_prefix=incs[i])
    out = {}
    try:
        app, routes, statics = _router(M, nested)
    except Exception as e:      # noqa
        return {'build': '%s: %s' % (type(e).__name__, str(e)[:120])}
    out['routes'], out['statics'] = routes, statics
    out['got'] = [_ask(M, app, p) for p in case['paths']]
    # the reference applications: the pattern registered directly
    P = doc_join(incs)
    refs = {}
    if P is not None:
        direct = P if (pat == '' and inh) else P + '/' + pat.lstrip('/')
        try:
            app2, r2, _ = _router(M, lambda c: c.add_route('r', direct))
            refs['direct'] = [_ask(M, app2, p) for p in case['paths']]
            refs['direct_pattern'] = direct
        except Exception as e:      # noqa
            refs['direct_build'] = '%s: %s' % (type(e).__name__, str(e)[:120])
        if '{' not in P and '*' not in P and ':' not in P and not (pat == '' and inh):
            try:
                app3, _, _ = _router(M, lambda c: c.add_route('r', '/' + pat.lstrip('/')))
                lead = '/' + P
                refs['unprefixed'] = [(_ask(M, app3, p[len(lead):]) if p.startswith(lead + '/') else {'match': False}) for p in case['paths']]
            except Exception as e:      # noqa
                refs['unprefixed_build'] = '%s: %s' % (type(e).__name__, str(e)[:120])
    out['refs'] = refs
    return out


def _inc_for(M, f):
    M['uid'][0] += 1

    def includeme(config):
        f(config)
    includeme.__name__ = includeme.__qualname__ = 'x08_minc_%d' % M['uid'][0]
    return includeme


def _shared(M):
    if M['shared'] is None:
        M['shared'] = M['Configurator'](autocommit=True)
    return M['shared']


def _ctx_chain(config, start, args):
    """the value of config.route_prefix inside nested route_prefix_context blocks"""
    config.route_prefix = start
    if not args:
        return config.route_prefix
    with config.route_prefix_context(args[0]):
        return _ctx_chain_inner(config, args[1:])


def _ctx_chain_inner(config, args):
    if not args:
        return config.route_prefix
    with config.route_prefix_context(args[0]):
        return _ctx_chain_inner(config, args[1:])


def _add_route_obs(M, config, pfx, pat, inh):
    config.route_prefix = pfx
    try:
        config.add_route('r', pat, inherit_slash=inh)
    except M['ConfigurationError'] as e:
        return {'err': 'inheritSlash' if 'inherit_slash' in str(e) else 'ConfigurationError'}
    except Exception as e:      # noqa
        return {'err': 'crash: %s: %s' % (type(e).__name__, str(e)[:100])}
    finally:
        config.route_prefix = None
    mapper = config.get_routes_mapper()
    r = mapper.get_route('r')
    static = r in mapper.static_routes
    if static:
        mapper.static_routes.remove(r)
    return {'ok': [r.pattern, static]}


def impl_fn(M, case):
    cfg = _shared(M)
    a, b, c = case['a'], case['b'], case['c']
    out = {}
    try:
        out['ab'] = _ctx_chain(cfg, a, [b])
        out['abc'] = _ctx_chain(cfg, a, [b, c])
        bc = _ctx_chain(cfg, None, [b, c])
        out['abc2'] = _ctx_chain(cfg, a, [bc])
        out['after'] = cfg.route_prefix                     # restored to a
        out['apply'] = _add_route_obs(M, cfg, a, case['pat'], case['inh'])
        out['nested'] = _add_route_obs(M, cfg, out['abc'], case['pat'], case['inh'])
        inner = _add_route_obs(M, cfg, _ctx_chain(cfg, None, [b]), case['pat'], case['inh'])
        out['inner'] = inner
        if 'ok' in inner and not inner['ok'][1]:
            out['outer'] = _add_route_obs(M, cfg, _ctx_chain(cfg, None, [a]), inner['ok'][0], case['inh'] and inner['ok'][0] == '')
    except Exception as e:      # noqa
        out['crash'] = '%s: %s' % (type(e).__name__, str(e)[:120])
    finally:
        cfg.route_prefix = None
    return out


def impl_url(M, case):
    from urllib.parse import urlparse
    try:
        u = urlparse(case['t'])
        return {'netloc': u.netloc, 'host': u.hostname or '', 'path': u.path}
    except ValueError:
        return {'err': 'ValueError'}


def impl(M, case):
    return {'tree': impl_tree, 'match': impl_match, 'fn': impl_fn, 'url': impl_url}[case['op']](M, case)


# ------------------------------------------------------------------------------------------------------------------
# the oracle: the statement, written independently of the Lean model
def doc_join(prefixes):
    """the documented composition: every prefix stripped of slashes, the empty ones dropped, joined by single slashes"""
    parts = [p.strip('/') for p in prefixes if p is not None and p.strip('/')]
    return '/'.join(parts) if parts else None


def doc_prefix(top, stack):
    """prefix in force on a configurator created with route_prefix=top inside blocks with the arguments `stack`"""
    if not stack:
        return top                       # the constructor argument is kept as given
    return doc_join([top] + list(stack))


def is_external(pat):
    from urllib.parse import urlparse
    try:
        return bool(urlparse(pat).hostname)
    except ValueError:
        return None


def doc_pattern(prefix, pat, inh):
    """what add_route is to register for a non-external pattern"""
    if not prefix:
        return pat
    if pat == '' and inh:
        return prefix
    return prefix.rstrip('/') + '/' + pat.lstrip('/')


def segs(text):
    return [x for x in text.split('/') if x]


def oracle_tree(case, got):
    """walk the program with LEXICAL scoping and say what the registry must contain"""
    from urllib.parse import urlparse
    top = case['top']
    routelist, statics, regs, probes = [], [], [], []

    def connect(name, pat, static):
        routelist[:] = [r for r in routelist if r[0] != name]
        (statics if static else routelist).append([name, pat])

    class Raised(Exception):
        pass

    def walk(body, stack):
        for s in body:
            k = s['k']
            pfx = doc_prefix(top, stack)
            if k == 'route':
                if s['inh'] and s['p'] != '':
                    raise Raised('inheritSlash')
                if is_external(s['p']):
                    connect(s['n'], urlparse(s['p']).path, True)           # absolute URL: never prefixed, static
                else:
                    connect(s['n'], doc_pattern(pfx, s['p'], s['inh']), s['st'])
            elif k == 'static':
                n = s['n'] if s['n'].endswith('/') else s['n'] + '/'
                if urlparse(n).netloc:
                    regs[:] = [r for r in regs if r[0] != n] + [[n, None]]
                else:
                    rn = '__%s/%s' % (pfx, n) if pfx else '__' + n
                    if is_external(n + '*subpath'):                          # '//' and 'http://': the PATTERN has a host (O1)
                        connect(rn, urlparse(n + '*subpath').path, True)
                    else:
                        connect(rn, doc_pattern(pfx, n + '*subpath', False), False)
                    regs.append([None, rn])
            elif k in ('ctx', 'inc'):
                walk(s['b'], stack + [s['p']])
            elif k == 'try':
                try:
                    walk(s['b'], stack)
                except Raised:
                    pass
            elif k == 'raise':
                raise Raised('boom')
            elif k == 'probe':
                probes.append(pfx)
    raised = None
    try:
        walk(case['body'], [])
    except Raised as e:
        raised = str(e)
    exp = {'raised': raised, 'probes': probes, 'final': top, 'routes': routelist, 'statics': statics, 'regs': regs}
    why = []
    if got.get('commit'):
        why.append('commit failed: %s' % got['commit'])
    if got['final'] != top:
        why.append('route_prefix after the program is %r, before it was %r: the context did not restore it' % (got['final'], top))
    if got.get('stack_leak'):
        why.append('threadlocal manager stack not balanced (%+d)' % got['stack_leak'])
    for k in ('raised', 'probes', 'routes', 'statics', 'regs'):
        if got.get(k) != exp[k] and not why:
            why.append('%s: got %r, the lexical reading demands %r' % (k, got.get(k), exp[k]))
    # shape clauses on every prefix observed inside a block
    for p in got.get('probes', []):
        if p is not None and p is not top and (p == '' or p.startswith('/') or p.endswith('/')):
            if p != top:
                why.append('prefix %r inside a block starts or ends with a slash or is empty' % (p,))
    return ('; '.join(why) or None), exp, None


def oracle_match(case, got):
    if 'build' in got:
        return 'the application could not be built: %s' % got['build'], None, None
    P = doc_join(case['incs'])
    pat, inh = case['pat'], case['inh']
    why = []
    exp = {}
    ext = is_external(pat)
    if ext:
        exp['static'] = True
        if got['routes'] or not got['statics']:
            why.append('external URL pattern must become a static, un-prefixed route; routes=%r statics=%r' % (got['routes'], got['statics']))
        if any(g.get('match') for g in got['got']):
            why.append('an external URL route matched a request')
        return ('; '.join(why) or None), exp, None
    want = doc_pattern(P, pat, inh)
    exp['pattern'] = want
    if got['routes'] != [['r', want]]:
        why.append('registered %r, the prefix %r and pattern %r demand %r' % (got['routes'], P, pat, want))
    refs = got.get('refs', {})
    for k in ('direct_build', 'unprefixed_build'):
        if k in refs:
            why.append('%s: %s' % (k, refs[k]))
    if 'direct' in refs and refs['direct'] != got['got']:
        why.append('requests answered differently from a route registered directly as %r: %r vs %r' % (refs.get('direct_pattern'), got['got'], refs['direct']))
    if 'unprefixed' in refs and refs['unprefixed'] != got['got']:
        why.append('a path matches the prefixed route iff it is /%s followed by a path the un-prefixed route matches: got %r, un-prefixed on the remainder %r'
                   % (P, got['got'], refs['unprefixed']))
    if P is not None and pat in ('', '/') and '{' not in P and '*' not in P and ':' not in P:
        # the documented slash rule
        for p, g in zip(case['paths'], got['got']):
            if p == '/' + P + '/' and g.get('match') is not (not (inh and pat == '')):
                why.append('slash rule: %r under prefix %r pattern %r inherit_slash=%r answered %r' % (p, P, pat, inh, g))
            if p == '/' + P and g.get('match') is not (inh and pat == ''):
                why.append('slash rule: %r under prefix %r pattern %r inherit_slash=%r answered %r' % (p, P, pat, inh, g))
    return ('; '.join(why) or None), exp, None


def oracle_fn(case, got):
    if 'crash' in got:
        return 'crash: %s' % got['crash'], None, None
    a, b, c, pat, inh = case['a'], case['b'], case['c'], case['pat'], case['inh']
    why = []
    exp = {'ab': doc_join([a, b]), 'abc': doc_join([a, b, c])}
    if got['ab'] != exp['ab']:
        why.append('a∘b = %r, documented join %r' % (got['ab'], exp['ab']))
    if got['abc'] != exp['abc']:
        why.append('(a∘b)∘c = %r, documented join %r' % (got['abc'], exp['abc']))
    if got['abc'] != got['abc2']:
        why.append('not associative: (a∘b)∘c = %r, a∘(b∘c) = %r' % (got['abc'], got['abc2']))
    if got['after'] != a:
        why.append('prefix not restored after the blocks: %r, was %r' % (got['after'], a))
    for k in ('ab', 'abc', 'abc2'):
        p = got[k]
        if p is not None and (p == '' or p[0] == '/' or p[-1] == '/'):
            why.append('%s = %r is empty or has a slash at an end' % (k, p))
    if got['ab'] is not None and segs(got['ab']) != segs(a or '') + segs(b or ''):
        # the join adds no segment and loses none (empty segments the user wrote inside are kept: compare with split)
        why.append('segments of a∘b %r are not those of a followed by those of b' % (got['ab'],))
    if got['ab'] is not None and got['ab'].split('/') != ((a or '').strip('/').split('/') if (a or '').strip('/') else []) + \
            ((b or '').strip('/').split('/') if (b or '').strip('/') else []):
        why.append('a∘b %r: the join itself introduced or removed an empty segment' % (got['ab'],))
    ext = is_external(pat)
    for key, pfx in (('apply', a), ('nested', got['abc'])):
        r = got[key]
        if inh and pat != '':
            if r != {'err': 'inheritSlash'}:
                why.append('%s: inherit_slash with a non-empty pattern must be refused, got %r' % (key, r))
        elif ext:
            from urllib.parse import urlparse
            if r != {'ok': [urlparse(pat).path, True]}:
                why.append('%s: external URL pattern %r must be registered un-prefixed and static, got %r' % (key, pat, r))
        elif ext is False:
            want = {'ok': [doc_pattern(pfx, pat, inh), False]}
            if r != want:
                why.append('%s: prefix %r pattern %r inherit_slash=%r registered %r, demanded %r' % (key, pfx, pat, inh, r, want))
            elif pfx and pfx.strip('/') and segs(r['ok'][0]) != segs(pfx) + segs(pat):
                why.append('%s: segments of %r are not the prefix segments followed by the pattern segments' % (key, r['ok'][0]))
    # prefixing commutes with nesting: the pattern under b, registered again under a, is the pattern under a∘b (up to a leading slash)
    if 'outer' in got and 'ok' in got['outer'] and not ext and not (inh and pat != ''):
        lhs = got['outer']['ok'][0]
        want = doc_pattern(doc_join([a, b]), pat, inh)
        if is_external(got['inner']['ok'][0]) is False and lhs.lstrip('/') != want.lstrip('/'):
            why.append('nesting: pattern under b then under a is %r, under a∘b it is %r' % (lhs, want))
    return ('; '.join(why) or None), exp, None


def oracle(case, got):
    op = case['op']
    if op == 'tree':
        return oracle_tree(case, got)
    if op == 'match':
        return oracle_match(case, got)
    if op == 'fn':
        return oracle_fn(case, got)
    return None, None, None          # url: interpreter library; correspondence only


# ------------------------------------------------------------------------------------------------------------------
# model side
def enc_text(s):
    return [ord(c) for c in s]


def enc_opt(s):
    return None if s is None else enc_text(s)


def dec_text(cs):
    return ''.join(chr(c) for c in cs)


def dec_opt(cs):
    return None if cs is None else dec_text(cs)


def enc_stmt(s):
    k = s['k']
    if k == 'route':
        return {'k': k, 'n': enc_text(s['n']), 'p': enc_text(s['p']), 'inh': bool(s['inh']), 'st': bool(s['st'])}
    if k == 'static':
        return {'k': k, 'n': enc_text(s['n'])}
    if k in ('ctx', 'inc'):
        return {'k': k, 'p': enc_opt(s['p']), 'b': [enc_stmt(x) for x in s['b']]}
    if k == 'try':
        return {'k': k, 'b': [enc_stmt(x) for x in s['b']]}
    return {'k': k}


def match_as_tree(case):
    body = [{'k': 'route', 'n': 'r', 'p': case['pat'], 'inh': case['inh'], 'st': False}]
    for p in reversed(case['incs']):
        body = [{'k': 'inc', 'p': p, 'b': body}]
    return body


def enc_case(case):
    op = case['op']
    if op == 'tree':
        return {'op': 'tree', 'top': enc_opt(case['top']), 'body': [enc_stmt(s) for s in case['body']]}
    if op == 'match':
        return {'op': 'tree', 'top': None, 'body': [enc_stmt(s) for s in match_as_tree(case)]}
    if op == 'fn':
        return {'op': 'fn', 'a': enc_opt(case['a']), 'b': enc_opt(case['b']), 'c': enc_opt(case['c']), 'pat': enc_text(case['pat']), 'inh': bool(case['inh'])}
    return {'op': 'url', 't': enc_text(case['t'])}


def model_view(case, mo):
    if 'error' in mo:
        return mo
    op = case['op']
    if op in ('tree', 'match'):
        return {'routes': [[dec_text(a), dec_text(b)] for a, b in mo['routes']], 'statics': [[dec_text(a), dec_text(b)] for a, b in mo['statics']],
                'regs': [[dec_opt(u), dec_opt(rn)] for u, rn in mo['regs']], 'probes': [dec_opt(p) for p in mo['probes']],
                'final': dec_opt(mo['final']), 'raised': mo['raised'], 'spec': mo['spec']}
    if op == 'fn':
        def r(x):
            return {'err': x['err']} if 'err' in x else {'ok': [dec_text(x['ok'][0]), x['ok'][1]]}
        return {'ab': dec_opt(mo['ab']), 'abc': dec_opt(mo['abc']), 'abc2': dec_opt(mo['abc2']), 'apply': r(mo['apply']), 'nested': r(mo['nested'])}
    return {'netloc': dec_text(mo['netloc']), 'host': dec_text(mo['host']), 'path': dec_text(mo['path']), 'safe': mo['safe']}


def compare_model(case, got, mo):
    mv = model_view(case, mo)
    if 'error' in mv:
        return 'driver error: %s' % mv['error']
    op = case['op']
    if op == 'tree':
        if not mv['spec']:
            return 'model: state-threading execution and the lexical reading disagree'
        for k in ('routes', 'statics', 'regs', 'probes', 'final', 'raised'):
            if got.get(k) != mv[k]:
                return '%s: impl %r, model %r' % (k, got.get(k), mv[k])
        return None
    if op == 'match':
        if 'build' in got:
            return 'impl could not build: %s' % got['build']
        for k in ('routes', 'statics'):
            if got.get(k) != mv[k]:
                return '%s: impl %r, model %r' % (k, got.get(k), mv[k])
        return None
    if op == 'fn':
        if 'crash' in got:
            return 'impl crash %s' % got['crash']
        for k in ('ab', 'abc', 'abc2', 'apply', 'nested'):
            if got.get(k) != mv[k]:
                return '%s: impl %r, model %r' % (k, got.get(k), mv[k])
        return None
    if not mv['safe']:
        return None                          # outside the claimed domain of the urlparse model
    if 'err' in got:
        return 'urlparse raised on a UrlSafe text'
    lower = lambda s: s.lower()               # noqa: hostname is lower-cased by urlparse; only its truth value is used
    if got['netloc'] != mv['netloc'] or got['path'] != mv['path'] or lower(got['host']) != lower(mv['host']):
        return 'urlparse: impl %r, model %r' % (got, mv)
    return None


# ------------------------------------------------------------------------------------------------------------------
# generators
SEG = ['api', 'v1', 'users', 'a', 'b', 'static', 'admin', 'x', 'é', '日本', 'a b', 'v1.0', 'ß', '~u', 'a-b', '😀', '@@v', 'A']
PH_PREFIX = ['{uid}', '{org}', 'u{uid}', '{lang:[a-z]+}']
PREFIXES = [None, '', '/', '//', 'api', '/api', 'api/', '/api/', '//api//', 'a/b', '/a/b/', '/a//b/', 'a//b', 'é', '/日本/', 'v1.0', 'a b',
            '{uid}', 'u/{uid}', '/{org}/x/', 'http://example.com', ':x', '/:x', 'api/*', '///', 'a/']
PATTERNS = ['', '/', 'x', '/x', 'x/', '/x/', '//', '/x/{id}', '{id}', '/{a}/{b}', '/x*rest', '*rest', '/*rest', 'x/y', '/x//y', '///x', 'é', '/日本/{id}',
            'http://example.com/{id}', 'https://example.com', 'https://h/', '//cdn.example.com/x', '//x', '//x/y', 'http:/x', 'http:x', 'http:///x',
            '/a b', '/{id:\\d+}', '/x.html', ':x', '/:x/y', 'HTTP://H:80/p', 'a+b://h/p', '1a://h/p', '//:80/x', '/x/', 'index']
STATIC_NAMES = ['static', '/static', 'static/', '/static/', 'a/b', '//cdn.example.com/x', 'http://cdn.example.com/s', 'https://h', '', '/', 'é', 'http:static',
                '//:80/s', 's s', '///s', 'HTTP://H/s']
URLS = PATTERNS + STATIC_NAMES + ['a:b//c', 'ab:', ':', '//', 'x://', 'x:///', 'x://h:', '//h:8', 'a.b+c-d://h', 'http://é/x', 'A://B', 'a//b', '/a//b', 'http//h/x',
                                  'z9://h/p', 'z_://h/p', '//h/p:q', 'x:y:z', 'x://h:1:2/p']


def gen_prefix(rng, p_fixed=0.5):
    if rng.random() < p_fixed:
        return rng.choice(PREFIXES)
    n = rng.choice([0, 1, 1, 2, 2, 3])
    parts = []
    for _ in range(n):
        parts.append(rng.choice(PH_PREFIX) if rng.random() < 0.1 else rng.choice(SEG))
    sep = rng.choice(['/', '/', '/', '//'])
    s = sep.join(parts)
    s = rng.choice(['', '', '/', '//']) + s + rng.choice(['', '', '/', '//'])
    return s


def gen_pattern(rng, used=None):
    if rng.random() < 0.45:
        return rng.choice(PATTERNS)
    n = rng.choice([0, 1, 1, 2, 3])
    parts, k = [], 0
    for _ in range(n):
        r = rng.random()
        if r < 0.25:
            parts.append('{p%d}' % k); k += 1
        elif r < 0.3:
            parts.append('{p%d:\\d+}' % k); k += 1
        else:
            parts.append(rng.choice(SEG))
    s = '/'.join(parts)
    s = rng.choice(['', '/', '/', '/', '//']) + s + rng.choice(['', '', '/', '*rest' if parts else ''])
    return s


def braces_ok(text):
    import re
    rest = re.sub(r'\{[A-Za-z_]\w*(:[^{}/]*)?\}', '', text)
    return '{' not in rest and '}' not in rest


def ph_names(text):
    import re
    return re.findall(r'\{(\w+)', text) + re.findall(r'\*(\w+)$', text) + re.findall(r':(\w+)', text)


def gen_body(rng, depth, ids, auto, maxlen=4):
    body = []
    for _ in range(rng.randint(0 if depth else 1, maxlen)):
        r = rng.random()
        if r < 0.34:
            pat = gen_pattern(rng)
            inh = rng.random() < (0.5 if pat == '' else 0.06)
            ids[0] += 1
            name = 'r%d' % ids[0]
            if auto and rng.random() < 0.12 and ids[0] > 1:
                name = 'r%d' % rng.randint(1, ids[0])          # re-use of a route name: connect() replaces
            body.append({'k': 'route', 'n': name, 'p': pat, 'inh': inh, 'st': rng.random() < 0.08})
        elif r < 0.44:
            ids[0] += 1
            n = rng.choice(STATIC_NAMES)
            if not auto or rng.random() < 0.7:
                n = (n.rstrip('/') + ('%d' % ids[0]) + ('/' if n.endswith('/') else '')) if n.strip('/') else ('s%d' % ids[0])
            body.append({'k': 'static', 'n': n})
        elif r < 0.74 and depth < 4:
            body.append({'k': rng.choice(['ctx', 'inc', 'inc']), 'p': gen_prefix(rng), 'b': gen_body(rng, depth + 1, ids, auto, 3)})
        elif r < 0.80 and depth < 4:
            body.append({'k': 'try', 'b': gen_body(rng, depth + 1, ids, auto, 3)})
        elif r < 0.86:
            body.append({'k': 'raise'})
        else:
            body.append({'k': 'probe'})
    return body


def fix_placeholders(case):
    """a route whose own placeholders collide with those of the prefixes in force would not compile: rename them apart"""
    import re
    counter = [0]

    def fresh(m):
        counter[0] += 1
        return '{q%d' % counter[0]

    def walk(body, inside):
        for s in body:
            if s['k'] == 'route' and inside:
                s['p'] = re.sub(r'\{\w+', fresh, s['p'])
                s['p'] = re.sub(r'\*\w+$', '*rest', s['p'])
            elif s['k'] in ('ctx', 'inc', 'try'):
                walk(s['b'], inside or (s['k'] != 'try' and bool(s['p']) and ('{' in s['p'] or ':' in s['p'] or '*' in s['p'])))
    walk(case['body'], bool(case['top']) and ('{' in case['top'] or ':' in case['top'] or '*' in case['top']))
    return case


def valid_tree(case):
    """prefix texts whose placeholders would collide among themselves / break the pattern grammar are left to C01"""
    names = []

    def walk(body, stack):
        for s in body:
            if s['k'] in ('ctx', 'inc'):
                if not walk(s['b'], stack + [s['p'] or '']):
                    return False
            elif s['k'] == 'try':
                if not walk(s['b'], stack):
                    return False
            elif s['k'] in ('route', 'static'):
                full = '/'.join(stack) + '/' + (s.get('p') if s['k'] == 'route' else s['n'])
                ns = ph_names(full)
                if len(ns) != len(set(ns)) or not braces_ok(full):
                    return False
                if '*' in '/'.join(stack):
                    return False
        return True
    return walk(case['body'], [case['top'] or ''])


def gen_tree(rng):
    for _ in range(20):
        auto = rng.random() < 0.6
        top = rng.choice([None, None, None, '', gen_prefix(rng)])
        case = fix_placeholders({'op': 'tree', 'top': top, 'auto': auto, 'body': gen_body(rng, 0, [0], auto)})
        if valid_tree(case):
            return case
    return {'op': 'tree', 'top': None, 'auto': True, 'body': [{'k': 'probe'}]}


LIT_PREFIXES = [None, '', '/', 'api', '/api/', 'a/b', '//a//', 'é', '/日本/', 'v1.0', 'a b', 'a//b', '{uid}', 'u/{uid}']
MATCH_PATTERNS = ['', '/', 'x', '/x', '/x/', '/{id}', '{id}', '/x/{id}', '/x*rest', '*rest', '/é', '//', 'x/y', '/x//y', '///x', 'http://example.com/{id}', '//h/x',
                  '/{id:\\d+}', '/x.html', 'http:/x']


def gen_match(rng):
    incs = [rng.choice(LIT_PREFIXES) if rng.random() < 0.8 else gen_prefix(rng, 0.2) for _ in range(rng.choice([0, 1, 1, 2, 2, 3, 4]))]
    if sum(1 for p in incs if p and '{' in p) > 1 or any(p and ('*' in p or ':' in p) for p in incs):
        incs = [p for p in incs if not (p and ('{' in p or '*' in p or ':' in p))]
    import re
    cnt = [0]

    def ren(m):
        cnt[0] += 1
        return '{u%d' % cnt[0]
    incs = [re.sub(r'\{\w+', ren, p) if p else p for p in incs]
    pat = rng.choice(MATCH_PATTERNS)
    inh = pat == '' and rng.random() < 0.5
    P = doc_join(incs) or ''
    lead = ('/' + P) if P else ''
    lead = re.sub(r'\{\w+(:[^{}]*)?\}', '7', lead)
    tails = ['', '/', '/x', '/x/', '/x/5', '/5', '/x/a/b', 'x', '/y', '//x', '/é', '/x/y', '/x//y', '/x.html', '/x/5/', '///x', '/a/b']
    paths = sorted({lead + t for t in rng.sample(tails, 6)} | {rng.choice(tails) or '/', lead or '/', lead + '/'})
    paths = [p for p in paths if p.startswith('/')]
    return {'op': 'match', 'incs': incs, 'pat': pat, 'inh': inh, 'paths': paths}


def apart(case):
    """rename the placeholders of a, b, c and the pattern apart, so that the composed pattern compiles"""
    import re
    cnt = [0]

    def ren(m, k):
        cnt[0] += 1
        return '%s%s_%s%d' % (m.group(1), m.group(2), k, cnt[0])
    for k in ('a', 'b', 'c', 'pat'):
        if case[k]:
            case[k] = re.sub(r'(\{|(?<![A-Za-z]):)([A-Za-z_]\w*)', lambda m, k=k: ren(m, k), case[k])
    return case


def fn_valid(c):
    full = '/'.join([c['a'] or '', c['b'] or '', c['c'] or '', c['pat']])
    ns = ph_names(full)
    return len(ns) == len(set(ns)) and braces_ok(full)


def gen_fn(rng):
    pat = gen_pattern(rng)
    return apart({'op': 'fn', 'a': gen_prefix(rng), 'b': gen_prefix(rng), 'c': gen_prefix(rng), 'pat': pat, 'inh': rng.random() < (0.5 if pat == '' else 0.05)})


def gen_url(rng):
    r = rng.random()
    if r < 0.4:
        return {'op': 'url', 't': rng.choice(URLS)}
    if r < 0.9:
        alpha = list('ah9+.-:://///') + ['é', 'H']
        return {'op': 'url', 't': ''.join(rng.choice(alpha) for _ in range(rng.randint(0, 9)))}
    return {'op': 'url', 't': vfutil.rand_text(rng, 8, p_special=0.5)}


def gen_case(rng):
    r = rng.random()
    if r < 0.42:
        return gen_tree(rng)
    if r < 0.54:
        return gen_match(rng)
    if r < 0.86:
        return gen_fn(rng)
    return gen_url(rng)


def fixed_cases():
    out = []
    small = [None, '', '/', 'a', '/a/', '//a//b//', '{uid}']
    for a in small:
        for b in small:
            for pat, inh in (('', False), ('', True), ('/', False), ('/x', False), ('x/', False), ('//x', False), ('http://h/x', False), ('x', True)):
                out.append(apart({'op': 'fn', 'a': a, 'b': b, 'c': 'c/', 'pat': pat, 'inh': inh}))
    for u in URLS:
        out.append({'op': 'url', 't': u})
    for n in STATIC_NAMES:
        for p in (None, 'api', '/a/b/'):
            out.append({'op': 'tree', 'top': None, 'auto': True, 'body': [{'k': 'inc', 'p': p, 'b': [{'k': 'static', 'n': n}, {'k': 'probe'}]}]})
    for kind in ('ctx', 'inc'):
        for p in ('api', '/', None):
            out.append({'op': 'tree', 'top': '/t/', 'auto': False, 'body': [
                {'k': 'try', 'b': [{'k': kind, 'p': p, 'b': [{'k': 'route', 'n': 'r1', 'p': '/x', 'inh': False, 'st': False}, {'k': 'probe'},
                                                              {'k': kind, 'p': 'in', 'b': [{'k': 'probe'}, {'k': 'raise'}]},
                                                              {'k': 'route', 'n': 'never', 'p': '/never', 'inh': False, 'st': False}]}]},
                {'k': 'probe'}, {'k': 'route', 'n': 'r2', 'p': '', 'inh': True, 'st': False},
                {'k': 'try', 'b': [{'k': kind, 'p': p, 'b': [{'k': 'route', 'n': 'bad', 'p': '/y', 'inh': True, 'st': False}]}]}, {'k': 'probe'}]})
    for incs in ([], ['api'], ['/api/', 'v1'], ['a', None, '/', 'b'], ['u/{uid}'], ['é', 'a b']):
        for pat, inh in (('', False), ('', True), ('/', False), ('/x/{id}', False), ('*rest', False)):
            P = (doc_join(incs) or '').replace('{uid}', '7')
            lead = '/' + P if P else ''
            out.append({'op': 'match', 'incs': incs, 'pat': pat, 'inh': inh,
                        'paths': [p for p in [lead or '/', lead + '/', lead + '/x/5', lead + '/x', lead + '//', '/x/5', lead + '/a/b'] if p]})
    return out


# ------------------------------------------------------------------------------------------------------------------
def is_trivial(case, got):
    op = case['op']
    if op == 'tree':
        def walk(body, inside):
            for s in body:
                if s['k'] in ('route', 'static', 'probe') and inside:
                    return True
                if s['k'] in ('ctx', 'inc') and walk(s['b'], inside or bool(s['p'] and s['p'].strip('/'))):
                    return True
                if s['k'] == 'try' and walk(s['b'], inside):
                    return True
            return False
        return not walk(case['body'], bool(case['top']))
    if op == 'fn':
        return sum(1 for x in (case['a'], case['b'], case['c']) if x and x.strip('/')) < 2
    if op == 'match':
        return doc_join(case['incs']) is None or not any(g.get('match') for g in got.get('got', []))
    return '//' not in case['t'] and ':' not in case['t']


def classify(case, got, dist):
    op = case['op']
    vfutil.bump(dist['ops'], op)
    if op == 'tree':
        stats = {'depth': 0, 'routes': 0, 'statics': 0, 'raise': 0, 'inh': 0, 'ext': 0, 'ph_prefix': 0, 'unicode': 0, 'dbl': 0}

        def walk(body, d):
            stats['depth'] = max(stats['depth'], d)
            for s in body:
                k = s['k']
                if k == 'route':
                    stats['routes'] += 1
                    stats['inh'] += bool(s['inh'])
                    stats['ext'] += bool(is_external(s['p']))
                elif k == 'static':
                    stats['statics'] += 1
                elif k == 'raise':
                    stats['raise'] += 1
                elif k in ('ctx', 'inc'):
                    p = s['p'] or ''
                    stats['ph_prefix'] += '{' in p
                    stats['unicode'] += any(ord(c) > 127 for c in p)
                    stats['dbl'] += '//' in p
                    vfutil.bump(dist['blocks'], k)
                    walk(s['b'], d + 1)
                elif k == 'try':
                    walk(s['b'], d)
        walk(case['body'], 0)
        vfutil.bump(dist['tree_depth'], str(stats['depth']))
        vfutil.bump(dist['tree_routes'], str(min(stats['routes'] + stats['statics'], 8)))
        for k in ('raise', 'inh', 'ext', 'ph_prefix', 'unicode', 'dbl', 'statics'):
            if stats[k]:
                vfutil.bump(dist['features'], 'tree_' + k)
        vfutil.bump(dist['features'], 'autocommit' if case.get('auto', True) else 'deferred')
        if case['top'] is not None:
            vfutil.bump(dist['features'], 'top_prefix')
        vfutil.bump(dist['outcome'], 'tree_raised_' + str(got.get('raised')) if got.get('raised') else 'tree_completed')
    elif op == 'fn':
        for k in ('a', 'b', 'c'):
            p = case[k]
            vfutil.bump(dist['prefix_shape'], 'None' if p is None else 'empty' if p == '' else 'slashes' if not p.strip('/') else
                        'clean' if p == p.strip('/') and '//' not in p else 'raw')
        r = got.get('apply', {})
        vfutil.bump(dist['outcome'], 'apply_' + ('err' if 'err' in r else 'static' if r.get('ok', [0, 0])[1] else 'ok'))
        if case['inh']:
            vfutil.bump(dist['features'], 'fn_inherit_slash')
    elif op == 'match':
        vfutil.bump(dist['match_depth'], str(len(case['incs'])))
        for g in got.get('got', []):
            vfutil.bump(dist['outcome'], 'request_' + ('match' if g.get('match') else 'nomatch' if g.get('match') is False else 'other'))
    else:
        vfutil.bump(dist['outcome'], 'url_' + ('err' if 'err' in got else 'host' if got.get('host') else 'netloc' if got.get('netloc') else 'plain'))


def strip(got):
    return json.loads(json.dumps(got, default=str))


def check_case(M, case, mo):
    got = impl(M, case)
    detail, exp, finding = oracle(case, got)
    m = None
    if mo is not None:
        why = compare_model(case, got, mo)
        if why:
            m = {'case': case, 'impl': strip(got), 'model': model_view(case, mo), 'why': why}
    v = None
    if detail:
        v = {'case': case, 'impl': strip(got), 'expected': exp, 'detail': detail}
        if finding:
            v['finding'] = finding
    return m, v, got


def well_formed(c):
    try:
        if not isinstance(c, dict):
            return False
        op = c.get('op')
        if op == 'tree':
            def ok(body):
                return isinstance(body, list) and all(
                    isinstance(s, dict) and s.get('k') in ('route', 'static', 'ctx', 'inc', 'try', 'raise', 'probe') and
                    (s['k'] not in ('ctx', 'inc', 'try') or ok(s['b'])) and
                    (s['k'] != 'route' or (isinstance(s['n'], str) and isinstance(s['p'], str))) for s in body)
            return ok(c['body']) and (c['top'] is None or isinstance(c['top'], str)) and valid_tree(c)
        if op == 'match':
            full = '/'.join([p or '' for p in c['incs']] + [c['pat']])
            ns = ph_names(full)
            return isinstance(c['incs'], list) and isinstance(c['paths'], list) and all(isinstance(p, str) and p.startswith('/') for p in c['paths']) and \
                len(ns) == len(set(ns)) and braces_ok(full) and '*' not in '/'.join(p or '' for p in c['incs'])
        if op == 'fn':
            return all(c[k] is None or isinstance(c[k], str) for k in ('a', 'b', 'c')) and isinstance(c['pat'], str) and fn_valid(c)
        return op == 'url' and isinstance(c['t'], str)
    except Exception:   # noqa
        return False


def shrink_violation(M, v):
    op = v['case']['op']

    def fails(c):
        try:
            if not well_formed(c) or c.get('op') != op:
                return False
            d, _, f = oracle(c, impl(M, c))
            return bool(d) and f == v.get('finding')
        except Exception:  # noqa
            return False
    small = vfutil.shrink(v['case'], fails, max_steps=250)
    if small != v['case']:
        g = impl(M, small)
        d, e, f = oracle(small, g)
        out = {'case': small, 'impl': strip(g), 'expected': e, 'detail': d}
        if f:
            out['finding'] = f
        return out
    return v


def new_dist():
    return {'ops': {}, 'outcome': {}, 'features': {}, 'tree_depth': {}, 'tree_routes': {}, 'blocks': {}, 'prefix_shape': {}, 'match_depth': {}}


def run(ctx):
    M = mods(ctx)
    rng = ctx.rng
    n = ctx.n(5000, 40000)
    cases = [c for _, c in ctx.corpus()]
    ncorpus = len(cases)
    cases += fixed_cases()
    nfixed = len(cases) - ncorpus
    cases += [gen_case(rng) for _ in range(n)]
    model = [None] * len(cases)
    if ctx.driver_path:
        model = ctx.run_model([enc_case(c) for c in cases])
    mism, viol, agree = [], [], 0
    dist = new_dist()
    seen, nontriv = set(), set()
    done = 0
    for case, mo in zip(cases, model):
        m, v, got = check_case(M, case, mo)
        done += 1
        if m: mism.append(m)
        elif mo is not None: agree += 1
        if v: viol.append(v)
        classify(case, got, dist)
        key = vfutil.canon(case)
        if key not in seen:
            seen.add(key)
            if not is_trivial(case, got): nontriv.add(key)
        if ctx.time_left() < 60:
            break
    viol.sort(key=lambda v: len(vfutil.canon(v['case'])))
    viol = [shrink_violation(M, v) for v in viol[:4]] + viol[4:30]
    return {'evaluations': done, 'distinct_nontrivial': len(nontriv), 'rule': RULE, 'agreeing': agree,
            'samples': cases[ncorpus + nfixed:ncorpus + nfixed + 5] + cases[-3:], 'mismatches': mism[:20], 'violations': viol,
            'distribution': dist,
            'notes': ['%d corpus + %d fixed + %d random cases' % (ncorpus, nfixed, n),
                      'tree cases run a real Configurator (autocommit or deferred + commit) and read config.get_routes_mapper(); match cases go through '
                      'make_wsgi_app() and a real Router, compared with a route registered directly and with the un-prefixed route on the remainder'],
            'assumptions': ['prefixes / patterns / names are str without lone surrogates (or None for a prefix)',
                            'route and prefix texts are drawn so that the composed pattern compiles (placeholder names renamed apart; no *star in a prefix)',
                            'urlparse is modelled on UrlSafe texts only (no ? # ; @ [ ] no characters <= U+0020, no NFKC-compatibility forms of / ? # @ :)'],
            'trusted_base': ['extract/x08.py probes the running Configurator over finite cubes (Gen/X08.lean)',
                             "CPython's str.strip/lstrip/rstrip('/') and urllib.parse.urlparse are tied to the model by probe tables and correspondence, not by proof",
                             "C01's lstripSlash / rstripSlash and C02's stripSlash are reused read-only"]}


def search(ctx):
    """implementation-only, small-scope exhaustive search for an input on which the implementation violates the property"""
    import itertools
    M = mods(ctx)
    viol, n = [], [0]

    def push(case):
        n[0] += 1
        try:
            got = impl(M, case)
            d, e, f = oracle(case, got)
        except Exception as ex:  # noqa
            d, e, f, got = 'harness error: %r' % (ex,), None, None, {}
        if d and not f and len(viol) < 40:
            viol.append({'case': case, 'impl': strip(got), 'expected': e, 'detail': d})
    for _, c in ctx.corpus():
        push(c)
    for c in fixed_cases():
        push(c)
    alpha = [None, '', '/', 'a', '/a', 'a/', '/a/', 'a/b', '//a//', 'a//b']
    pats = [('', False), ('', True), ('/', False), ('x', False), ('/x', False), ('x/', False), ('//x', False), ('http://h/x', False), ('/x', True)]
    for a, b, c in itertools.product(alpha, repeat=3):
        for pat, inh in pats[:5] if c not in (None, 'a') else pats:
            push({'op': 'fn', 'a': a, 'b': b, 'c': c, 'pat': pat, 'inh': inh})
        if len(viol) >= 5:
            break
    exhaustive = len(viol) < 5
    # every nesting of <= 3 blocks (ctx / inc) over 4 prefixes, with a raise at every depth
    for depth in range(0, 4):
        for kinds in itertools.product(('ctx', 'inc'), repeat=depth):
            for ps in itertools.product((None, 'a', '/b/', '/'), repeat=depth):
                for boom in range(-1, depth + 1):
                    for top in (None, '/t/'):
                        body = [{'k': 'route', 'n': 'leaf', 'p': '/x', 'inh': False, 'st': False}, {'k': 'static', 'n': 's'}, {'k': 'probe'}]
                        if boom == depth:
                            body.append({'k': 'raise'})
                        for i in range(depth - 1, -1, -1):
                            body = [{'k': 'probe'}, {'k': kinds[i], 'p': ps[i], 'b': body}, {'k': 'probe'},
                                    {'k': 'route', 'n': 'after%d' % i, 'p': '', 'inh': True, 'st': False}]
                            if boom == i:
                                body.append({'k': 'raise'})
                        push({'op': 'tree', 'top': top, 'auto': True, 'body': [{'k': 'try', 'b': body}, {'k': 'probe'}]})
            if len(viol) >= 5 or ctx.time_left() < 150:
                break
    for incs in itertools.product((None, 'a', '/b/'), repeat=2):
        for pat, inh in pats:
            P = doc_join(incs) or ''
            lead = '/' + P if P else ''
            push({'op': 'match', 'incs': list(incs), 'pat': pat, 'inh': inh, 'paths': [lead or '/', lead + '/', lead + '/x', lead + '/x/', lead + '//x', '/x']})
    k = 0
    while ctx.time_left() > 120 and k < ctx.n(3000, 30000) and len(viol) < 5:
        push(gen_case(ctx.rng)); k += 1
    viol.sort(key=lambda v: len(vfutil.canon(v['case'])))
    viol = [shrink_violation(M, v) for v in viol[:3]] + viol[3:]
    return {'violations': viol[:5], 'searched': n[0], 'exhaustive': exhaustive,
            'scope': 'corpus + fixed cases; all (a, b, c) over 10 prefix shapes x up to 9 (pattern, inherit_slash) pairs; every nesting of <= 3 blocks '
                     '(ctx / include) over 4 prefixes with a raise at every depth, two top prefixes; 9 include pairs x 9 patterns through the Router; '
                     'then %d random cases' % k}


def replay(ctx, rep):
    case = rep.get('case') or (rep if 'op' in rep else None)      # a replay file, or a bare corpus case
    if case is None:
        return {'violates': False, 'note': 'replay names broken obligations only', 'broken': rep.get('broken_obligations')}
    M = mods(ctx)
    mo = ctx.run_model([enc_case(case)])[0] if ctx.driver_path else None
    m, v, got = check_case(M, case, mo)
    return {'case': case, 'impl': strip(got), 'model': mo and model_view(case, mo), 'expected': v and v['expected'], 'mismatch': m and m['why'],
            'detail': v and v['detail'], 'finding': v and v.get('finding'), 'violates': bool(v)}
