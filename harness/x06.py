"""X06 — view / route / subscriber predicates (extra coverage target): correspondence + property oracle + search + replay.

Cases (JSON, human readable: text is str):
  {"op":"parse","p":str}                      RequestParamPredicate(p).reqs[0]
  {"op":"sorted","v":[str…]}                  pyramid.util.as_sorted_tuple
  {"op":"pred","f":factory,"val":VAL[,"val2":VAL],"not":0|1|2,"rxlib":[RX…],"fns":[FN…],"ctx":CTX,"req":REQ}
        one predicate class of pyramid.predicates built from VAL (and, for the phash clause, a second value VAL2),
        wrapped `not` times in Notted, asked about a real context object / route info dict and a real Request
  {"op":"make","mode":"direct"|"view"|"route"|"subscriber","reg":[[name,factory]…],"kw":[[name,KW]…],
        "var": null | {"kind":"perm","perm":[i…]} | {"kind":"more","add":[name,KW]} | {"kind":"change","at":i,"kw":KW} | {"kind":"other","kw":[[name,KW]…]},
        "rxlib":…, "fns":…, "ctx":CTX, "req":REQ}
        PredicateList.make on a real PredicateList / through Configurator.add_view / add_route / add_subscriber, then the
        list is evaluated by pyramid's own callers (view predicate wrapper, RoutesMapper, subscriber wrapper)
VAL {"b":bool} | {"one":str} | {"many":[str…]} | {"tag":n} | {"cust":{"fn":i,"hash":n,"text":str|None}}
    | {"auth":True|False|None|{"i":n}} | {"pat":[["lit",str]|["ph",str]…]}
KW  None | {"v":VAL,"not":bool} | {"seq":[{"v":VAL,"not":bool}…]}
FN  ["const",bool] | ["method",str] | ["xhr"] | ["hasmatch",str]
CTX {"kind":"res","lineage":[{"name":["absent"]|["none"]|["text",str],"tags":[n…]}…]} | {"kind":"info","has_traverse":bool,"match":[[k,["s",v]|["t",[v…]]]…]}
REQ {"method":str,"path":str,"get":[[k,v]…],"post":None|[[k,v]…],"environ":[[KEY,value]…],"accept":None|"invalid"|[[type,sub,q]…],
     "context":None|[node…],"ifaces":[n…],"matchdict":None|[[k,MV]…],"is_auth":bool,"principals":[str…]}
The implementation side runs the tree under test (ctx.src); the oracle restates the property (notes/X06.md) in Python and
does not depend on the Lean build.
"""
import hashlib, io, itertools, json, os, re, sys, types, warnings
from urllib.parse import urlencode

sys.path.insert(0, os.path.join(os.path.dirname(os.path.dirname(os.path.abspath(__file__))), 'lib'))
import vfutil  # noqa: E402
from vfutil import bump  # noqa: E402

RULE = ('distinct cases (canonical JSON) that are not trivial; trivial = a parse case without "=", a sorted case of < 2 '
        'elements, a pred/make case whose request hits nothing the predicate value names (decision False by absence) and '
        'has no second value / variant')

FACTORIES = ['xhr', 'request_method', 'path_info', 'request_param', 'header', 'accept', 'containment', 'request_type',
             'match_param', 'custom', 'traverse', 'physical_path', 'is_authenticated', 'effective_principals']
CLS = {'xhr': 'XHRPredicate', 'request_method': 'RequestMethodPredicate', 'path_info': 'PathInfoPredicate',
       'request_param': 'RequestParamPredicate', 'header': 'HeaderPredicate', 'accept': 'AcceptPredicate',
       'containment': 'ContainmentPredicate', 'request_type': 'RequestTypePredicate', 'match_param': 'MatchParamPredicate',
       'custom': 'CustomPredicate', 'traverse': 'TraversePredicate', 'physical_path': 'PhysicalPathPredicate',
       'is_authenticated': 'IsAuthenticatedPredicate', 'effective_principals': 'EffectivePrincipalsPredicate'}
VIEW_NAMES = ['xhr', 'request_method', 'path_info', 'request_param', 'header', 'accept', 'containment', 'request_type',
              'match_param', 'physical_path', 'is_authenticated', 'effective_principals', 'custom']
ROUTE_NAMES = ['xhr', 'request_method', 'path_info', 'request_param', 'header', 'accept', 'is_authenticated',
               'effective_principals', 'custom', 'traverse']
INVALID_RX = ['(', '[a', '*', 'a{2,1}', '(?P<n', '\\', 'a)']
MAX_ORDER = 1 << 30


# ------------------------------------------------------------------------------------------------------------------
# the tree under test
_M = {}


def mods(ctx_or_src):
    src = ctx_or_src if isinstance(ctx_or_src, str) else ctx_or_src.src
    if src in _M:
        return _M[src]
    if src not in sys.path or sys.path[0] != src:
        sys.path.insert(0, src)
    warnings.simplefilter('ignore')
    import pyramid.predicates as P
    import pyramid.config.predicates as CP
    import pyramid.config.views as CV
    import pyramid.util as U
    from pyramid.config import Configurator, not_
    from pyramid.request import Request
    from pyramid.response import Response
    from pyramid.registry import Registry, predvalseq
    from pyramid.exceptions import ConfigurationError, PredicateMismatch, ConfigurationExecutionError
    from pyramid.urldispatch import RoutesMapper
    from pyramid.security import LegacySecurityPolicy
    from pyramid.interfaces import (ISecurityPolicy, IAuthenticationPolicy, IView, ISecuredView, IMultiView, IViewClassifier,
                                    IRequest, IRoutesMapper)
    from zope.interface import Interface, alsoProvides
    for m in (P, CP, CV, U):
        if not os.path.realpath(m.__file__).startswith(os.path.realpath(src)):
            raise RuntimeError('pyramid imported from %s, not from the tree under test %s' % (m.__file__, src))

    class I0(Interface):
        pass

    class I1(Interface):
        pass

    class K0:
        pass

    class K2:
        pass

    class K3:
        pass

    class K23(K2, K3):
        pass

    class IR0(Interface):
        pass

    class IR1(Interface):
        pass

    class StubAuthn:
        def authenticated_userid(self, request):
            return 'u' if request.environ['x06.auth'][0] else None

        def unauthenticated_userid(self, request):
            return self.authenticated_userid(request)

        def effective_principals(self, request):
            return list(request.environ['x06.auth'][1])

        def remember(self, request, userid, **kw):
            return []

        def forget(self, request):
            return []

    def secure(reg):
        reg.registerUtility(LegacySecurityPolicy(), ISecurityPolicy)
        reg.registerUtility(StubAuthn(), IAuthenticationPolicy)
    reg = Registry('x06')
    secure(reg)
    M = dict(P=P, CP=CP, CV=CV, U=U, Configurator=Configurator, not_=not_, Request=Request, Response=Response,
             Registry=Registry, predvalseq=predvalseq, ConfigurationError=ConfigurationError, PredicateMismatch=PredicateMismatch,
             ConfigurationExecutionError=ConfigurationExecutionError, RoutesMapper=RoutesMapper, Interface=Interface,
             alsoProvides=alsoProvides, IView=IView, ISecuredView=ISecuredView, IMultiView=IMultiView,
             IViewClassifier=IViewClassifier, IRequest=IRequest, IRoutesMapper=IRoutesMapper,
             TAGS=[I0, I1, K2, K3], KCLS={(False, False): K0, (True, False): K2, (False, True): K3, (True, True): K23},
             RTAGS=[IR0, IR1, IRequest], REG=reg, secure=secure, CONFIG=Configurator(registry=None))
    _M[src] = M
    return M


def err_name(M, e):
    if isinstance(e, M['ConfigurationExecutionError']):
        e = e.evalue
    for n in ('ConfigurationError', ):
        if isinstance(e, M[n]) and not isinstance(e, M['ConfigurationExecutionError']):
            return n
    for n, t in (('UnicodeEncodeError', UnicodeEncodeError), ('KeyError', KeyError), ('AttributeError', AttributeError),
                 ('ValueError', ValueError)):
        if isinstance(e, t):
            return n
    return 'Other:' + type(e).__name__


class Fn:
    """a custom predicate callable with a chosen hash and text that logs its calls"""

    def __init__(self, idx, desc, h, text, log):
        self.idx, self.desc, self.h, self.log = idx, desc, h, log
        if text is not None:
            self.__text__ = text

    def __hash__(self):
        return self.h

    def __eq__(self, other):
        return self is other

    def __repr__(self):
        return 'Fn%d' % self.idx

    def __call__(self, context, request):
        self.log.append(self.idx)
        return fn_eval(self.desc, context, request)


def fn_eval(desc, context, request):
    k = desc[0]
    if k == 'const':
        return desc[1]
    if k == 'method':
        return request.method == desc[1]
    if k == 'xhr':
        return bool(request.is_xhr)
    if k == 'hasmatch':
        return isinstance(context, dict) and desc[1] in (context.get('match') or {})
    raise ValueError(desc)


def rx_text_ok(case, t):
    return t in INVALID_RX or any(rx_print(r) == t for r in case.get('rxlib', []))


def pyval(M, case, val, log, made):
    """the Python object a VAL stands for"""
    if 'b' in val:
        return val['b']
    if 'one' in val:
        return val['one']
    if 'many' in val:
        return tuple(val['many'])
    if 'tag' in val:
        return (M['RTAGS'] if val.get('req') else M['TAGS'])[val['tag']]
    if 'cust' in val:
        c = val['cust']
        key = json.dumps(c, sort_keys=True)
        if key not in made:
            made[key] = Fn(c['fn'], case['fns'][c['fn']], c['hash'], c.get('text'), log)
        return made[key]
    if 'auth' in val:
        a = val['auth']
        return a['i'] if isinstance(a, dict) else a
    if 'pat' in val:
        return ''.join(t[1] if t[0] == 'lit' else '{' + t[1] + '}' for t in val['pat'])
    raise ValueError(val)


def build_lineage(M, nodes):
    """objects for a lineage given context first; returns the context (None for an empty lineage: a bare object())"""
    if not nodes:
        return object()
    parent = None
    for node in reversed(nodes):
        o = M['KCLS'][(2 in node['tags'], 3 in node['tags'])]()
        if node['name'][0] == 'none':
            o.__name__ = None
        elif node['name'][0] == 'text':
            o.__name__ = node['name'][1]
        o.__parent__ = parent
        for t in node['tags']:
            if t < 2:
                M['alsoProvides'](o, M['TAGS'][t])
        parent = o
    return parent


def mv_py(v):
    return v[1] if v[0] == 's' else tuple(v[1])


def mv_json(v):
    if isinstance(v, str):
        return ['s', v]
    if isinstance(v, tuple) and all(isinstance(x, str) for x in v):
        return ['t', list(v)]
    return ['?', repr(v)[:60]]


def build_ctx(M, c):
    if c['kind'] == 'res':
        return build_lineage(M, c['lineage'])
    info = {'match': {k: mv_py(v) for k, v in c['match']}, 'route': None}
    if c['has_traverse']:
        info['traverse'] = 'x'
    return info


def ctx_after(c, obj):
    if c['kind'] == 'res':
        return c
    return {'kind': 'info', 'has_traverse': 'traverse' in obj, 'match': [[k, mv_json(v)] for k, v in obj['match'].items()]}


def accept_header(acc):
    if acc == 'invalid':
        return ', ;;'
    parts = []
    for t, s, q in acc:
        parts.append('%s/%s' % (t, s) if q == 1000 else '%s/%s;q=%s' % (t, s, ('%.3f' % (q / 1000.0)).rstrip('0').rstrip('.')))
    return ', '.join(parts)


def build_request(M, q, registry=None):
    r = M['Request'].blank('/')
    e = r.environ
    e['REQUEST_METHOD'] = q['method']
    e['PATH_INFO'] = q['path'].encode('utf-8').decode('latin-1')
    e['QUERY_STRING'] = urlencode([tuple(x) for x in q['get']])
    if q.get('post') is not None:
        body = urlencode([tuple(x) for x in q['post']]).encode('ascii')
        e['CONTENT_TYPE'] = 'application/x-www-form-urlencoded'
        e['CONTENT_LENGTH'] = str(len(body))
        e['wsgi.input'] = io.BytesIO(body)
    else:
        e['CONTENT_LENGTH'] = '0'       # webob would add it while reading POST; keep the environ stable
    for k, v in q['environ']:
        e[k] = v
    if q['accept'] is not None:
        e['HTTP_ACCEPT'] = accept_header(q['accept'])
    e['x06.auth'] = (q['is_auth'], q['principals'])
    r.registry = registry if registry is not None else M['REG']
    if q['context'] is not None:
        r.context = build_lineage(M, q['context'])
    for t in q['ifaces']:
        if t < 2:
            M['alsoProvides'](r, M['RTAGS'][t])
    r.matchdict = None if q['matchdict'] is None else {k: mv_py(v) for k, v in q['matchdict']}
    return r


def measure(q, r):
    """what the model is told about the request: read back from the real Request object (webob's parsing is webob's)"""
    e = r.environ
    env = [[k, v] for k, v in e.items() if isinstance(v, str) and (k.startswith('HTTP_') or k in ('CONTENT_TYPE', 'CONTENT_LENGTH'))]
    return {'method': r.method, 'upath': r.upath_info, 'get': [[k, v] for k, v in r.GET.items()],
            'post': [[k, v] for k, v in r.POST.items() if isinstance(v, str)],
            'environ': env,
            'accept': q['accept'] if isinstance(q['accept'], list) else None,
            'context': q['context'], 'ifaces': sorted(set(q['ifaces']) | {2}), 'matchdict': q['matchdict'],
            'is_auth': q['is_auth'], 'principals': q['principals']}


def info_path(c):
    """the request path whose match against the pattern /{k1}/{k2}… is the info ctx's matchdict"""
    return '/' + '/'.join(v[1] for _, v in c['match'])


def info_pattern(c):
    return '/' + '/'.join('{%s}' % k for k, _ in c['match'])


# ------------------------------------------------------------------------------------------------------------------
# implementation side
def attempt(M, f):
    try:
        return {'ok': f()}
    except Exception as e:      # noqa
        return {'err': err_name(M, e)}


def impl_parse(M, case):
    p = M['P'].RequestParamPredicate(case['p'], None)
    k, v = p.reqs[0]
    return {'k': k, 'v': v, 'n': len(p.reqs)}


def impl_sorted(M, case):
    return {'sorted': list(M['U'].as_sorted_tuple(tuple(case['v'])))}


def one_pred(M, case, val, log, made, ctxobj=None, req=None):
    info = types.SimpleNamespace(maybe_dotted=lambda x: x, package=None, registry=None, settings={})
    try:
        p = getattr(M['P'], CLS[case['f']])(pyval(M, case, val, log, made), info)
    except Exception as e:      # noqa
        return {'err': err_name(M, e)}
    inner = p
    for _ in range(case.get('not', 0)):
        p = M['P'].Notted(p)
    out = {'text': p.text(), 'phash': p.phash(), 'inner_phash': inner.phash()}
    if ctxobj is None:
        ctxobj = build_ctx(M, case['ctx'])
        req = build_request(M, case['req'])
    try:
        res = p(ctxobj, req)
        out['call'] = {'ok': [bool(res), ctx_after(case['ctx'], ctxobj)]}
        out['raw_bool'] = isinstance(res, bool)
    except Exception as e:      # noqa
        out['call'] = {'err': err_name(M, e)}
    return out


def impl_pred(M, case):
    log, made = [], {}
    req = build_request(M, case['req'])
    out = one_pred(M, case, case['val'], log, made)
    out['mreq'] = measure(case['req'], req)
    out['log'] = list(log)
    if 'val2' in case:
        out['second'] = one_pred(M, case, case['val2'], [], made)
    if 'cust' in case['val'] or 'tag' in case['val']:
        out['vinfo'] = val_info(M, case, case['val'], made)
        out['vinfo']['independent'] = True
        if 'val2' in case:
            out['vinfo2'] = val_info(M, case, case['val2'], made)
    return out


def val_info(M, case, val, made):
    """data of a value that the model takes as given: hash(func), the text of a custom predicate, str(class)"""
    if 'cust' in val:
        f = pyval(M, case, val, [], made)
        return {'hash': hash(f), 'text': getattr(f, '__text__', 'custom predicate: %s' % M['U'].object_description(f))}
    if 'tag' in val:
        return {'str': str(pyval(M, case, val, [], made))}
    return None


def kw_py(M, case, kw, log, made):
    out = {}
    for name, k in kw:
        if k is None:
            out[name] = None
        elif 'seq' in k:
            out[name] = M['predvalseq']([M['not_'](pyval(M, case, e['v'], log, made)) if e['not'] else pyval(M, case, e['v'], log, made) for e in k['seq']])
        else:
            v = pyval(M, case, k['v'], log, made)
            out[name] = M['not_'](v) if k['not'] else v
    return out


def kw_variant(case):
    """the second keyword list of a variant case"""
    var = case.get('var')
    kw = case['kw']
    if not var:
        return None
    if var['kind'] == 'perm':
        return [kw[i] for i in var['perm']]
    if var['kind'] == 'more':
        return [e for e in kw if e[0] != var['add'][0]] + [var['add']]
    if var['kind'] == 'other':
        return var['kw']
    if var['kind'] == 'change':
        return [[n, var['kw']] if i == var['at'] else [n, k] for i, (n, k) in enumerate(kw)]
    raise ValueError(var)


def eval_preds(M, case, preds, log):
    """have pyramid's own callers evaluate the list"""
    c = case['ctx']
    if c['kind'] == 'res':
        ctxobj = build_ctx(M, c)
        req = build_request(M, case['req'])
        called = []

        def view(context, request):
            called.append(1)
            return 'response'
        wrapped = M['CV'].predicated_view(view, types.SimpleNamespace(predicates=preds))
        try:
            wrapped(ctxobj, req)
            return {'ok': [True, c, list(log)]}
        except M['PredicateMismatch']:
            return {'ok': [False, c, list(log)]}
        except Exception as e:      # noqa
            return {'err': err_name(M, e)}
    mapper = M['RoutesMapper']()
    mapper.connect('r', info_pattern(c), predicates=preds)
    req = build_request(M, dict(case['req'], path=info_path(c)))
    try:
        info = mapper(req)
    except Exception as e:      # noqa
        return {'err': err_name(M, e)}
    if info['route'] is None:
        return {'ok': [False, None, list(log)]}
    return {'ok': [True, ctx_after(c, info), list(log)]}


def made_view(M, preds, order, phash, log, case):
    out = {'order': order, 'phash': phash, 'texts': [p.text() for p in preds], 'phashes': [p.phash() for p in preds]}
    del log[:]
    out['eval'] = eval_preds(M, case, preds, log)
    return out


def impl_make_direct(M, case, kw):
    log, made = [], {}
    pl = M['CP'].PredicateList()
    for name, f in case['reg']:
        pl.add(name, getattr(M['P'], CLS[f]))
    out = {'ordered': [n for n, _ in pl.sorter.sorted()]}
    try:
        order, preds, phash = pl.make(M['CONFIG'], **kw_py(M, case, kw, log, made))
    except Exception as e:      # noqa
        out['err'] = err_name(M, e)
        return out
    out.update(made_view(M, preds, order, phash, log, case))
    out['vinfo'] = [[json.dumps(k, sort_keys=True), {'hash': hash(f), 'text': getattr(f, '__text__', 'custom predicate: %s' % M['U'].object_description(f))}]
                    for k, f in made.items()]
    return out


def cust_infos(M, made):
    return [[k, {'hash': hash(f), 'text': getattr(f, '__text__', 'custom predicate: %s' % M['U'].object_description(f))}]
            for k, f in made.items()]


def impl_make_config(M, case, kw):
    """through Configurator.add_view / add_route / add_subscriber"""
    log, made = [], {}
    mode = case['mode']
    config = M['Configurator']()
    M['secure'](config.registry)
    kwpy = kw_py(M, case, kw, log, made)
    out = {}
    hit = []
    try:
        if mode == 'view':
            if 'custom' in kwpy:
                c = kwpy.pop('custom')
                if c is not None:
                    kwpy['custom_predicates'] = tuple(c)
            config.add_view(lambda context, request: hit.append(1) or M['Response']('ok'), **kwpy)
            config.commit()
            out['ordered'] = [n for n, _ in config.get_predlist('view').sorter.sorted()]
            view = None
            for iface in (M['IView'], M['ISecuredView'], M['IMultiView']):
                view = config.registry.adapters.lookup((M['IViewClassifier'], M['IRequest'], M['Interface']), iface, name='')
                if view is not None:
                    break
            preds = list(getattr(view, '__predicates__', []))
            out.update({'order': getattr(view, '__order__', MAX_ORDER), 'phash': getattr(view, '__phash__', M['CP'].DEFAULT_PHASH), 'texts': [p.text() for p in preds],
                        'phashes': [p.phash() for p in preds]})
            del log[:]
            ctxobj = build_ctx(M, case['ctx'])
            req = build_request(M, case['req'], config.registry)
            try:
                view(ctxobj, req)
                out['eval'] = {'ok': [True, case['ctx'], list(log)]}
            except M['PredicateMismatch']:
                out['eval'] = {'ok': [False, case['ctx'], list(log)]}
            except Exception as e:      # noqa
                out['eval'] = {'err': err_name(M, e)}
        elif mode == 'route':
            if 'custom' in kwpy:
                c = kwpy.pop('custom')
                if c is not None:
                    kwpy['custom_predicates'] = tuple(c)
            c = case['ctx']
            config.add_route('r', info_pattern(c), **kwpy)
            config.commit()
            out['ordered'] = [n for n, _ in config.get_predlist('route').sorter.sorted()]
            mapper = config.get_routes_mapper()
            route = mapper.get_route('r')
            preds = list(route.predicates)
            out.update({'order': None, 'phash': None, 'texts': [p.text() for p in preds], 'phashes': [p.phash() for p in preds]})
            del log[:]
            req = build_request(M, dict(case['req'], path=info_path(c)), config.registry)
            try:
                info = mapper(req)
                out['eval'] = {'ok': [False, None, list(log)] if info['route'] is None else [True, ctx_after(c, info), list(log)]}
            except Exception as e:      # noqa
                out['eval'] = {'err': err_name(M, e)}
        else:
            for name, f in case['reg']:
                config.add_subscriber_predicate(name, getattr(M['P'], CLS[f]))
            config.add_subscriber(lambda context, request: hit.append(1), (M['Interface'], M['Interface']), **kwpy)
            config.commit()
            out['ordered'] = [n for n, _ in config.get_predlist('subscriber').sorter.sorted()]
            intr = [i for i in config.introspector.get_category('subscribers') or []]
            preds = list(intr[-1]['introspectable']['predicates']) if intr and 'predicates' in intr[-1]['introspectable'] else None
            if preds is None:
                preds = []
            out.update({'order': None, 'phash': None, 'texts': [p.text() for p in preds], 'phashes': [p.phash() for p in preds]})
            del log[:]
            ctxobj = build_ctx(M, case['ctx'])
            req = build_request(M, case['req'], config.registry)
            try:
                config.registry.notify(ctxobj, req)
                out['eval'] = {'ok': [bool(hit), case['ctx'], list(log)]}
            except Exception as e:      # noqa
                out['eval'] = {'err': err_name(M, e)}
    except Exception as e:      # noqa
        out['err'] = err_name(M, e)
        out['err_text'] = str(e)[:160]
    out['vinfo'] = cust_infos(M, made)
    return out


def impl_make(M, case):
    f = impl_make_direct if case['mode'] == 'direct' else impl_make_config
    out = f(M, case, case['kw'])
    req = build_request(M, dict(case['req'], path=info_path(case['ctx'])) if case['ctx']['kind'] == 'info' else case['req'])
    out['mreq'] = measure(case['req'], req)
    kw2 = kw_variant(case)
    if kw2 is not None:
        out['second'] = f(M, case, kw2)
    return out


def impl(M, case):
    op = case['op']
    if op == 'parse':
        return impl_parse(M, case)
    if op == 'sorted':
        return impl_sorted(M, case)
    if op == 'pred':
        return impl_pred(M, case)
    if op == 'make':
        return impl_make(M, case)
    raise ValueError(op)


# ------------------------------------------------------------------------------------------------------------------
# regex trees of the C01 fragment (printer mirrors Rx.print; rx_run is the oracle's own matcher, not re)
SPECIAL = set('()[]{}?*+-|^$\\.&~# \t\n\r\x0b\x0c')


def esc_char(c):
    return '\\' + c if c in SPECIAL else c


def item_print(it):
    if it[0] == 'c':
        return esc_char(it[1])
    if it[0] == 'r':
        return esc_char(it[1]) + '-' + esc_char(it[2])
    return '\\' + it[1]


def quant(g, m, n):
    if (m, n) == (0, None):
        q = '*'
    elif (m, n) == (1, None):
        q = '+'
    elif (m, n) == (0, 1):
        q = '?'
    elif n is None:
        q = '{%d,}' % m
    elif m == n:
        q = '{%d}' % m
    else:
        q = '{%d,%d}' % (m, n)
    return q if g else q + '?'


def rx_print(rx):
    """the text handed to `re` (mirrors Rx.print; the driver's text is compared with this on every case)"""
    k = rx[0]
    if k == 'eps':
        return ''
    if k == 'chr':
        return esc_char(rx[1])
    if k == 'any':
        return '.'
    if k == 'all':
        return '(?s:.)'
    if k == 'set':
        return '[' + ('^' if rx[1] else '') + ''.join(item_print(i) for i in rx[2]) + ']'
    if k == 'esc':
        return '\\' + (rx[1].upper() if rx[2] else rx[1])
    if k == 'seq':
        return rx_print(rx[1]) + rx_print(rx[2])
    if k == 'alt':
        return '(?:' + rx_print(rx[1]) + '|' + rx_print(rx[2]) + ')'
    if k == 'rep':
        body = rx_print(rx[4]) if rx[4][0] in ('chr', 'any', 'all', 'set', 'esc', 'alt') else '(?:' + rx_print(rx[4]) + ')'
        return body + quant(rx[1], rx[2], rx[3])
    raise ValueError(rx)


def rx_wire(rx):
    k = rx[0]
    if k == 'chr':
        return ['chr', ord(rx[1])]
    if k == 'set':
        return ['set', rx[1], [[i[0]] + [ord(x) if i[0] != 'e' else x for x in i[1:]] for i in rx[2]]]
    if k in ('seq', 'alt'):
        return [k, rx_wire(rx[1]), rx_wire(rx[2])]
    if k == 'rep':
        return ['rep', rx[1], rx[2], rx[3], rx_wire(rx[4])]
    return list(rx)


def rx_nullable(rx):
    k = rx[0]
    if k == 'eps':
        return True
    if k in ('chr', 'any', 'all', 'set', 'esc'):
        return False
    if k == 'seq':
        return rx_nullable(rx[1]) and rx_nullable(rx[2])
    if k == 'alt':
        return rx_nullable(rx[1]) or rx_nullable(rx[2])
    return rx[2] == 0 or rx_nullable(rx[4])


_cls_cache = {}


class TooBig(Exception):
    pass


def cls_test(k, c):
    """\\d \\w \\s on one character — the Unicode database is Python's"""
    key = (k, c)
    if key not in _cls_cache:
        _cls_cache[key] = re.fullmatch('\\' + k, c) is not None
    return _cls_cache[key]


def item_test(it, c):
    if it[0] == 'c':
        return c == it[1]
    if it[0] == 'r':
        return ord(it[1]) <= ord(c) <= ord(it[2])
    return cls_test(it[1], c)


WORK = [0, 10 ** 9]          # [steps so far, limit] of the oracle's matcher


def rx_run(rx, s, i):
    """oracle: end positions of all matches of rx at s[i:], in backtracking (priority) order"""
    WORK[0] += 1
    if WORK[0] > WORK[1]:
        raise TooBig()
    k = rx[0]
    if k == 'eps':
        return [i]
    if k in ('chr', 'any', 'all', 'set', 'esc'):
        if i >= len(s):
            return []
        c = s[i]
        if k == 'chr':
            ok = c == rx[1]
        elif k == 'any':
            ok = c != '\n'
        elif k == 'all':
            ok = True
        elif k == 'set':
            ok = any(item_test(it, c) for it in rx[2]) != rx[1]
        else:
            ok = cls_test(rx[1], c) != rx[2]
        return [i + 1] if ok else []
    if k == 'seq':
        return [e for m in rx_run(rx[1], s, i) for e in rx_run(rx[2], s, m)]
    if k == 'alt':
        return rx_run(rx[1], s, i) + rx_run(rx[2], s, i)
    g, mn, mx, body = rx[1], rx[2], rx[3], rx[4]

    def rep(j, count):
        more = []
        if mx is None or count < mx:
            for m in rx_run(body, s, j):
                if m > j:                       # bodies are never nullable in the fragment
                    more += rep(m, count + 1)
        if count < mn:
            return more
        return more + [j] if g else [j] + more
    return rep(i, 0)


def rx_sample(rng, rx):
    """a random word of the language of rx (best effort; None when unlucky)"""
    k = rx[0]
    if k == 'eps':
        return ''
    if k in ('chr', 'any', 'all', 'set', 'esc'):
        if k == 'chr':
            return rx[1]
        pool = list('ab1/ .-_Zé日\n0x')
        rng.shuffle(pool)
        for c in pool:
            if rx_run(rx, c, 0):
                return c
        return None
    if k == 'seq':
        a, b = rx_sample(rng, rx[1]), rx_sample(rng, rx[2])
        return None if a is None or b is None else a + b
    if k == 'alt':
        return rx_sample(rng, rx[1 + rng.randrange(2)])
    mn, mx = rx[2], rx[3]
    n = rng.randint(mn, mn + 2 if mx is None else mx)
    parts = [rx_sample(rng, rx[4]) for _ in range(n)]
    return None if any(p is None for p in parts) else ''.join(parts)


RX_CHARS = list('abcxyz019') + list('-._~%:,=@/') + list('.+*?()[]|^$\\ ') + ['é', '日']
QUANTS = [(0, None), (1, None), (0, 1), (2, 2), (1, 3), (0, 2), (2, None), (1, 1), (0, 0)]


def gen_item(rng):
    r = rng.random()
    if r < 0.5:
        return ['c', rng.choice(RX_CHARS)]
    if r < 0.8:
        return ['r'] + list(rng.choice([('a', 'c'), ('0', '9'), ('A', 'Z'), ('a', 'z'), ('x', 'x'), ('!', '/'), ('à', 'ÿ')]))
    return ['e', rng.choice('dws')]


def gen_rx(rng, depth=0, inrep=False):
    """a random tree of the fragment (Rx.ok); no unbounded repeat inside a repeat (keeps the number of alternatives
    polynomial)"""
    r = rng.random()
    if depth >= 3 or r < 0.35:
        a = rng.random()
        if a < 0.35:
            return ['chr', rng.choice(RX_CHARS)]
        if a < 0.43:
            return ['any']
        if a < 0.47:
            return ['all']
        if a < 0.8:
            return ['set', rng.random() < 0.4, [gen_item(rng) for _ in range(rng.randint(1, 3))]]
        return ['esc', rng.choice('dws'), rng.random() < 0.3]
    if r < 0.55:
        return ['seq', gen_rx(rng, depth + 1, inrep), gen_rx(rng, depth + 1, inrep)]
    if r < 0.7:
        return ['alt', gen_rx(rng, depth + 1, inrep), gen_rx(rng, depth + 1, inrep) if rng.random() < 0.85 else ['eps']]
    for _ in range(5):
        body = gen_rx(rng, depth + 1, True)
        if not rx_nullable(body):
            m, n = rng.choice([q for q in QUANTS if q[1] is not None] if inrep else QUANTS)
            return ['rep', rng.random() < 0.65, m, n, body]
    return ['rep', True, 1, None, ['esc', 'd', False]]



# ------------------------------------------------------------------------------------------------------------------
# the oracle: the statement of notes/X06.md in Python (no Lean, no pyramid.predicates)
PLAIN = set('abcdefghijklmnopqrstuvwxyz0123456789.-_/')


def doc_parse(p):
    """'k=v' with the '=' looked for from the SECOND character on; both sides stripped; otherwise presence only"""
    i = p.find('=', 1)
    if i < 0:
        return (p, None)
    return (p[:i].strip(), p[i + 1:].strip())


def as_list(val):
    return [val['one']] if 'one' in val else list(val['many'])


def trans(name):
    u = name.upper()
    return {'CONTENT-TYPE': 'CONTENT_TYPE', 'CONTENT-LENGTH': 'CONTENT_LENGTH'}.get(u, 'HTTP_' + u.replace('-', '_'))


def tree_of(case, text):
    for r in case.get('rxlib', []):
        if rx_print(r) == text:
            return r
    return None


def rx_matches(tree, s):
    WORK[0], WORK[1] = 0, 400000
    try:
        return bool(rx_run(tree, s, 0))
    except TooBig:
        return None
    finally:
        WORK[1] = 10 ** 9


def doc_accept(ranges, offers):
    if ranges is None:
        return bool(offers)
    for o in offers:
        best = None
        for idx, (t, s, q) in enumerate(ranges):
            if o == t + '/' + s:
                sp = 3
            elif s == '*' and o.split('/')[0] == t:
                sp = 2
            elif t == '*' and s == '*':
                sp = 1
            else:
                continue
            if best is None or sp > best[0]:
                best = (sp, q)
        if best is not None and best[1] > 0:
            return True
    return False


def doc_travpath(tv):
    out = []
    for seg in tv.split('/'):
        if seg in ('', '.'):
            continue
        if seg == '..':
            if out:
                out.pop()
        else:
            out.append(seg)
    return out


def doc_decide(case, val, ctx, q):
    """('ok', bool, ctx_after) | ('err', name) | ('skip', why): the declarative reading of one un-negated predicate"""
    f = case['f'] if 'f' in case else None
    return doc_decide_f(case, f, val, ctx, q)


def doc_decide_f(case, f, val, ctx, q):
    env = dict((k, v) for k, v in q['environ'])
    if f == 'xhr':
        return ('ok', (env.get('HTTP_X_REQUESTED_WITH') == 'XMLHttpRequest') == val['b'], ctx)
    if f == 'request_method':
        vals = as_list(val)
        return ('ok', q['method'] in vals or (q['method'] == 'HEAD' and 'GET' in vals), ctx)
    if f == 'path_info':
        t = val['one']
        if t in INVALID_RX:
            return ('err', 'ConfigurationError')
        tree = tree_of(case, t)
        if tree is None:
            return ('skip', 'regex outside the library')
        m = rx_matches(tree, q['upath'])
        return ('skip', 'matcher budget') if m is None else ('ok', m, ctx)
    if f == 'request_param':
        def get(k):
            for src in (q['get'], q['post']):
                hits = [v for kk, v in src if kk == k]
                if hits:
                    return hits[-1]
            return None
        ok = True
        for p in as_list(val):
            k, v = doc_parse(p)
            a = get(k)
            if a is None or (v is not None and a != v):
                ok = False
        return ('ok', ok, ctx)
    if f == 'header':
        ok = True
        for name in as_list(val):
            rx = None
            if ':' in name:
                name, rx = name.split(':', 1)
                if rx in INVALID_RX:
                    return ('err', 'ConfigurationError')
                tree = tree_of(case, rx) if rx != '' else ['eps']
                if tree is None:
                    return ('skip', 'regex outside the library')
            if any(ord(c) > 127 for c in name):
                return ('skip', 'non-ASCII header name')
            v = env.get(trans(name))
            if v is None:
                ok = False
            elif rx is not None:
                m = rx_matches(tree, v)
                if m is None:
                    return ('skip', 'matcher budget')
                ok = ok and m
        return ('ok', ok, ctx)
    if f == 'accept':
        if not all(re.fullmatch(r'[a-z0-9.+-]+/[a-z0-9.+-]+', o) for o in as_list(val)):
            return ('skip', 'offer outside the fragment')
        return ('ok', doc_accept(q['accept'], as_list(val)), ctx)
    if f == 'containment':
        lin = q['context'] if q['context'] is not None else (ctx['lineage'] if ctx['kind'] == 'res' else [])
        return ('ok', any(val['tag'] in n['tags'] for n in lin), ctx)
    if f == 'request_type':
        return ('ok', val['tag'] in q['ifaces'], ctx)
    if f == 'match_param':
        reqs = []
        for p in as_list(val):
            if '=' not in p:
                return ('err', 'ValueError')
            k, v = p.split('=', 1)
            reqs.append((k.strip(), v.strip()))
        md = q['matchdict']
        if not md:
            return ('ok', False, ctx)
        d = dict((k, v) for k, v in md)
        return ('ok', all(d.get(k) == ['s', v] for k, v in reqs), ctx)
    if f == 'custom':
        d = case['fns'][val['cust']['fn']]
        if d[0] == 'const':
            return ('ok', d[1], ctx)
        if d[0] == 'method':
            return ('ok', q['method'] == d[1], ctx)
        if d[0] == 'xhr':
            return ('ok', env.get('HTTP_X_REQUESTED_WITH') == 'XMLHttpRequest', ctx)
        return ('ok', ctx['kind'] == 'info' and any(k == d[1] for k, _ in ctx['match']), ctx)
    if f == 'traverse':
        if ctx['kind'] != 'info':
            return ('skip', 'traverse on a resource')
        if ctx['has_traverse']:
            return ('ok', True, ctx)
        d = dict((k, v) for k, v in ctx['match'])
        phs = [t[1] for t in val['pat'] if t[0] == 'ph']
        if len(set(phs)) != len(phs):
            return ('skip', 'placeholder used twice')
        tv = ''
        for t in val['pat']:
            if t[0] == 'lit':
                piece = t[1]
            else:
                if t[1] not in d:
                    return ('err', 'KeyError')
                if d[t[1]][0] != 's':
                    return ('skip', 'tuple value')
                piece = d[t[1]][1]
            if not set(piece) <= PLAIN:
                return ('skip', 'needs quoting')
            tv += piece
        new = [[k, v] for k, v in ctx['match'] if k != 'traverse']
        segs = ['t', doc_travpath(tv)]
        if 'traverse' in d:
            new = [[k, segs if k == 'traverse' else v] for k, v in ctx['match']]
        else:
            new.append(['traverse', segs])
        return ('ok', True, dict(ctx, match=new))
    if f == 'physical_path':
        want = [''] + [s for s in val['one'].split('/') if s] if 'one' in val else list(val['many'])
        if ctx['kind'] != 'res' or not ctx['lineage'] or ctx['lineage'][0]['name'][0] == 'absent':
            return ('ok', False, ctx)
        names = []
        for n in reversed(ctx['lineage']):
            if n['name'][0] == 'absent':
                return ('err', 'AttributeError')
            names.append(n['name'][1] if n['name'][0] == 'text' else '')
        return ('ok', names == want, ctx)
    if f == 'is_authenticated':
        a = val['auth']
        if isinstance(a, bool):
            return ('ok', q['is_auth'] == a, ctx)
        if isinstance(a, dict):
            return ('ok', a['i'] == (1 if q['is_auth'] else 0), ctx)
        return ('ok', False, ctx)
    if f == 'effective_principals':
        return ('ok', set(as_list(val)) <= set(q['principals']), ctx)
    return ('skip', 'unknown factory')


def doc_text(case, f, val, vinfo):
    """the documented text() of an un-negated predicate (None: not stated / constructor refuses)"""
    if f == 'xhr':
        return 'xhr = %s' % val['b']
    if f == 'request_method':
        vals = sorted(as_list(val))
        if 'GET' in vals and 'HEAD' not in vals:
            vals = sorted(vals + ['HEAD'])
        return 'request_method = ' + ','.join(vals)
    if f == 'path_info':
        return 'path_info = ' + val['one']
    if f == 'request_param':
        items = [doc_parse(p) for p in sorted(as_list(val))]
        return 'request_param ' + ','.join('%s=%s' % (k, v) if v else k for k, v in items)
    if f == 'header':
        items = [(p.split(':', 1) + [None])[:2] for p in sorted(as_list(val))]
        return 'header ' + ', '.join('%s=%s' % (n, r) if r else n for n, r in items)
    if f == 'accept':
        return 'accept = ' + ', '.join(as_list(val))
    if f == 'containment':
        return 'containment = ' + vinfo['str']
    if f == 'request_type':
        return 'request_type = ' + vinfo['str']
    if f == 'match_param':
        items = [p.split('=', 1) for p in sorted(as_list(val))]
        if any(len(i) != 2 for i in items):
            return None
        return 'match_param ' + ','.join('%s=%s' % (k.strip(), v.strip()) for k, v in items)
    if f == 'custom':
        return vinfo['text']
    if f == 'traverse':
        return 'traverse matchdict pseudo-predicate'
    if f == 'physical_path':
        t = tuple([''] + [x for x in val['one'].split('/') if x]) if 'one' in val else tuple(val['many'])
        return 'physical_path = %s' % (t,)
    if f == 'is_authenticated':
        a = val['auth']
        return 'is_authenticated = %r' % (a['i'] if isinstance(a, dict) else a,)
    if f == 'effective_principals':
        return 'effective_principals = %s' % sorted(set(as_list(val)))
    return None


def wf_phash(f, val):
    """values for which the statement's phash clause is claimed: no joiner inside an element, no empty required value"""
    if f in ('request_param', 'match_param', 'request_method', 'header', 'accept'):
        for e in as_list(val):
            if ',' in e:
                return 'joiner'
            if f == 'header' and '=' in e.split(':', 1)[0]:
                return 'joiner'
            if f == 'request_param' and doc_parse(e)[1] == '':
                return 'empty'
            if f == 'request_param' and '=' in doc_parse(e)[0]:
                return 'joiner'
    return None


def oracle_pred(case, got):
    """returns (detail or None, expected, finding or None)"""
    q = got['mreq']
    if 'err' in got:
        d = doc_decide(case, case['val'], case['ctx'], q)
        if d[0] == 'skip':
            return None, None, None
        if d[0] != 'err' or d[1] != got['err']:
            return 'the constructor raised %s' % got['err'], d, None
        return None, None, None
    d = doc_decide(case, case['val'], case['ctx'], q)
    k = case.get('not', 0)
    exp = None
    if d[0] == 'ok':
        flips = k if got['inner_phash'] else 0
        want = d[1] if flips % 2 == 0 else not d[1]
        exp = {'ok': [want, d[2]]}
        if got['call'] != exp:
            return 'decision differs from the declarative reading (%d not_)' % k, exp, None
    elif d[0] == 'err':
        exp = {'err': d[1]}
        if got['call'] != exp and not ('err' in got and got['err'] == d[1]):
            return 'expected %s' % d[1], exp, None
    # the documented text; phash = text except for custom and traverse
    want_t = doc_text(case, case['f'], case['val'], got.get('vinfo'))
    if want_t is not None:
        if case['f'] not in ('custom', 'traverse') and got['inner_phash'] != want_t:
            return 'phash is not the documented text', want_t, None
        wt = want_t
        for _ in range(k):
            wt = '!' + wt if wt else wt
        if got['text'] != wt:
            return 'text() is not the documented text', wt, None
    # Notted text form
    ip = got['inner_phash']
    if case['f'] == 'traverse' and ip != '':
        return 'traverse predicate has a phash', '', None
    want_ph = ip
    for _ in range(k):
        want_ph = '!' + want_ph if want_ph else want_ph
    if got['phash'] != want_ph:
        return 'Notted phash is not "!" + phash', want_ph, None
    if case['f'] == 'custom' and ip != 'custom:%r' % got['vinfo']['hash']:
        return 'custom phash is not custom:<hash>', 'custom:%r' % got['vinfo']['hash'], None
    # phash equality => equal decisions
    s = got.get('second')
    if s is not None and case['f'] != 'custom' and 'err' not in s and s['phash'] == got['phash'] and s['call'] != got['call']:
        w1, w2 = wf_phash(case['f'], case['val']), wf_phash(case['f'], case['val2'])
        fid = None
        if 'empty' in (w1, w2):
            fid = 'F-X06a'
        elif 'joiner' in (w1, w2):
            fid = 'F-X06b'
        return ('two values with the same phash %r decide differently on this request' % got['phash'],
                {'first': got['call'], 'second': s['call']}, fid)
    return None, exp, None


def oracle_parse(case, got):
    want = doc_parse(case['p'])
    if (got['k'], got['v']) != want or got['n'] != 1:
        return 'parameter text parsed differently from the documented reading', list(want), None
    k, v = got['k'], got['v']
    if v is not None and (k != k.strip() or v != v.strip()):
        return 'key/value not stripped', list(want), None
    return None, list(want), None


def oracle_sorted(case, got):
    want = sorted(case['v'])
    if got['sorted'] != want:
        return 'as_sorted_tuple is not the sorted tuple', want, None
    return None, want, None


def kw_entries(k):
    if k is None:
        return []
    return k['seq'] if 'seq' in k else [k]


def doc_make(case, kw, ordered):
    """what the statement says about make: ('err', 'ConfigurationError') for an unknown keyword, else the list of
    (position, factory, entry) in registration order"""
    names = [n for n, _ in case['reg']]
    out = []
    fac = dict(case['reg'])
    d = dict((n, k) for n, k in kw)
    for i, n in enumerate(names):
        for e in kw_entries(d.get(n)):
            out.append((i, fac[n], e))
    unknown = [n for n, _ in kw if n not in names]
    return out, unknown


def oracle_one_make(case, kw, got, q):
    """checks one make result against the statement; returns (detail, expected)"""
    reg_names = [n for n, _ in case['reg']]
    if 'ordered' in got and got['ordered'] != reg_names:
        return 'predicates are not ordered as registered', reg_names
    plan, unknown = doc_make(case, kw, got.get('ordered') or [])
    if 'err' in got:
        if got['err'] == 'ConfigurationError' and unknown:
            return None, None
        # a constructor may legitimately refuse its value
        for i, f, e in plan:
            d = doc_decide_f(case, f, e['v'], case['ctx'], q)
            if d[0] == 'err' and d[1] == got['err']:
                return None, None
            if d[0] == 'skip' and got['err'] in ('ConfigurationError', 'ValueError'):
                return None, None
        if got['err'] == 'UnicodeEncodeError':
            return 'make raised UnicodeEncodeError', 'a predicate list or ConfigurationError'
        return 'make raised %s' % got['err'], 'a predicate list'
    if unknown:
        return 'unknown predicate names %r did not raise ConfigurationError' % unknown, 'ConfigurationError'
    if len(got['texts']) != len(plan):
        return 'number of predicates', len(plan)
    if got.get('order') is not None:
        score = 0
        for i, _, _ in plan:
            score |= 1 << (i + 1)
        want = (MAX_ORDER - score) // (len(plan) + 1)
        if got['order'] != want:
            return 'order is not (MAX_ORDER - score) // (n + 1)', want
        if got['phash'] != hashlib.sha256(''.join(got['phashes']).encode('latin-1')).hexdigest():
            return 'phash is not the sha256 over the predicate phashes in registration order', None
    # evaluation = conjunction in registration order with short-circuit
    ctx = case['ctx']
    want_log, want = [], True
    for i, f, e in plan:
        d = doc_decide_f(case, f, e['v'], ctx, q)
        if d[0] != 'ok':
            return (None, None) if d[0] == 'skip' or 'err' in got['eval'] else ('evaluation did not raise %s' % d[1], d[1])
        if f == 'custom':
            want_log.append(e['v']['cust']['fn'])
        b, ctx = d[1], d[2]
        if e['not'] and f != 'traverse':
            b = not b
        if not b:
            want = False
            break
    if 'err' in got['eval']:
        return 'evaluation raised %s' % got['eval']['err'], want
    b, after, log = got['eval']['ok']
    if b != want:
        return 'the list does not decide as the conjunction of its predicates', want
    if log != want_log:
        return 'custom predicates called %r, expected %r (registration order, stop at the first False)' % (log, want_log), want_log
    if want and after is not None and after != ctx:
        return 'the route info after evaluation differs', ctx
    return None, want


def oracle_make(case, got):
    q = got['mreq']
    d, e = oracle_one_make(case, case['kw'], got, q)
    if d:
        fid = 'F-X06c' if got.get('err') == 'UnicodeEncodeError' and nonlatin_phash(case, case['kw']) else None
        return d, e, fid
    s = got.get('second')
    if s is None:
        return None, e, None
    kw2 = kw_variant(case)
    d, e2 = oracle_one_make(case, kw2, s, q)
    if d:
        fid = 'F-X06c' if s.get('err') == 'UnicodeEncodeError' and nonlatin_phash(case, kw2) else None
        return 'variant: ' + d, e2, fid
    if 'err' in got or 'err' in s:
        if case['var']['kind'] == 'perm' and got.get('err') != s.get('err'):
            return 'keyword order changes the outcome', got.get('err'), None
        return None, e, None
    kind = case['var']['kind']
    if kind == 'perm':
        for key in ('order', 'phash', 'texts', 'phashes', 'eval'):
            if got.get(key) != s.get(key):
                return 'keyword order changes %s' % key, got.get(key), None
    elif kind == 'more':
        if got.get('order') is not None and len(s['texts']) > len(got['texts']) and len(case['reg']) <= 16 and len(s['texts']) <= 100 \
                and not s['order'] < got['order']:
            return 'more predicates but not a strictly smaller order', '< %d' % got['order'], None
    if got.get('phash') is not None and got['phash'] == s['phash']:
        if [h for h in got['phashes'] if h] != [h for h in s['phashes'] if h]:
            fid = 'F-X06b' if ''.join(got['phashes']) == ''.join(s['phashes']) else None
            if got['eval'] != s['eval'] or fid:
                return ('two predicate lists with different predicate phashes %r / %r share the phash' % (got['phashes'], s['phashes']),
                        'different phash', fid)
    elif got.get('phash') is not None and got['phashes'] == s['phashes']:
        return 'same predicate phashes but different list phash', got['phash'], None
    return None, e, None


def nonlatin_phash(case, kw):
    """narrow classifier of F-X06c: some predicate value of the keyword list has a code point above 255"""
    def texts(v):
        if 'one' in v:
            return [v['one']]
        if 'many' in v:
            return v['many']
        if 'cust' in v:
            return []
        return []
    return any(ord(c) > 255 for _, k in kw for e in kw_entries(k) for t in texts(e['v']) for c in t)


def oracle(case, got):
    op = case['op']
    if op == 'parse':
        return oracle_parse(case, got)
    if op == 'sorted':
        return oracle_sorted(case, got)
    if op == 'pred':
        return oracle_pred(case, got)
    return oracle_make(case, got)


# ------------------------------------------------------------------------------------------------------------------
# model side: wire encoding and comparison
def codes(s):
    return [ord(c) for c in s]


def text_of(cs):
    return ''.join(chr(c) for c in cs)


def enc_val(M, case, v):
    if 'b' in v:
        return {'b': v['b']}
    if 'one' in v:
        return {'one': codes(v['one'])}
    if 'many' in v:
        return {'many': [codes(t) for t in v['many']]}
    if 'tag' in v:
        return {'tag': v['tag'], 'str': codes(str((M['RTAGS'] if v.get('req') else M['TAGS'])[v['tag']]))}
    if 'cust' in v:
        c = v['cust']
        f = Fn(c['fn'], case['fns'][c['fn']], c['hash'], c.get('text'), [])
        return {'cust': {'hash': hash(f), 'fn': c['fn'],
                         'text': codes(getattr(f, '__text__', 'custom predicate: %s' % M['U'].object_description(f)))}}
    if 'auth' in v:
        return {'auth': v['auth']}
    if 'pat' in v:
        return {'pat': [[t[0], codes(t[1])] for t in v['pat']]}
    raise ValueError(v)


def enc_mv(v):
    return ['s', codes(v[1])] if v[0] == 's' else ['t', [codes(x) for x in v[1]]]


def enc_dict(d):
    return [[codes(k), enc_mv(v)] for k, v in d]


def enc_node(n):
    return {'name': [n['name'][0]] + ([codes(n['name'][1])] if n['name'][0] == 'text' else []), 'tags': n['tags']}


def enc_ctx(c):
    if c['kind'] == 'res':
        return {'lineage': [enc_node(n) for n in c['lineage']], 'has_traverse': False, 'match': []}
    return {'lineage': [], 'has_traverse': c['has_traverse'], 'match': enc_dict(c['match'])}


def dec_mv(v):
    return ['s', text_of(v[1])] if v[0] == 's' else ['t', [text_of(x) for x in v[1]]]


def dec_ctx(c, j):
    if c['kind'] == 'res':
        return c
    return {'kind': 'info', 'has_traverse': j['has_traverse'], 'match': [[text_of(k), dec_mv(v)] for k, v in j['match']]}


def enc_req(q):
    pairs = lambda xs: [[codes(a), codes(b)] for a, b in xs]   # noqa: E731
    return {'method': codes(q['method']), 'upath': codes(q['upath']), 'get': pairs(q['get']), 'post': pairs(q['post']),
            'environ': pairs(q['environ']), 'accept': None if q['accept'] is None else [[codes(t), codes(s), n] for t, s, n in q['accept']],
            'context': None if q['context'] is None else [enc_node(n) for n in q['context']], 'ifaces': q['ifaces'],
            'matchdict': None if q['matchdict'] is None else enc_dict(q['matchdict']), 'is_auth': q['is_auth'],
            'principals': [codes(p) for p in q['principals']]}


def case_texts(case):
    out = [case['req']['path'], case['req']['method']]
    out += [v for _, v in case['req']['environ']]
    return out


def enc_env(case, q):
    chars = set()
    for t in [q['upath']] + [v for _, v in q['environ']]:
        chars.update(t)
    chars = sorted(c for c in chars if ord(c) >= 128)
    ucd = {'word': [ord(c) for c in chars if re.fullmatch(r'\w', c)], 'digit': [ord(c) for c in chars if re.fullmatch(r'\d', c)],
           'space': [ord(c) for c in chars if re.fullmatch(r'\s', c)]}
    return {'ucd': ucd, 'rx': [[codes(rx_print(r)), rx_wire(r)] for r in case.get('rxlib', [])] + [[[], ['eps']]],
            'fns': [[d[0]] + [codes(x) if isinstance(x, str) else x for x in d[1:]] for d in case.get('fns', [])]}


def enc_kw(M, case, kw):
    out = []
    for n, k in kw:
        if k is None:
            out.append([codes(n), None])
        elif 'seq' in k:
            out.append([codes(n), {'seq': [{'v': enc_val(M, case, e['v']), 'not': e['not']} for e in k['seq']]}])
        else:
            out.append([codes(n), {'v': enc_val(M, case, k['v']), 'not': k['not']}])
    return out


def model_lines(M, case, got):
    """the driver lines of a case (1 or 2); needs the measured request of the implementation run"""
    op = case['op']
    if op == 'parse':
        return [{'op': 'parse', 'p': codes(case['p'])}]
    if op == 'sorted':
        return [{'op': 'sorted', 'v': [codes(t) for t in case['v']]}]
    q = got['mreq']
    env = enc_env(case, q)
    if op == 'pred':
        base = {'op': 'pred', 'env': env, 'f': case['f'], 'not': case.get('not', 0), 'ctx': enc_ctx(case['ctx']), 'req': enc_req(q)}
        lines = [dict(base, val=enc_val(M, case, case['val']))]
        if 'val2' in case:
            lines.append(dict(base, val=enc_val(M, case, case['val2'])))
        return lines
    if case['mode'] in ('direct', 'subscriber'):
        ordered = [[codes(n), f] for n, f in case['reg']]
    else:
        ordered = [[codes(n), n] for n in (VIEW_NAMES if case['mode'] == 'view' else ROUTE_NAMES)]
    base = {'op': 'make', 'env': env, 'ordered': ordered, 'ctx': enc_ctx(case['ctx']), 'req': enc_req(q)}
    lines = [dict(base, kw=enc_kw(M, case, case['kw']))]
    kw2 = kw_variant(case)
    if kw2 is not None:
        lines.append(dict(base, kw=enc_kw(M, case, kw2)))
    return lines


def cmp_pred(case, got, mo):
    if 'error' in mo:
        return 'driver error: %s' % mo['error']
    if 'err' in mo:
        if str(mo['err']).startswith('outside'):
            return None
        return None if got.get('err') == mo['err'] else 'constructor: impl %r, model %r' % (got.get('err'), mo['err'])
    if 'err' in got:
        return 'constructor: impl raised %s, model built the predicate' % got['err']
    if text_of(mo['text']) != got['text']:
        return 'text: impl %r, model %r' % (got['text'], text_of(mo['text']))
    if text_of(mo['phash']) != got['phash']:
        return 'phash: impl %r, model %r' % (got['phash'], text_of(mo['phash']))
    mc = mo['call']
    if 'err' in mc:
        if str(mc['err']).startswith('outside'):
            return None
        return None if got['call'].get('err') == mc['err'] else 'call: impl %r, model %r' % (got['call'], mc['err'])
    want = {'ok': [mc['ok'][0], dec_ctx(case['ctx'], mc['ok'][1])]}
    if got['call'] != want:
        return 'call: impl %r, model %r' % (got['call'], want)
    return None


def cmp_make(case, got, mo):
    if 'error' in mo:
        return 'driver error: %s' % mo['error']
    if 'err' in mo:
        if str(mo['err']).startswith('outside'):
            return None
        return None if got.get('err') == mo['err'] else 'make: impl %r, model %r' % (got.get('err'), mo['err'])
    if 'err' in got:
        return 'make: impl raised %s (%s), model returned' % (got['err'], got.get('err_text'))
    if [text_of(t) for t in mo['texts']] != got['texts']:
        return 'texts: impl %r, model %r' % (got['texts'], [text_of(t) for t in mo['texts']])
    if [text_of(t) for t in mo['phashes']] != got['phashes']:
        return 'phashes differ'
    if got.get('order') is not None:
        if mo['order'] != got['order']:
            return 'order: impl %r, model %r' % (got['order'], mo['order'])
        if hashlib.sha256(bytes(mo['pre'])).hexdigest() != got['phash']:
            return 'phash: sha256 of the model\'s pre-image is not the implementation\'s phash'
    me = mo['eval']
    if 'err' in me:
        if str(me['err']).startswith('outside'):
            return None
        return None if got['eval'].get('err') == me['err'] else 'eval: impl %r, model %r' % (got['eval'], me['err'])
    if 'err' in got['eval']:
        return 'eval: impl raised %s, model %r' % (got['eval']['err'], me['ok'][0])
    b, after, log = got['eval']['ok']
    if b != me['ok'][0]:
        return 'eval: impl %r, model %r' % (b, me['ok'][0])
    if log != me['ok'][3]:
        return 'custom predicate calls: impl %r, model %r' % (log, me['ok'][3])
    if after is not None and after != dec_ctx(case['ctx'], me['ok'][1]):
        return 'context after evaluation: impl %r, model %r' % (after, dec_ctx(case['ctx'], me['ok'][1]))
    return None


def compare_model(case, got, mos):
    op = case['op']
    if op == 'parse':
        mo = mos[0]
        v = None if mo.get('v') is None else text_of(mo['v'])
        if 'error' in mo or (text_of(mo['k']), v) != (got['k'], got['v']):
            return 'parse: impl %r, model %r' % ((got['k'], got['v']), mo)
        return None
    if op == 'sorted':
        mo = mos[0]
        if 'error' in mo or [text_of(t) for t in mo['sorted']] != got['sorted']:
            return 'sorted differs'
        return None
    if op == 'pred':
        why = cmp_pred(case, got, mos[0])
        if not why and 'val2' in case:
            why = cmp_pred(case, got['second'], mos[1])
            why = why and 'second value: ' + why
        return why
    why = cmp_make(case, got, mos[0])
    if not why and case.get('var'):
        why = cmp_make(case, got['second'], mos[1])
        why = why and 'variant: ' + why
    return why


# ------------------------------------------------------------------------------------------------------------------
# generators
METHODS = ['GET', 'HEAD', 'POST', 'PUT', 'DELETE', 'OPTIONS', 'PATCH', 'get', 'Get', 'GETX']
KEYS = ['a', 'b', 'k', 'id', 'q', 'x y', '=', '=a', 'é', 'abc', 'A', '']
VALS = ['1', 'v', '', 'x y', 'a=b', 'é', '0', 'abc', ' v', 'v ', '=']
SPACES = [' ', '  ', '\t', '\n', '\xa0', ' ', '\x1f', '　', '\x85']
HEADERS = ['X-Foo', 'x-foo', 'X_Foo', 'Host', 'Content-Type', 'content-length', 'Accept', 'User-Agent', 'X-Requested-With', 'Content_Type', 'X']
HVALS = ['abc', '123', 'text/html', 'XMLHttpRequest', '', 'a b', 'é', 'localhost:80', 'x1y', 'A']
TYPES = [('text', 'html'), ('text', 'plain'), ('application', 'json'), ('image', 'png'), ('text', 'x')]
PRINCIPALS = ['system.Everyone', 'system.Authenticated', 'fred', 'group:editors', "it's", 'a"b', 'é', 'a\\b', 'x\ny', '', 'both\'"']
NAMES = ['a', 'b', 'etc', '', 'x y', "it's", 'é', 'a.b']
SEGS = ['a', 'b', 'c1', 'x.y', '..', '.', 'a-b', 'u_v', 'zz']
NONLATIN = ['日', 'λ', '€', 'я']


def pick(rng, xs):
    return xs[rng.randrange(len(xs))]


def pad(rng, s, p=0.3):
    if rng.random() < p:
        s = pick(rng, SPACES) + s
    if rng.random() < p:
        s = s + pick(rng, SPACES)
    return s


def gen_param(rng, hint):
    r = rng.random()
    k = pick(rng, KEYS)
    v = pick(rng, VALS)
    hint['keys'].append(k.strip() if r >= 0.3 else k)
    hint['vals'].append(v.strip())
    if r < 0.3:
        return k
    if r < 0.4:
        return k + '='
    return pad(rng, k) + '=' + pad(rng, v)


def gen_node(rng, names=NAMES):
    r = rng.random()
    name = ['absent'] if r < 0.08 else ['none'] if r < 0.2 else ['text', pick(rng, names)]
    return {'name': name, 'tags': sorted(set(rng.randrange(4) for _ in range(rng.randrange(3))))}


def gen_lineage(rng, want=None):
    """context first; the root is named '' most of the time"""
    if want is not None and rng.random() < 0.6:
        nodes = [{'name': ['text', n] if n or rng.random() < 0.7 else ['none'], 'tags': sorted(set(rng.randrange(4) for _ in range(rng.randrange(2))))}
                 for n in reversed(want)]
        if rng.random() < 0.15 and nodes:
            nodes[rng.randrange(len(nodes))] = gen_node(rng)
        return nodes
    nodes = [gen_node(rng) for _ in range(rng.randrange(4))]
    if nodes and rng.random() < 0.8:
        nodes[-1]['name'] = pick(rng, [['text', ''], ['none']])
    return nodes


def gen_match(rng, keys=()):
    ks = list(dict.fromkeys(list(keys) + [pick(rng, ['a', 'b', 'c', 'id']) for _ in range(rng.randrange(3))]))
    rng.shuffle(ks)
    return [[k, ['s', pick(rng, SEGS)]] for k in ks if rng.random() < 0.9]


def new_hint():
    return {'methods': [], 'keys': [], 'vals': [], 'headers': [], 'hvals': [], 'paths': [], 'offers': [], 'tags': [], 'rtags': [],
            'mkeys': [], 'mvals': [], 'phys': None, 'principals': [], 'patkeys': []}


def gen_val(rng, f, case, hint):
    """a configuration value for the factory, mostly valid; fills the hints the request generator uses"""
    r = rng.random()
    if f == 'xhr':
        return {'b': rng.random() < 0.5}
    if f == 'request_method':
        ms = [pick(rng, METHODS[:8]) for _ in range(1 + rng.randrange(3))]
        hint['methods'] += ms
        return {'one': ms[0]} if r < 0.4 else {'many': ms}
    if f == 'path_info':
        if r < 0.06:
            return {'one': pick(rng, INVALID_RX)}
        t = gen_rx(rng) if r < 0.6 else ['seq', ['chr', '/'], gen_rx(rng)]
        case['rxlib'].append(t)
        for _ in range(2):
            w = rx_sample(rng, t)
            if w is not None:
                hint['paths'].append(w)
        return {'one': rx_print(t)}
    if f == 'request_param':
        ps = [gen_param(rng, hint) for _ in range(1 + rng.randrange(3))]
        return {'one': ps[0]} if r < 0.4 else {'many': ps}
    if f == 'header':
        hs = []
        for _ in range(1 + rng.randrange(2)):
            name = pick(rng, HEADERS)
            hint['headers'].append(name)
            x = rng.random()
            if x < 0.4:
                hs.append(name)
            elif x < 0.46:
                hs.append(name + ':' + pick(rng, INVALID_RX))
            elif x < 0.52:
                hs.append(name + ':')
            else:
                t = gen_rx(rng)
                case['rxlib'].append(t)
                w = rx_sample(rng, t)
                if w is not None and all(ord(c) < 256 for c in w):
                    hint['hvals'].append(w)
                hs.append(name + ':' + rx_print(t))
        return {'one': hs[0]} if r < 0.5 else {'many': hs}
    if f == 'accept':
        offers = ['%s/%s' % pick(rng, TYPES) for _ in range(1 + rng.randrange(3))]
        hint['offers'] += offers
        return {'one': offers[0]} if r < 0.5 else {'many': offers}
    if f == 'containment':
        t = rng.randrange(4)
        hint['tags'].append(t)
        return {'tag': t}
    if f == 'request_type':
        return {'tag': rng.randrange(3), 'req': True}
    if f == 'match_param':
        ps = []
        for _ in range(1 + rng.randrange(2)):
            k, v = pick(rng, ['a', 'b', 'id', 'traverse']), pick(rng, SEGS + ['1', ''])
            hint['mkeys'].append(k)
            hint['mvals'].append(v)
            ps.append(k if rng.random() < 0.05 else pad(rng, k, 0.2) + '=' + pad(rng, v, 0.2))
        return {'one': ps[0]} if r < 0.5 else {'many': ps}
    if f == 'custom':
        d = pick(rng, [['const', True], ['const', True], ['const', False], ['method', pick(rng, METHODS[:4])], ['xhr'], ['hasmatch', pick(rng, ['traverse', 'a'])]])
        case['fns'].append(d)
        if d[0] == 'method':
            hint['methods'].append(d[1])
        return {'cust': {'fn': len(case['fns']) - 1, 'hash': pick(rng, [0, 1, 7, -1, -5, 12345678901234567, 2 ** 61 + 3, len(case['fns'])]),
                         'text': pick(rng, [None, None, 'my predicate', ''])}}
    if f == 'traverse':
        toks = []
        for _ in range(rng.randrange(4)):
            toks.append(['lit', '/'])
            if rng.random() < 0.6:
                k = pick(rng, [x for x in ['a', 'b', 'c', 'id', 'k2'] if x not in hint['patkeys']])
                hint['patkeys'].append(k)
                toks.append(['ph', k])
            else:
                toks.append(['lit', pick(rng, SEGS)])
        return {'pat': toks or [['lit', '/']]}
    if f == 'physical_path':
        segs = [''] + [pick(rng, NAMES[:3] + NAMES[4:]) for _ in range(rng.randrange(3))]
        hint['phys'] = segs
        if r < 0.5:
            s = '/'.join(segs) or '/'
            if rng.random() < 0.2:
                s = s.replace('/', '//', 1) + '/'
            if rng.random() < 0.1:
                s = s.lstrip('/')
            return {'one': s}
        return {'many': segs if rng.random() < 0.8 else segs[1:]}
    if f == 'is_authenticated':
        return {'auth': pick(rng, [True, False, True, False, None, {'i': 1}, {'i': 0}, {'i': 2}])}
    if f == 'effective_principals':
        ps = [pick(rng, PRINCIPALS) for _ in range(1 + rng.randrange(3))]
        hint['principals'] += ps
        return {'one': ps[0]} if r < 0.4 else {'many': ps}
    raise ValueError(f)


def gen_req(rng, hint, ctx):
    method = pick(rng, hint['methods'] + ['GET', 'HEAD']) if rng.random() < 0.7 else pick(rng, METHODS)
    if hint['paths'] and rng.random() < 0.7:
        path = pick(rng, hint['paths']) + (pick(rng, ['', '', '/x', 'z', '\n']))
    else:
        path = pick(rng, ['/', '/a', '/a/b', '/é', '/x1', 'a', '/a b', '']) if rng.random() < 0.7 else vfutil.rand_text(rng, 6, p_nonascii=0.15)
    path = ''.join(c for c in path if not 0xD800 <= ord(c) < 0xE000)[:14]

    def pairs():
        out = []
        for _ in range(rng.randrange(4)):
            k = pick(rng, hint['keys'] + KEYS[:4]) if rng.random() < 0.8 else pick(rng, KEYS)
            v = pick(rng, hint['vals'] + VALS[:3]) if rng.random() < 0.7 else pick(rng, VALS)
            out.append([k, v])
        return out
    get = pairs()
    post = pairs() if rng.random() < 0.3 else None
    if post is not None and rng.random() < 0.7:
        method = pick(rng, ['POST', 'PUT', 'PATCH'])
    environ = {}
    for _ in range(rng.randrange(3)):
        name = pick(rng, hint['headers'] + HEADERS[:3]) if rng.random() < 0.8 else pick(rng, HEADERS)
        if name.upper() in ('CONTENT-TYPE', 'CONTENT-LENGTH', 'ACCEPT') or (post is not None and name.upper().startswith('CONTENT')):
            if name.upper() != 'CONTENT-TYPE' or post is not None:
                continue
        key = trans(name) if rng.random() < 0.85 else 'HTTP_' + name.upper()
        environ[key] = pick(rng, hint['hvals'] + HVALS[:3]) if rng.random() < 0.75 else pick(rng, HVALS)
    if rng.random() < 0.35:
        environ['HTTP_X_REQUESTED_WITH'] = 'XMLHttpRequest' if rng.random() < 0.8 else pick(rng, ['xmlhttprequest', '', 'XMLHttpRequest '])
    accept = None
    r = rng.random()
    if r < 0.04:
        accept = 'invalid'
    elif r < 0.6:
        accept = []
        for _ in range(1 + rng.randrange(3)):
            x = rng.random()
            t, s = pick(rng, TYPES)
            if hint['offers'] and rng.random() < 0.6:
                t, s = pick(rng, hint['offers']).split('/')
            if x < 0.2:
                t, s = '*', '*'
            elif x < 0.45:
                s = '*'
            accept.append([t, s, pick(rng, [1000, 1000, 0, 0, 500, 1, 900])])
    context = gen_lineage(rng, hint['phys']) if rng.random() < 0.3 else None
    md = None
    r = rng.random()
    if r < 0.15:
        md = []
    elif r < 0.7 or hint['mkeys']:
        md = []
        for k in dict.fromkeys(hint['mkeys'] + [pick(rng, ['a', 'b', 'z'])]):
            x = rng.random()
            if x < 0.7:
                md.append([k, ['s', pick(rng, [v.strip() for v in hint['mvals']] + SEGS[:2])]])
            elif x < 0.8:
                md.append([k, ['t', [pick(rng, SEGS)]]])
        if rng.random() < 0.1:
            md = None
    principals = ['system.Everyone'] + [pick(rng, hint['principals'] + PRINCIPALS[:4]) for _ in range(rng.randrange(4))]
    if hint['principals'] and rng.random() < 0.5:
        principals += hint['principals']
    rng.shuffle(principals)
    return {'method': method, 'path': path, 'get': get, 'post': post, 'environ': [[k, v] for k, v in environ.items()], 'accept': accept,
            'context': context, 'ifaces': sorted(set(rng.randrange(2) for _ in range(rng.randrange(3)))), 'matchdict': md,
            'is_auth': rng.random() < 0.5, 'principals': principals}


def gen_ctx(rng, hint, info=None):
    if info is None:
        info = rng.random() < 0.15
    if info:
        return {'kind': 'info', 'has_traverse': False, 'match': gen_match(rng, hint['patkeys'])}
    lin = gen_lineage(rng, hint['phys'])
    if hint['tags'] and lin and rng.random() < 0.5:
        n = pick(rng, lin)
        n['tags'] = sorted(set(n['tags']) | {pick(rng, hint['tags'])})
    return {'kind': 'res', 'lineage': lin}


def perturb(rng, f, val, case):
    """a second value related to the first: same meaning (permutation, padding), or one of the near misses"""
    r = rng.random()
    if 'many' in val:
        xs = list(val['many'])
        if r < 0.35:
            rng.shuffle(xs)
            return {'many': xs}
        if r < 0.5 and len(xs) >= 2 and not (f == 'header' and any(':' in x for x in xs)):
            sep = ', ' if f in ('header', 'accept') else ','
            return {'one': sep.join(sorted(xs))}
        if r < 0.6 and len(xs) == 1:
            return {'one': xs[0]}
    xs = as_list(val) if ('one' in val or 'many' in val) else None
    if xs:
        i = rng.randrange(len(xs))
        e = xs[i]
        if f == 'request_param':
            if r < 0.7:
                k, v = doc_parse(e)
                e = (pad(rng, k, 0.5) + '=' + pad(rng, v, 0.5)) if v is not None and not k.startswith('=') and k else (e + '=' if rng.random() < 0.5 else e)
            elif e.endswith('='):
                e = e[:-1]
            else:
                e = e + pick(rng, ['=', 'x', ' '])
        elif f == 'match_param' and '=' in e:
            k, v = e.split('=', 1)
            e = pad(rng, k, 0.5) + '=' + pad(rng, v, 0.5) if r < 0.7 else e + 'x'
        elif f == 'header':
            if ':' in e:
                e = e.replace(':', '=', 1) if r < 0.3 else e
            elif r < 0.5:
                e = e + ':'
        elif f == 'physical_path':
            e = e + '/' if r < 0.5 else e + 'x'
        elif f == 'path_info':
            return val
        else:
            e = e + 'x' if r < 0.3 else e
        xs = xs[:i] + [e] + xs[i + 1:]
        if f == 'physical_path' and 'one' in val and rng.random() < 0.5:
            return {'many': [''] + [s for s in val['one'].split('/') if s]}
        return {'one': xs[0]} if 'one' in val else {'many': xs}
    if 'auth' in val:
        return {'auth': {True: {'i': 1}, False: {'i': 0}}.get(val['auth'], val['auth']) if isinstance(val['auth'], bool) else val['auth']}
    if 'cust' in val:
        c = dict(val['cust'])
        if r < 0.5:
            c['text'] = 'other text'
        else:
            d = pick(rng, [['const', True], ['const', False]])
            case['fns'].append(d)
            c['fn'] = len(case['fns']) - 1
        return {'cust': c}
    return val


def gen_pred(rng, f=None):
    f = f or pick(rng, FACTORIES)
    case = {'op': 'pred', 'f': f, 'rxlib': [], 'fns': [], 'not': pick(rng, [0, 0, 0, 1, 1, 2])}
    hint = new_hint()
    case['val'] = gen_val(rng, f, case, hint)
    if rng.random() < 0.35:
        case['val2'] = perturb(rng, f, case['val'], case)
    case['ctx'] = gen_ctx(rng, hint, info=True if f == 'traverse' else None)
    if f == 'traverse' and rng.random() < 0.15:
        case['ctx']['has_traverse'] = True
    if f == 'traverse' and rng.random() < 0.1 and case['ctx']['match']:
        case['ctx']['match'].append(['traverse', ['s', 'old']])
    case['req'] = gen_req(rng, hint, case['ctx'])
    return case


def gen_kw_entry(rng, f, case, hint):
    if f == 'custom' and rng.random() < 0.6:
        return {'seq': [{'v': gen_val(rng, 'custom', case, hint), 'not': rng.random() < 0.2} for _ in range(rng.randrange(4))]}
    v = gen_val(rng, f, case, hint)
    if v.get('auth', 0) is None:
        v['auth'] = False
    return {'v': v, 'not': rng.random() < 0.2}


def gen_make(rng, mode=None):
    mode = mode or pick(rng, ['direct'] * 6 + ['view'] * 2 + ['route', 'subscriber'])
    case = {'op': 'make', 'mode': mode, 'rxlib': [], 'fns': [], 'var': None}
    hint = new_hint()
    info = mode == 'route' or (mode == 'direct' and rng.random() < 0.3)
    if mode in ('direct', 'subscriber'):
        pool = [f for f in FACTORIES if info or f != 'traverse']
        if mode == 'subscriber':
            pool = [f for f in pool if f != 'traverse']
        n = rng.randrange(1, 9)
        fs = [pick(rng, pool) for _ in range(n)]
        if rng.random() < 0.6:
            fs.append('custom')
        reg, seen = [], set()
        for f in fs:
            name = f if rng.random() < 0.7 else pick(rng, ['p', 'q', 'zz', 'my_pred', 'a1']) + str(len(reg))
            if name in seen:
                continue
            seen.add(name)
            reg.append([name, f])
        rng.shuffle(reg)
        case['reg'] = reg
    else:
        names = VIEW_NAMES if mode == 'view' else ROUTE_NAMES
        case['reg'] = [[n, n] for n in names]
    kw = []
    for name, f in case['reg']:
        p = 0.45 if mode in ('direct', 'subscriber') else 0.25
        if rng.random() < p:
            if rng.random() < 0.06:
                kw.append([name, None])
            else:
                kw.append([name, gen_kw_entry(rng, f, case, hint)])
    if mode == 'direct' and rng.random() < 0.06:
        kw.append([pick(rng, ['nope', 'xhrr', 'request_methods']), pick([None, {'v': {'b': True}, 'not': False}], 1)[0] if False else
                   pick(rng, [None, {'v': {'b': True}, 'not': False}])])
    rng.shuffle(kw)
    if mode in ('view', 'route'):
        # add_view / add_route own conventions: custom is a sequence; accept values are offers; no None values needed
        kw = [[n, k] for n, k in kw if k is not None]
        for e in kw:
            if e[0] == 'custom' and 'seq' not in e[1]:
                e[1] = {'seq': [e[1]]}
            if e[0] in ('accept', 'request_type') or (e[0] == 'request_method' and mode == 'route'):
                e[1]['not'] = False
            if e[0] == 'accept' and 'many' in e[1]['v']:
                e[1]['v'] = {'one': e[1]['v']['many'][0]}

    case['kw'] = kw
    case['ctx'] = gen_ctx(rng, hint, info=info)
    case['req'] = gen_req(rng, hint, case['ctx'])
    if mode == 'direct' and rng.random() < 0.5:
        r = rng.random()
        absent = [[n, f] for n, f in case['reg'] if n not in [k[0] for k in kw]]
        if r < 0.35 and len(kw) >= 2:
            perm = list(range(len(kw)))
            rng.shuffle(perm)
            case['var'] = {'kind': 'perm', 'perm': perm}
        elif r < 0.7 and absent:
            n, f = pick(rng, absent)
            case['var'] = {'kind': 'more', 'add': [n, gen_kw_entry(rng, f, case, hint)]}
        elif kw:
            i = rng.randrange(len(kw))
            f = dict(case['reg']).get(kw[i][0])
            if f is not None:
                case['var'] = {'kind': 'change', 'at': i, 'kw': gen_kw_entry(rng, f, case, hint)}
    return case


def gen_parse(rng):
    r = rng.random()
    if r < 0.5:
        hint = new_hint()
        return {'op': 'parse', 'p': gen_param(rng, hint)}
    return {'op': 'parse', 'p': vfutil.rand_text(rng, 7, alphabet=list('ab= =\t=\xa0é1'))}


def gen_sorted(rng):
    return {'op': 'sorted', 'v': [pick(rng, KEYS + METHODS + ['Z', 'a', 'aa', 'é', 'ab', 'B', '日']) for _ in range(rng.randrange(6))]}


def gen_case(rng):
    r = rng.random()
    if r < 0.08:
        return gen_parse(rng)
    if r < 0.11:
        return gen_sorted(rng)
    if r < 0.6:
        return gen_pred(rng)
    return gen_make(rng)


# ------------------------------------------------------------------------------------------------------------------
# fixed cases, classification, checking
def base_req(**kw):
    q = {'method': 'GET', 'path': '/', 'get': [], 'post': None, 'environ': [], 'accept': None, 'context': None, 'ifaces': [],
         'matchdict': None, 'is_auth': False, 'principals': ['system.Everyone']}
    q.update(kw)
    return q


RES0 = {'kind': 'res', 'lineage': [{'name': ['text', 'a'], 'tags': [0]}, {'name': ['text', ''], 'tags': [2]}]}


def fixed_cases():
    out = []
    P = lambda f, val, req, ctx=RES0, **kw: out.append(dict({'op': 'pred', 'f': f, 'val': val, 'not': 0, 'rxlib': [], 'fns': [], 'ctx': ctx, 'req': req}, **kw))  # noqa: E731
    # GET implies HEAD; Notted; double negation
    for m in ('GET', 'HEAD', 'POST'):
        for val in ({'one': 'GET'}, {'many': ['POST', 'GET']}, {'one': 'POST'}, {'many': ['HEAD']}):
            for k in (0, 1, 2):
                P('request_method', val, base_req(method=m), **{'not': k})
    # request_param forms
    for p in ('a', 'a=1', ' a = 1 ', 'a=', '=a', '=a=1', '==', '= a = 1', 'a=b=c', '', '=', ' =1'):
        out.append({'op': 'parse', 'p': p})
        for get in ([], [['a', '1']], [['a', '2'], ['a', '1']], [['a', '']], [['=a', '1']], [['', '1']], [['a', 'b=c']]):
            P('request_param', {'one': p}, base_req(get=get))
    P('request_param', {'one': 'a='}, base_req(get=[['a', '1']]), val2={'one': 'a'})
    P('request_param', {'one': 'a,b'}, base_req(get=[['a', '1'], ['b', '2']]), val2={'many': ['a', 'b']})
    P('header', {'one': 'A=x'}, base_req(environ=[['HTTP_A', 'x']]), val2={'one': 'A:x'}, rxlib=[['chr', 'x']])
    P('request_param', {'many': ['b', 'a=1']}, base_req(get=[['a', '1'], ['b', '']]), val2={'many': [' a = 1', 'b']})
    # xhr, auth, principals
    for env in ([], [['HTTP_X_REQUESTED_WITH', 'XMLHttpRequest']], [['HTTP_X_REQUESTED_WITH', 'xmlhttprequest']]):
        for b in (True, False):
            P('xhr', {'b': b}, base_req(environ=env))
    for a in (True, False, None, {'i': 1}, {'i': 0}):
        for ia in (True, False):
            P('is_authenticated', {'auth': a}, base_req(is_auth=ia))
    for val in ({'one': 'fred'}, {'many': ['fred', 'system.Everyone']}, {'many': []}, {'many': ["it's", 'a"b']}):
        for ps in (['system.Everyone'], ['system.Everyone', 'fred'], ['fred', 'x', "it's", 'a"b', 'system.Everyone']):
            P('effective_principals', val, base_req(principals=ps))
    # physical path / containment / request type
    for val in ({'one': '/a'}, {'one': '/'}, {'one': 'a'}, {'one': '//a//'}, {'many': ['', 'a']}, {'many': ['a']}, {'many': []}):
        for lin in ([], RES0['lineage'], [{'name': ['none'], 'tags': []}], [{'name': ['absent'], 'tags': []}],
                    [{'name': ['text', 'a'], 'tags': []}, {'name': ['absent'], 'tags': []}]):
            P('physical_path', val, base_req(), ctx={'kind': 'res', 'lineage': lin})
    for t in range(4):
        P('containment', {'tag': t}, base_req())
        P('containment', {'tag': t}, base_req(context=[{'name': ['none'], 'tags': [1, 3]}]))
    for t in range(3):
        P('request_type', {'tag': t, 'req': True}, base_req(ifaces=[0]))
    # accept
    for acc in (None, 'invalid', [['text', 'html', 1000]], [['text', '*', 0], ['text', 'html', 1000]], [['*', '*', 0]], [['text', 'html', 0], ['*', '*', 1000]],
                [['text', '*', 1000], ['text', '*', 0]]):
        for val in ({'one': 'text/html'}, {'many': ['text/plain', 'image/png']}, {'many': []}):
            P('accept', val, base_req(accept=acc))
    # match_param
    for md in (None, [], [['a', ['s', '1']]], [['a', ['t', ['1']]]], [['a', ['s', '1']], ['b', ['s', '2']]]):
        for val in ({'one': 'a=1'}, {'many': ['a = 1', 'b=2']}, {'one': 'a'}):
            P('match_param', val, base_req(matchdict=md))
    # header
    for env in ([], [['HTTP_X_FOO', 'abc']], [['CONTENT_TYPE', 'text/html']], [['HTTP_CONTENT_TYPE', 'x']]):
        for val, lib in (({'one': 'X-Foo'}, []), ({'one': 'x_foo:a'}, [['chr', 'a']]), ({'one': 'Content-Type'}, []), ({'one': 'Content_Type'}, []),
                         ({'one': 'X-Foo:'}, []), ({'one': 'X-Foo:('}, []), ({'many': ['X-Foo:\\d+', 'Content-Type']}, [['rep', True, 1, None, ['esc', 'd', False]]])):
            P('header', val, base_req(environ=env), rxlib=lib)
    # path_info
    for path in ('/abc', 'abc', '/', '/ab\n', '/abcd'):
        for lib in ([['seq', ['chr', '/'], ['seq', ['chr', 'a'], ['chr', 'b']]]], [['rep', True, 0, None, ['any']]], [['eps']]):
            P('path_info', {'one': rx_print(lib[0])}, base_req(path=path), rxlib=lib)
    P('path_info', {'one': '('}, base_req())
    # traverse
    for match in ([['a', ['s', 'x']], ['b', ['s', '..']]], [['a', ['s', 'x']]], [['a', ['s', 'x']], ['traverse', ['s', 'old']], ['b', ['s', 'y']]]):
        for ht in (False, True):
            for k in (0, 1):
                P('traverse', {'pat': [['lit', '/'], ['ph', 'a'], ['lit', '/q/'], ['ph', 'b']]}, base_req(),
                  ctx={'kind': 'info', 'has_traverse': ht, 'match': match}, **{'not': k})
    # custom
    for d in (['const', True], ['const', False], ['method', 'GET'], ['xhr']):
        for k in (0, 1, 2):
            P('custom', {'cust': {'fn': 0, 'hash': 5, 'text': None}}, base_req(), fns=[d], **{'not': k})
    # make: order / unknown names / short circuit / variants
    reg = [[n, n] for n in VIEW_NAMES]
    C = lambda i, b: {'v': {'cust': {'fn': i, 'hash': i, 'text': None}}, 'not': False}  # noqa: E731
    Mk = lambda kw, var=None, fns=(), mode='direct', reg=reg, ctx=RES0, req=None, rxlib=(): out.append(  # noqa: E731
        {'op': 'make', 'mode': mode, 'reg': reg, 'kw': kw, 'var': var, 'rxlib': list(rxlib), 'fns': list(fns), 'ctx': ctx, 'req': req or base_req()})
    Mk([])
    Mk([['xhr', {'v': {'b': False}, 'not': False}]])
    Mk([['nope', None]])
    Mk([['xhr', None]])
    Mk([['xhr', {'v': {'b': False}, 'not': False}], ['request_method', {'v': {'one': 'GET'}, 'not': True}]], var={'kind': 'perm', 'perm': [1, 0]})
    Mk([['xhr', {'v': {'b': False}, 'not': False}]], var={'kind': 'more', 'add': ['custom', {'seq': [C(0, True), C(1, True)]}]}, fns=[['const', True], ['const', True]])
    for bits in itertools.product([True, False], repeat=3):
        fns = [['const', b] for b in bits]
        for mode in ('direct', 'view', 'subscriber'):
            Mk([['custom', {'seq': [C(i, b) for i, b in enumerate(bits)]}], ['xhr', {'v': {'b': False}, 'not': False}]], fns=fns, mode=mode,
               reg=reg if mode != 'subscriber' else [['xhr', 'xhr'], ['custom', 'custom']])
        Mk([['custom', {'seq': [C(i, b) for i, b in enumerate(bits)]}]], fns=fns, mode='route', reg=[[n, n] for n in ROUTE_NAMES],
           ctx={'kind': 'info', 'has_traverse': False, 'match': [['a', ['s', 'x']]]})
    # traverse then a custom predicate that sees the rewritten matchdict
    Mk([['traverse', {'v': {'pat': [['lit', '/'], ['ph', 'a'], ['lit', '/z']]}, 'not': False}], ['custom', {'seq': [{'v': {'cust': {'fn': 0, 'hash': 1, 'text': None}}, 'not': False}]}]],
       fns=[['hasmatch', 'traverse']], mode='route', reg=[[n, n] for n in ROUTE_NAMES], ctx={'kind': 'info', 'has_traverse': False, 'match': [['a', ['s', 'x']]]})
    # the concatenation collision (F-X06b) and the non-latin-1 crash (F-X06c)
    return out


def is_trivial(case, got):
    op = case['op']
    if op == 'parse':
        return '=' not in case['p']
    if op == 'sorted':
        return len(case['v']) < 2
    if op == 'pred':
        if 'val2' in case or 'err' in got:
            return False
        c = got.get('call', {})
        return 'ok' in c and c['ok'][0] is (case.get('not', 0) % 2 == 1) and case['f'] in ('request_param', 'header', 'match_param', 'effective_principals') \
            and not hits(case)
    return not case['kw']


def hits(case):
    """does the request mention anything the value names?"""
    v = case['val']
    xs = as_list(v) if ('one' in v or 'many' in v) else []
    q = case['req']
    words = {k for k, _ in q['get']} | {k for k, _ in (q['post'] or [])} | {k for k, _ in (q['matchdict'] or [])} | set(q['principals'])
    words |= {k[5:].lower().replace('_', '-') for k, _ in q['environ']}
    return any(doc_parse(x)[0] in words or x.split(':')[0].lower().replace('_', '-') in words or x.split('=')[0].strip() in words for x in xs)


def classify(case, got, dist):
    bump(dist['ops'], case['op'] + (':' + case['mode'] if case['op'] == 'make' else ''))
    if case['op'] == 'pred':
        bump(dist['factory'], case['f'])
        bump(dist['notted'], str(case.get('not', 0)))
        if 'err' in got:
            bump(dist['outcome'], 'constructor ' + got['err'])
        elif 'err' in got['call']:
            bump(dist['outcome'], 'call ' + got['call']['err'])
        else:
            bump(dist['outcome'], str(got['call']['ok'][0]))
            bump(dist['by_factory'], '%s:%s' % (case['f'], got['call']['ok'][0]))
        if 'val2' in case and 'second' in got and 'err' not in got and 'err' not in got['second']:
            same = got['second']['phash'] == got['phash']
            bump(dist['second_value'], ('same phash' if same else 'different phash') + (', same decision' if got['second']['call'] == got['call'] else ', different decision'))
    elif case['op'] == 'make':
        if 'err' in got:
            bump(dist['make_outcome'], got['err'])
        else:
            bump(dist['make_outcome'], 'list of %d' % min(len(got['texts']), 6))
            ev = got['eval']
            bump(dist['eval'], ev['err'] if 'err' in ev else '%s after %d custom calls' % (ev['ok'][0], len(ev['ok'][2])))
        if case.get('var'):
            bump(dist['variant'], case['var']['kind'])
    elif case['op'] == 'parse':
        bump(dist['parse'], 'k=v' if got['v'] is not None else 'k')


def new_dist():
    return {k: {} for k in ('ops', 'factory', 'notted', 'outcome', 'by_factory', 'second_value', 'make_outcome', 'eval', 'variant', 'parse')}


def wellformed(case):
    """generator invariants the shrinker must keep: every regex text is printed by the case's library (or is one of the
    invalid texts), custom fn indices exist, variants refer to existing entries"""
    try:
        vals = []
        if case['op'] == 'pred':
            vals = [(case['f'], case['val'])] + ([(case['f'], case['val2'])] if 'val2' in case else [])
            if case['f'] not in FACTORIES or case.get('not', 0) not in (0, 1, 2):
                return False
        elif case['op'] == 'make':
            fac = dict(case['reg'])
            if len(fac) != len(case['reg']) or any(f not in FACTORIES for f in fac.values()):
                return False
            kws = [case['kw']] + ([kw_variant(case)] if case.get('var') else [])
            for kw in kws:
                if len(dict(kw)) != len(kw):
                    return False
                for n, k in kw:
                    for e in kw_entries(k):
                        if n in fac:
                            vals.append((fac[n], e['v']))
            if case['mode'] not in ('direct', 'view', 'route', 'subscriber'):
                return False
            if case['mode'] in ('view', 'route') and case['reg'] != [[n, n] for n in (VIEW_NAMES if case['mode'] == 'view' else ROUTE_NAMES)]:
                return False
            if case['mode'] == 'route' and case['ctx']['kind'] != 'info':
                return False
        else:
            return True
        for f, v in vals:
            shape = {'xhr': 'b', 'containment': 'tag', 'request_type': 'tag', 'custom': 'cust', 'traverse': 'pat', 'is_authenticated': 'auth'}.get(f)
            if shape is not None and shape not in v:
                return False
            if shape is None and not ('one' in v or 'many' in v):
                return False
            if f == 'path_info' and ('one' not in v or not rx_text_ok(case, v['one'])):
                return False
            if f == 'header' and any(':' in e and e.split(':', 1)[1] != '' and not rx_text_ok(case, e.split(':', 1)[1]) for e in as_list(v)):
                return False
            if f == 'custom' and not 0 <= v['cust']['fn'] < len(case['fns']):
                return False
            if f in ('containment',) and not 0 <= v['tag'] < 4:
                return False
            if f == 'request_type' and not (0 <= v['tag'] < 3 and v.get('req')):
                return False
        c = case['ctx']
        if c['kind'] == 'info':
            if any(v[0] != 's' or not v[1] or '/' in v[1] or not set(v[1]) <= PLAIN for _, v in c['match']) and case['op'] == 'make':
                return False
            if len(dict((k, 1) for k, _ in c['match'])) != len(c['match']):
                return False
        for r in case.get('rxlib', []):
            rx_print(r)
        # keep the list-of-successes matcher of the model (and of the oracle) within a budget
        subjects = [info_path(c) if c['kind'] == 'info' and case['op'] == 'make' else case['req']['path']] + [v for _, v in case['req']['environ']]
        subjects += ['application/x-www-form-urlencoded', 'localhost:80', '0123456789']
        if case['req']['accept'] is not None:
            subjects.append(accept_header(case['req']['accept']))
        for r in case.get('rxlib', []):
            for sub in subjects:
                WORK[0], WORK[1] = 0, 20000
                try:
                    rx_run(r, sub, 0)
                except TooBig:
                    return False
                finally:
                    WORK[1] = 10 ** 9
        return True
    except Exception:      # noqa
        return False


def finding_of(case, v):
    return v.get('finding')


def check_case(M, case, run_model):
    """returns (mismatch or None, violation or None, got)"""
    got = impl(M, case)
    detail, exp, fid = oracle(case, got)
    v = None
    if detail:
        v = {'case': case, 'impl': slim(got), 'expected': exp, 'detail': detail}
        if fid:
            v['finding'] = fid
    m = None
    if run_model is not None:
        mos = run_model(model_lines(M, case, got))
        why = compare_model(case, got, mos)
        if why:
            m = {'case': case, 'impl': slim(got), 'model': mos, 'why': why}
    return m, v, got


def slim(got):
    return {k: v for k, v in got.items() if k not in ('mreq', 'vinfo', 'vinfo2')}


def shrink_case(M, case, fails, max_steps=250):
    def ok(c):
        try:
            return wellformed(c) and fails(c)
        except Exception:      # noqa
            return False
    return vfutil.shrink(case, ok, max_steps=max_steps)


def shrink_violation(M, v):
    fid = v.get('finding')

    def fails(c):
        d, _, f = oracle(c, impl(M, c))
        return bool(d) and f == fid
    small = shrink_case(M, v['case'], fails)
    if small != v['case']:
        got = impl(M, small)
        d, e, f = oracle(small, got)
        out = {'case': small, 'impl': slim(got), 'expected': e, 'detail': d}
        if f:
            out['finding'] = f
        return out
    return v


def run(ctx):
    M = mods(ctx)
    rng = ctx.rng
    n = ctx.n(9000, 120000)
    cases = [c for _, c in ctx.corpus()]
    ncorpus = len(cases)
    cases += fixed_cases()
    nfixed = len(cases) - ncorpus
    k = 0
    while k < n:
        c = gen_case(rng)
        if wellformed(c):
            cases.append(c)
            k += 1
    mism, viol, agree = [], [], 0
    dist = new_dist()
    seen, nontriv = set(), set()
    gots = []
    for case in cases:
        gots.append(impl(M, case))
        if ctx.time_left() < 120:
            break
    cases = cases[:len(gots)]
    model = None
    if ctx.driver_path:
        lines, idx = [], []
        for case, got in zip(cases, gots):
            ls = model_lines(M, case, got)
            idx.append((len(lines), len(ls)))
            lines += ls
        outs = []
        for i in range(0, len(lines), 4000):
            outs += ctx.run_model(lines[i:i + 4000])
        model = [outs[a:a + k] for a, k in idx]
    outside = 0
    for i, (case, got) in enumerate(zip(cases, gots)):
        detail, exp, fid = oracle(case, got)
        if detail:
            v = {'case': case, 'impl': slim(got), 'expected': exp, 'detail': detail}
            if fid:
                v['finding'] = fid
            viol.append(v)
        if model is not None:
            why = compare_model(case, got, model[i])
            if why:
                mism.append({'case': case, 'impl': slim(got), 'model': model[i], 'why': why})
            else:
                agree += 1
            if any(str(mo.get('err', '')).startswith('outside') or str((mo.get('call') or mo.get('eval') or {}).get('err', '')).startswith('outside') for mo in model[i]):
                outside += 1
        classify(case, got, dist)
        key = vfutil.canon(case)
        if key not in seen:
            seen.add(key)
            if not is_trivial(case, got):
                nontriv.add(key)
    dist['model_outside_fragment'] = outside
    unknown = [v for v in viol if not v.get('finding')]
    known = [v for v in viol if v.get('finding')]
    firsts = {}
    for v in known:
        firsts.setdefault(v['finding'], v)
    viol = [shrink_violation(M, v) for v in unknown[:3]] + unknown[3:20] + [shrink_violation(M, v) for v in firsts.values()]
    if mism and ctx.driver_path:
        def mfails(c):
            g = impl(M, c)
            return bool(compare_model(c, g, ctx.run_model(model_lines(M, c, g))))
        m0 = mism[0]
        small = shrink_case(M, m0['case'], mfails, max_steps=120)
        if small != m0['case']:
            g = impl(M, small)
            mos = ctx.run_model(model_lines(M, small, g))
            mism.insert(0, {'case': small, 'impl': slim(g), 'model': mos, 'why': compare_model(small, g, mos)})
    return {'evaluations': len(cases), 'distinct_nontrivial': len(nontriv), 'rule': RULE, 'agreeing': agree,
            'samples': cases[ncorpus + nfixed:ncorpus + nfixed + 5] + cases[-3:], 'mismatches': mism[:20], 'violations': viol,
            'distribution': dist,
            'notes': ['%d corpus + %d fixed (decision cubes per predicate, parser forms, short-circuit cube in all four modes) + %d random cases' % (ncorpus, nfixed, n),
                      'a pred case calls the real predicate class on a real pyramid Request and real resource objects / a route info dict; '
                      'a make case goes through PredicateList.make directly (then pyramid.config.views.predicated_view or RoutesMapper evaluates) '
                      'or through Configurator.add_view / add_route / add_subscriber',
                      'known findings seen this run: %s' % sorted(firsts)],
            'assumptions': ['header names are ASCII; accept offers are lower-case type/subtype without parameters and Accept ranges carry only q',
                            'regexes are trees of the C01 fragment (Pyr.Rx) printed to text; invalid regexes come from a fixed list',
                            'traverse patterns use distinct {name} placeholders and values over [a-z0-9._/-] (no quoting needed)',
                            'request.GET / POST / environ / upath_info are read back from the real Request (webob\'s parsing is webob\'s)',
                            'is_authenticated / effective_principals come from a stub authentication policy behind LegacySecurityPolicy',
                            'custom predicates with equal hash() are the user\'s promise of equal meaning: excluded from the phash clause'],
            'trusted_base': ['extract/x06.py probes the running predicate classes and PredicateList.make (Gen/X06.lean)',
                             'C01\'s regex fragment Pyr.Rx (matcher + printer) is reused; Python\'s re is tied to it by correspondence only',
                             'sha256 is not modelled: the model returns the pre-image, the harness hashes it']}


def search(ctx):
    """implementation-only search (oracle only, no model) for an input that violates the property"""
    M = mods(ctx)
    viol, n = [], 0

    def push(case):
        nonlocal n
        n += 1
        try:
            got = impl(M, case)
            d, e, fid = oracle(case, got)
        except Exception:      # noqa
            return
        if d and not fid and len(viol) < 40:
            viol.append({'case': case, 'impl': slim(got), 'expected': e, 'detail': d})
    for _, c in ctx.corpus():
        push(c)
    for c in fixed_cases():
        push(c)
    # small scope: every factory x a value pool x a request pool
    rng = ctx.rng
    for f in FACTORIES:
        for _ in range(ctx.n(60, 300)):
            c = gen_pred(rng, f)
            if wellformed(c):
                push(c)
        if len(viol) >= 5:
            break
    for mode in ('direct', 'view', 'route', 'subscriber'):
        for _ in range(ctx.n(80, 400)):
            c = gen_make(rng, mode)
            if wellformed(c):
                push(c)
    k = 0
    while ctx.time_left() > 120 and k < ctx.n(3000, 30000) and len(viol) < 5:
        c = gen_case(rng)
        if wellformed(c):
            push(c)
        k += 1
    viol = [shrink_violation(M, v) for v in viol[:3]] + viol[3:]
    return {'violations': viol[:5], 'searched': n, 'exhaustive': False,
            'scope': 'corpus + fixed cubes; per factory %d generated predicate cases; per mode %d make cases; then %d random cases' % (ctx.n(60, 300), ctx.n(80, 400), k)}


def replay(ctx, rep):
    case = rep.get('case') or (rep if 'op' in rep else None)
    if case is None:
        return {'violates': False, 'note': 'replay names broken obligations only', 'broken': rep.get('broken_obligations')}
    M = mods(ctx)
    rm = (lambda lines: ctx.run_model(lines)) if ctx.driver_path else None
    m, v, got = check_case(M, case, rm)
    return {'case': case, 'impl': slim(got), 'mismatch': m and m['why'], 'model': m and m['model'], 'detail': v and v['detail'],
            'expected': v and v['expected'], 'finding': v and v.get('finding'), 'violates': bool(v)}
